// Stand-alone driver for mdtraj/geometry/src/neighborlist.cpp (owns `omp parallel for`).
#include <cstdio>
#include <cstdlib>
#include <vector>
#include "neighborlist.h"
static unsigned long long s = 1234567891234567ULL;
static double rnd() { s ^= s << 13; s ^= s >> 7; s ^= s << 17; return (s >> 11) * (1.0 / 9007199254740992.0); }
int main(int argc, char** argv) {
    int n_atoms = argc > 1 ? atoi(argv[1]) : 500; int periodic = argc > 2 ? atoi(argv[2]) : 1;
    s += argc > 3 ? atoll(argv[3]) : 0;
    float L = 3.0f;
    std::vector<float> xyz(n_atoms * 3);
    for (int i = 0; i < n_atoms * 3; i++) xyz[i] = L * (float)rnd();
    float box[9] = {L, 0, 0, 0.3f, L, 0, 0.2f, -0.4f, L};
    std::vector<std::vector<int> > nl = _compute_neighborlist(xyz.data(), n_atoms, 0.45f, periodic ? box : NULL);
    size_t total = 0, asym = 0;
    for (int i = 0; i < n_atoms; i++) {
        total += nl[i].size();
        for (size_t k = 0; k < nl[i].size(); k++) {
            int j = nl[i][k]; bool found = false;
            for (size_t m = 0; m < nl[j].size(); m++) if (nl[j][m] == i) found = true;
            if (!found) asym++;
        }
    }
    printf("RESULT neighborlist atoms=%d periodic=%d pairs=%zu asymmetric=%zu\n", n_atoms, periodic, total, asym);
    return 0;
}
