// Stand-alone driver for mdtraj/geometry/src/sasa.cpp (owns the OpenMP region). Built with -fsanitize=thread against gompshim.
#include <cstdio>
#include <cstdlib>
#include <cmath>
#include <vector>
#include "sasa.h"
static unsigned long long s = 88172645463325252ULL;
static double rnd() { s ^= s << 13; s ^= s >> 7; s ^= s << 17; return (s >> 11) * (1.0 / 9007199254740992.0); }
int main(int argc, char** argv) {
    int n_frames = argc > 1 ? atoi(argv[1]) : 8, n_atoms = argc > 2 ? atoi(argv[2]) : 60, n_pts = argc > 3 ? atoi(argv[3]) : 50;
    s += argc > 4 ? atoll(argv[4]) : 0;
    std::vector<float> xyz(n_frames * n_atoms * 3), radii(n_atoms), out(n_frames * n_atoms, 0.0f);
    std::vector<int> map(n_atoms), mask(n_atoms, 1);
    int side = (int)ceil(cbrt((double)n_atoms));
    for (int f = 0; f < n_frames; f++)
        for (int a = 0; a < n_atoms; a++) {  // jittered lattice: no coincident atoms
            int ix = a % side, iy = (a / side) % side, iz = a / (side * side);
            xyz[(f * n_atoms + a) * 3 + 0] = 0.25f * ix + 0.08f * (float)rnd();
            xyz[(f * n_atoms + a) * 3 + 1] = 0.25f * iy + 0.08f * (float)rnd();
            xyz[(f * n_atoms + a) * 3 + 2] = 0.25f * iz + 0.08f * (float)rnd();
        }
    for (int a = 0; a < n_atoms; a++) { radii[a] = 0.15f + 0.1f * (float)rnd(); map[a] = a; }
    sasa(n_frames, n_atoms, xyz.data(), radii.data(), n_pts, map.data(), mask.data(), n_atoms, out.data());
    // per-frame checksums, and the same frames one by one (frame independence inside the driver as well)
    int bad = 0;
    for (int f = 0; f < n_frames; f++) {
        std::vector<float> one(n_atoms, 0.0f);
        sasa(1, n_atoms, xyz.data() + f * n_atoms * 3, radii.data(), n_pts, map.data(), mask.data(), n_atoms, one.data());
        for (int a = 0; a < n_atoms; a++) if (one[a] != out[f * n_atoms + a]) bad++;
    }
    double sum = 0; for (size_t i = 0; i < out.size(); i++) sum += out[i];
    printf("RESULT sasa frames=%d atoms=%d sum=%.6f frame_mismatches=%d\n", n_frames, n_atoms, sum, bad);
    return 0;
}
