// Driver that runs the RMSD / superposition kernels inside its own `#pragma omp parallel for`, the same shape as the
// Cython prange loops of _rmsd.pyx (which cannot be TSan-instrumented themselves).
#include <cstdio>
#include <cstdlib>
#include <cmath>
#include <vector>
#include "theobald_rmsd.h"
#include "rotation.h"
#include "center.h"
static unsigned long long s = 424242424242ULL;
static double rnd() { s ^= s << 13; s ^= s >> 7; s ^= s << 17; return (s >> 11) * (1.0 / 9007199254740992.0); }
int main(int argc, char** argv) {
    int n_frames = argc > 1 ? atoi(argv[1]) : 16, n_atoms = argc > 2 ? atoi(argv[2]) : 37;
    s += argc > 3 ? atoll(argv[3]) : 0;
    std::vector<float> xyz(n_frames * n_atoms * 3), ref(n_atoms * 3), g(n_frames), dist(n_frames), rot(n_frames * 9), disp;
    for (size_t i = 0; i < xyz.size(); i++) xyz[i] = (float)(rnd() * 2 - 1);
    for (size_t i = 0; i < ref.size(); i++) ref[i] = (float)(rnd() * 2 - 1);
    float gref;
    inplace_center_and_trace_atom_major(xyz.data(), g.data(), n_frames, n_atoms);
    inplace_center_and_trace_atom_major(ref.data(), &gref, 1, n_atoms);
    disp = xyz;
    int i;
#pragma omp parallel for
    for (i = 0; i < n_frames; i++) {
        float msd = msd_atom_major(n_atoms, n_atoms, &xyz[i * n_atoms * 3], ref.data(), g[i], gref, 0, NULL);
        dist[i] = sqrtf(msd);
    }
#pragma omp parallel for
    for (i = 0; i < n_frames; i++) {
        msd_atom_major(n_atoms, n_atoms, &xyz[i * n_atoms * 3], ref.data(), gref, g[i], 1, &rot[i * 9]);
        rot_atom_major(n_atoms, &disp[i * n_atoms * 3], &rot[i * 9]);
    }
    int bad = 0;
    for (i = 0; i < n_frames; i++) {  // serial recomputation must agree bit-for-bit
        float msd = msd_atom_major(n_atoms, n_atoms, &xyz[i * n_atoms * 3], ref.data(), g[i], gref, 0, NULL);
        if (sqrtf(msd) != dist[i]) bad++;
    }
    double sum = 0; for (i = 0; i < n_frames; i++) sum += dist[i];
    printf("RESULT rmsd frames=%d atoms=%d sum=%.6f serial_mismatches=%d\n", n_frames, n_atoms, sum, bad);
    return 0;
}
