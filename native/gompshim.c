/* gompshim: a pthread implementation of the four libgomp entry points mdtraj's extensions use
 * (GOMP_parallel, GOMP_barrier, omp_get_num_threads, omp_get_thread_num) plus omp_set_num_threads etc.
 *
 * Purpose (DESIGN 2.4-M5/M6):
 *  - fork/join and barrier are plain pthread primitives, which ThreadSanitizer intercepts, so a TSan build of
 *    kernel + driver + this shim reports only races that exist under OpenMP semantics (libgomp's futex barriers
 *    are invisible to TSan and would produce false races);
 *  - every parallel region is logged (outlined function, team size, arrival order of the team threads) and each
 *    team thread sleeps a seeded random 0..jitter microseconds before entering, so schedule evidence is recorded
 *    and interleavings vary from run to run in a replayable way.
 * Only static `omp for` loops without GOMP_loop_* calls are supported (all mdtraj uses; checked with nm -u).
 */
#define _GNU_SOURCE
#include <pthread.h>
#include <stdint.h>
#include <stdio.h>
#include <stdlib.h>
#include <string.h>
#include <time.h>
#include <unistd.h>

typedef struct {
    int nthreads;
    pthread_barrier_t barrier;
    void (*fn)(void *);
    void *data;
    unsigned region;
    int arrival_next;
    int arrival[64];
    pthread_mutex_t mu;
} team_t;

typedef struct {
    team_t *team;
    int tid;
} tls_t;

static __thread tls_t tls = {0, 0};
static int g_default_threads = 0;
static unsigned g_jitter_us = 0;
static uint64_t g_seed = 1;
static unsigned g_region_counter = 0;
static pthread_mutex_t g_mu = PTHREAD_MUTEX_INITIALIZER;

#define MAXLOG 4096
typedef struct {
    void *fn;
    int nthreads;
    char order[200];
    unsigned long count;
} logent_t;
static logent_t g_log[MAXLOG];
static int g_nlog = 0;
static unsigned long g_regions = 0;

static int default_threads(void) {
    if (g_default_threads > 0) return g_default_threads;
    const char *e = getenv("GOMPSHIM_THREADS");
    if (!e) e = getenv("OMP_NUM_THREADS");
    int n = e ? atoi(e) : 0;
    if (n <= 0) n = (int)sysconf(_SC_NPROCESSORS_ONLN);
    if (n > 64) n = 64;
    if (n < 1) n = 1;
    return n;
}

static uint64_t mix(uint64_t x) {
    x ^= x >> 33; x *= 0xff51afd7ed558ccdULL; x ^= x >> 33; x *= 0xc4ceb9fe1a85ec53ULL; x ^= x >> 33;
    return x;
}

static void jitter(unsigned region, int tid) {
    if (!g_jitter_us) return;
    uint64_t r = mix(g_seed * 0x9E3779B97F4A7C15ULL + ((uint64_t)region << 8) + (uint64_t)tid);
    unsigned us = (unsigned)(r % (g_jitter_us + 1));
    if (us) {
        struct timespec ts = {0, (long)us * 1000L};
        nanosleep(&ts, NULL);
    }
}

static void enter(team_t *t, int tid) {
    jitter(t->region, tid);
    pthread_mutex_lock(&t->mu);
    if (t->arrival_next < 64) t->arrival[t->arrival_next] = tid;
    t->arrival_next++;
    pthread_mutex_unlock(&t->mu);
}

static void *worker(void *arg) {
    tls_t *me = (tls_t *)arg;
    tls = *me;
    enter(me->team, me->tid);
    me->team->fn(me->team->data);
    tls.team = NULL;
    tls.tid = 0;
    return NULL;
}

static void log_region(team_t *t) {
    char buf[200];
    int off = 0;
    int n = t->nthreads < 64 ? t->nthreads : 64;
    for (int i = 0; i < n && off < 190; i++) off += snprintf(buf + off, sizeof(buf) - off, i ? ",%d" : "%d", t->arrival[i]);
    buf[off] = 0;
    pthread_mutex_lock(&g_mu);
    g_regions++;
    int found = -1;
    for (int i = 0; i < g_nlog; i++)
        if (g_log[i].fn == (void *)t->fn && g_log[i].nthreads == t->nthreads && strcmp(g_log[i].order, buf) == 0) { found = i; break; }
    if (found < 0 && g_nlog < MAXLOG) {
        found = g_nlog++;
        g_log[found].fn = (void *)t->fn;
        g_log[found].nthreads = t->nthreads;
        strncpy(g_log[found].order, buf, sizeof(g_log[found].order) - 1);
        g_log[found].count = 0;
    }
    if (found >= 0) g_log[found].count++;
    pthread_mutex_unlock(&g_mu);
}

void GOMP_parallel(void (*fn)(void *), void *data, unsigned num_threads, unsigned flags) {
    (void)flags;
    if (tls.team) { /* nested: run serially */
        fn(data);
        return;
    }
    int n = num_threads ? (int)num_threads : default_threads();
    if (n > 64) n = 64;
    team_t team;
    memset(&team, 0, sizeof(team));
    team.nthreads = n;
    team.fn = fn;
    team.data = data;
    pthread_mutex_init(&team.mu, NULL);
    pthread_barrier_init(&team.barrier, NULL, (unsigned)n);
    pthread_mutex_lock(&g_mu);
    team.region = g_region_counter++;
    pthread_mutex_unlock(&g_mu);
    pthread_t th[64];
    tls_t args[64];
    for (int i = 1; i < n; i++) {
        args[i].team = &team;
        args[i].tid = i;
        if (pthread_create(&th[i], NULL, worker, &args[i]) != 0) { perror("gompshim pthread_create"); abort(); }
    }
    tls.team = &team;
    tls.tid = 0;
    enter(&team, 0);
    fn(data);
    tls.team = NULL;
    tls.tid = 0;
    for (int i = 1; i < n; i++) pthread_join(th[i], NULL);
    log_region(&team);
    pthread_barrier_destroy(&team.barrier);
    pthread_mutex_destroy(&team.mu);
}

void GOMP_barrier(void) {
    if (tls.team && tls.team->nthreads > 1) pthread_barrier_wait(&tls.team->barrier);
}

int omp_get_num_threads(void) { return tls.team ? tls.team->nthreads : 1; }
int omp_get_thread_num(void) { return tls.team ? tls.tid : 0; }
int omp_get_max_threads(void) { return default_threads(); }
void omp_set_num_threads(int n) { g_default_threads = n; }
int omp_in_parallel(void) { return tls.team != NULL; }

/* control + evidence */
void gompshim_config(int threads, unsigned jitter_us, uint64_t seed) {
    g_default_threads = threads;
    g_jitter_us = jitter_us;
    g_seed = seed ? seed : 1;
}

unsigned long gompshim_regions(void) { return g_regions; }

int gompshim_dump(const char *path) {
    FILE *f = fopen(path, "a");
    if (!f) return -1;
    pthread_mutex_lock(&g_mu);
    for (int i = 0; i < g_nlog; i++)
        fprintf(f, "{\"fn\": \"%p\", \"threads\": %d, \"arrival\": \"%s\", \"count\": %lu}\n", g_log[i].fn, g_log[i].nthreads,
                g_log[i].order, g_log[i].count);
    pthread_mutex_unlock(&g_mu);
    fclose(f);
    return g_nlog;
}

void gompshim_reset(void) {
    pthread_mutex_lock(&g_mu);
    g_nlog = 0;
    g_regions = 0;
    pthread_mutex_unlock(&g_mu);
}
