"""Worker process: runs a slice of a property's case stream against the real code, logging JSON lines."""
from __future__ import annotations

import argparse
import faulthandler
import importlib
import json
import os
import sys
import time
import traceback
import warnings


def main(argv=None):
    ap = argparse.ArgumentParser()
    ap.add_argument("prop")
    ap.add_argument("--tier", default="quick")
    ap.add_argument("--seed", type=int, default=0)
    ap.add_argument("--worker", type=int, default=0)
    ap.add_argument("--nworkers", type=int, default=1)
    ap.add_argument("--out", required=True)
    ap.add_argument("--budget", type=float, default=1e9)
    ap.add_argument("--case-file")
    ap.add_argument("--group", default=None, help="restrict to cases whose 'group' equals this")
    a = ap.parse_args(argv)

    faulthandler.enable()
    from vlib import overlay
    fnd = overlay.install()
    warnings.filterwarnings("ignore")
    import numpy as np  # noqa
    np.seterr(all="ignore")
    from vlib.ctx import Ctx
    mod = importlib.import_module("vlib.props." + a.prop.lower())

    out = open(a.out, "a", buffering=1)

    def emit(o):
        out.write(json.dumps(o) + "\n")

    t0 = time.time()
    if a.case_file:
        with open(a.case_file) as f:
            rp = json.load(f)
        cases = [rp["case"]] if "case" in rp else rp["cases"]
    else:
        def _stream():
            k = 0
            for c in mod.gen_cases(a.tier, a.seed):
                if c.get("group") != a.group:
                    continue
                if k % a.nworkers == a.worker:
                    yield c
                k += 1
        cases = _stream()
    if hasattr(mod, "worker_init"):
        mod.worker_init(a.tier, a.seed)
    n = 0
    truncated = False

    def new_agg():
        return dict(n=0, decided=[], ok={}, skips={}, observed={})

    agg = new_agg()
    for case in cases:
        if not a.case_file and case.get("group") != a.group:
            continue  # grouped cases (e.g. "asan") run only in the worker started for that group
        if time.time() - t0 > a.budget:
            truncated = True
            break
        emit({"start": case})
        ctx = Ctx(a.prop, case)
        tc = time.time()
        try:
            mod.run_case(case, ctx)
        except Exception as e:  # a crash of the harness or an unexpected exception in mdtraj: decide in module
            tb = traceback.format_exc()
            handled = False
            if hasattr(mod, "on_exception"):
                try:
                    handled = mod.on_exception(case, ctx, e, tb)
                except Exception:
                    handled = False
            if not handled:
                ctx.violation("harness", "unexpected-exception:" + type(e).__name__,
                              f"unexpected {type(e).__name__}: {e}", traceback=tb[-1500:])
        rec = ctx.record()
        rec["wall"] = round(time.time() - tc, 4)
        n += 1
        if rec["violations"] or n <= 2 or a.case_file:
            emit({"result": rec})
        else:
            # fold conforming cases into a compact aggregate (large exhaustive tiers would not fit in memory otherwise)
            agg["n"] += 1
            if rec["ok"]:
                agg["decided"].append(rec["hash"])
            for k, v in rec["ok"].items():
                agg["ok"][k] = agg["ok"].get(k, 0) + v
            for k, v in rec["skips"].items():
                agg["skips"][k] = agg["skips"].get(k, 0) + v
            for name, d in rec["observed"].items():
                dd = agg["observed"].setdefault(name, {})
                for val, c in d.items():
                    dd[val] = dd.get(val, 0) + c
            if agg["n"] >= 400:
                emit({"agg": agg})
                agg = new_agg()
    if agg["n"]:
        emit({"agg": agg})
    import mdtraj
    emit({"done": dict(worker=a.worker, cases=n, truncated=truncated, wall=round(time.time() - t0, 2),
                       mdtraj_file=mdtraj.__file__, overlay=overlay.loaded(),
                       extra=getattr(mod, "worker_summary", lambda: {})())})
    out.close()
    return 0


if __name__ == "__main__":
    sys.exit(main())
