"""Parent side of ./check: build overlays, fan out workers, classify, write evidence, set exit status."""
from __future__ import annotations

import argparse
import glob
import importlib
import json
import os
import re
import shutil
import subprocess
import sys
import tempfile
import time

VERIF = os.path.dirname(os.path.dirname(os.path.abspath(__file__)))
REPO = os.environ.get("VERIF_REPO", "/repo")
PY = "/venv/bin/python"
DEPS = os.path.join(VERIF, ".deps")
KNOWN = os.path.join(VERIF, "known_findings.json")
ALL_PROPS = ["C%02d" % i for i in range(1, 21)]


def ensure_deps():
    """icontract/deal beside the repository's interpreter, from the offline wheelhouse (idempotent)."""
    marker = os.path.join(DEPS, "icontract")
    if os.path.isdir(marker):
        return True
    os.makedirs(DEPS, exist_ok=True)
    p = subprocess.run([PY, "-m", "pip", "install", "-q", "--no-index", "--find-links", "/opt/veriftools/wheels",
                        "--target", DEPS, "icontract", "deal"], stdout=subprocess.PIPE, stderr=subprocess.STDOUT,
                       text=True)
    if p.returncode != 0:
        print("deps install failed:\n" + p.stdout[-2000:])
        return False
    return True


def load_known():
    if not os.path.exists(KNOWN):
        return []
    with open(KNOWN) as f:
        return json.load(f)["findings"]


def child_env(overlay_dir, extra=None):
    env = dict(os.environ)
    env.update(PYTHONHASHSEED="0", OPENBLAS_NUM_THREADS="1", MKL_NUM_THREADS="1", VERIF_REPO=REPO,
               PYTHONDONTWRITEBYTECODE="1", HDF5_USE_FILE_LOCKING="FALSE")
    env.setdefault("OMP_NUM_THREADS", "4")
    # never spin at OpenMP barriers: the machine may be oversubscribed (16 workers x teams)
    env.setdefault("OMP_WAIT_POLICY", "PASSIVE")
    env.setdefault("GOMP_SPINCOUNT", "0")
    env["PYTHONPATH"] = os.pathsep.join([VERIF, DEPS, REPO])
    if overlay_dir:
        env["VERIF_OVERLAY"] = overlay_dir
    env.pop("MDTRAJ_VERIF", None)
    if extra:
        env.update({k: str(v) for k, v in extra.items()})
    return env


def validate_evidence(path):
    try:
        p = subprocess.run(["python3-vt", "-c", (
            "import json,sys,jsonschema;"
            "s=json.load(open('/root/.vp/EVIDENCE.schema.json'));d=json.load(open(sys.argv[1]));"
            "jsonschema.validate(d,s)"), path], stdout=subprocess.PIPE, stderr=subprocess.STDOUT, text=True,
            timeout=60)
        return p.returncode == 0, p.stdout[-800:]
    except Exception as e:  # validator unavailable: not a verdict
        return True, "validator unavailable: %s" % e


def sanitize(s):
    return re.sub(r"[^A-Za-z0-9_.-]+", "_", s)[:80]


def sanitize_name(rp):
    return sanitize(f"{rp['kind']}-{rp['access']}-{rp['func']}")


def run_property(prop, tier, seed, workers=None, replay=None, keep_logs=False, quiet=False):
    t0 = time.time()
    mod = importlib.import_module("vlib.props." + prop.lower())
    from vlib import build as vbuild

    if getattr(mod, "NEEDS_DEPS", False):
        if not ensure_deps():
            print(f"INCONCLUSIVE property={prop} reason=deps-unavailable")
            return 2
    flavour = getattr(mod, "FLAVOUR", "plain")
    binfo = vbuild.build(flavour)
    overlay_dir = binfo["dir"]
    stale = {k: v for k, v in binfo["stale"].items() if k in getattr(mod, "NATIVE", list(vbuild.EXTENSIONS))}
    if stale and getattr(mod, "NATIVE", None) != []:
        for k, v in stale.items():
            print(f"INCONCLUSIVE property={prop} reason=cannot rebuild {k}: {v}")
        return 2
    extra_env = dict(getattr(mod, "ENV", {}))
    extra_env["VERIF_TIER"] = tier
    extra_env["VERIF_SEED"] = str(seed)
    if hasattr(mod, "prepare"):
        extra_env.update(mod.prepare(tier, seed) or {})
    env = child_env(overlay_dir, extra_env)

    nworkers = workers or getattr(mod, "WORKERS", {}).get(tier, 8)
    # BUDGET is only a cap on a worker's wall-clock (the case streams are finite); it is scaled generously because the
    # machine may be shared with other checks, and a truncated run can fall below its floors (= inconclusive)
    budget = getattr(mod, "BUDGET", {}).get(tier, 60 if tier == "quick" else 900) * float(os.environ.get("VERIF_BUDGET_SCALE", "3"))
    wd = max(120.0, budget * 4)
    logdir = tempfile.mkdtemp(prefix=f"verif-{prop}-", dir=os.environ.get("VERIF_TMP", "/var/tmp"))
    procs = []
    inconclusive = []
    # workers run inside a scratch directory (removed afterwards): code under test that resolves a bad relative path must
    # not be able to litter /verif (the DTR writer's dangling path pointer creates directories with garbage names)
    wcwd = os.path.join(logdir, "cwd")
    os.makedirs(wcwd, exist_ok=True)
    if replay:
        nworkers = 1
    for w in range(nworkers):
        out = os.path.join(logdir, f"w{w}.jsonl")
        cmd = [PY, "-u", "-m", "vlib.worker", prop, "--tier", tier, "--seed", str(seed), "--worker", str(w),
               "--nworkers", str(nworkers), "--out", out, "--budget", str(budget)]
        if replay:
            cmd += ["--case-file", os.path.abspath(replay)]
        errf = open(os.path.join(logdir, f"w{w}.err"), "w")
        procs.append((w, out, errf, subprocess.Popen(cmd, cwd=wcwd, env=env, stdout=errf, stderr=errf)))
    # extra worker groups, e.g. the sanitizer-instrumented build riding on a sub-stream of the same cases
    san_info = []
    san_workers = {}
    for gi, grp in enumerate([] if replay else getattr(mod, "GROUPS", {}).get(tier, [])):
        from vlib import sanitize as vsan
        ginfo = vbuild.build(grp.get("flavour", "plain"))
        genv = child_env(ginfo["dir"], extra_env)
        if ginfo.get("shim"):
            genv["VERIF_SHIM_LIB"] = ginfo["shim"]
        if grp.get("flavour") == "asan":
            se = vsan.asan_env(logdir, tag="asan-" + grp["name"])
            if se is None:
                inconclusive.append("libasan not found; sanitizer group could not run")
                continue
            genv.update(se)
            san_info.append(grp["name"])
            for w in range(grp.get("workers", 1)):
                san_workers[f"g{gi}_{w}"] = grp["name"]
        gn = grp.get("workers", 1)
        for w in range(gn):
            wid = f"g{gi}_{w}"
            out = os.path.join(logdir, f"w{wid}.jsonl")
            cmd = [PY, "-u", "-m", "vlib.worker", prop, "--tier", tier, "--seed", str(seed), "--worker", str(w),
                   "--nworkers", str(gn), "--out", out, "--budget", str(budget), "--group", grp["name"]]
            errf = open(os.path.join(logdir, f"w{wid}.err"), "w")
            procs.append((wid, out, errf, subprocess.Popen(cmd, cwd=wcwd, env=genv, stdout=errf, stderr=errf)))

    deadline = time.time() + wd
    for w, out, errf, p in procs:
        try:
            p.wait(timeout=max(1.0, deadline - time.time()))
        except subprocess.TimeoutExpired:
            p.kill()
            p.wait()
            inconclusive.append(f"worker {w} hit the wall-clock watchdog ({wd:.0f}s)")
        errf.close()

    # ---------------------------------------------------------------- collect
    records, dones, crashed, aggs = [], [], [], []
    for w, out, errf, p in procs:
        last_start = None
        done = None
        if os.path.exists(out):
            with open(out) as f:
                for line in f:
                    try:
                        o = json.loads(line)
                    except ValueError:
                        continue
                    if "start" in o:
                        last_start = o["start"]
                    elif "result" in o:
                        records.append(o["result"])
                        last_start = None
                    elif "agg" in o:
                        aggs.append(o["agg"])
                        last_start = None
                    elif "done" in o:
                        done = o["done"]
        if done is None:
            err = open(os.path.join(logdir, f"w{w}.err")).read()[-3000:]
            crashed.append(dict(worker=w, returncode=p.returncode, case=last_start, stderr=err))
        else:
            dones.append(done)

    known = load_known()
    known_keys = {k["key"]: k for k in known if k["property"] == prop and k["status"] == "known"}
    # VERIF_OUT redirects evidence/ and replay/ (used when the checks are pointed at a seeded copy of mdtraj, so that
    # the committed evidence always comes from runs against /repo itself)
    OUT = os.environ.get("VERIF_OUT", VERIF)
    os.makedirs(os.path.join(OUT, "replay"), exist_ok=True)
    os.makedirs(os.path.join(OUT, "evidence"), exist_ok=True)

    # a worker that died (segfault, abort, os._exit) while running a case: let the module decide
    for c in crashed:
        if str(c["worker"]).startswith("g") and c["worker"] in san_workers:
            from vlib import sanitize as vsan
            if vsan.log_has_verdict(logdir, "asan-" + san_workers[c["worker"]]):
                continue  # the sanitizer report is the verdict; the later death of that process is its consequence
        if c["case"] is not None and c["returncode"] not in (None, -9):
            rec = dict(case=c["case"], hash="crash", ok={}, skips={}, observed={}, notes=[], violations=[dict(
                check="process", key=f"{prop}/process-died", what=f"worker died (rc={c['returncode']}) while running a case",
                detail=dict(stderr=c["stderr"][-1500:]))])
            if hasattr(mod, "classify_crash"):
                rec = mod.classify_crash(rec, c) or rec
            records.append(rec)
        elif c["case"] is not None:
            inconclusive.append(f"worker {c['worker']} was killed by the watchdog inside case {json.dumps(c['case'])[:200]}")
        else:
            inconclusive.append(f"worker {c['worker']} ended without a summary (rc={c['returncode']}): {c['stderr'][-400:]}")

    san_leads = []
    for gname in san_info:
        from vlib import sanitize as vsan
        reports = vsan.parse_asan_logs(logdir, tag="asan-" + gname)
        for rp_ in reports:
            if rp_["verdict"]:
                keep = os.path.join(os.environ.get("VERIF_OUT", VERIF), "replay", f"{prop}-asan-{sanitize_name(rp_)}.log")
                try:
                    shutil.copy(rp_["log"], keep)
                except OSError:
                    keep = rp_["log"]
                records.append(dict(case=dict(group=gname, sanitizer_log=keep), hash="asan-" + sanitize_name(rp_), ok={}, skips={},
                                    observed={}, notes=[], violations=[dict(
                                        check="asan", key=f"{prop}/asan:{rp_['kind']}:{rp_['access']}:{rp_['func']}",
                                        what=f"AddressSanitizer {rp_['kind']} ({rp_['access']}) in {rp_['func']} ({rp_['file']}), {rp_['count']}x",
                                        detail=dict(report=rp_["text"][:1800]))]))
            else:
                san_leads.append(dict(kind=rp_["kind"], access=rp_["access"], func=rp_["func"], file=rp_["file"], count=rp_["count"]))
        san_leads.extend(dict(ubsan=l) for l in vsan.parse_ubsan_logs(logdir)[:30])
    if hasattr(mod, "post"):
        try:
            records.extend(mod.post(records, tier, seed) or [])
        except Exception as e:
            inconclusive.append(f"post-processing failed: {e!r}")

    checks, skips, observed = {}, {}, {}
    viol_by_key = {}
    distinct = set()
    n_cases = len(records)
    for g in aggs:
        n_cases += g["n"]
        distinct.update(g["decided"])
        for k, n in g["ok"].items():
            checks.setdefault(k, dict(ok=0, violation=0))["ok"] += n
        for k, n in g["skips"].items():
            skips[k] = skips.get(k, 0) + n
        for name, d in g["observed"].items():
            dd = observed.setdefault(name, {})
            for val, n in d.items():
                dd[val] = dd.get(val, 0) + n
    for r in records:
        decided = False
        for k, n in r["ok"].items():
            checks.setdefault(k, dict(ok=0, violation=0))["ok"] += n
            decided = True
        for k, n in r["skips"].items():
            skips[k] = skips.get(k, 0) + n
        for v in r["violations"]:
            checks.setdefault(v["check"], dict(ok=0, violation=0))["violation"] += 1
            viol_by_key.setdefault(v["key"], []).append((r, v))
            decided = True
        for name, d in r["observed"].items():
            dd = observed.setdefault(name, {})
            for val, n in d.items():
                dd[val] = dd.get(val, 0) + n
        if decided:
            distinct.add(r["hash"])

    # ---------------------------------------------------------------- verdict
    new_viol, known_seen = [], []
    for key, lst in sorted(viol_by_key.items()):
        r, v = lst[0]
        rp = os.path.join(OUT, "replay", f"{prop}-{sanitize(key.split('/', 1)[-1])}-{r['hash']}.json")
        if not replay:
            with open(rp, "w") as f:
                json.dump(dict(property=prop, key=key, tier=tier, seed=seed, case=r["case"], violation=v,
                               count=len(lst)), f, indent=1)
        else:
            rp = os.path.abspath(replay)
        if key in known_keys:
            known_seen.append((key, len(lst), known_keys[key]["what"]))
        else:
            new_viol.append((key, len(lst), v["what"], rp))

    floors = getattr(mod, "FLOORS", {}).get(tier, {})
    if not replay:
        for chk, mn in floors.items():
            got = checks.get(chk, {}).get("ok", 0) + checks.get(chk, {}).get("violation", 0)
            if got < mn:
                inconclusive.append(f"monitor '{chk}' decided {got} events, floor is {mn}")
        if not n_cases:
            inconclusive.append("no case was executed")
    truncated = [d["worker"] for d in dones if d.get("truncated")]

    samples = []
    for r in records[:3]:
        samples.append(dict(case=r["case"], ok=r["ok"], skips=r["skips"], violations=[v["key"] for v in r["violations"]]))
    for key, lst in list(viol_by_key.items())[:5]:
        r, v = lst[0]
        samples.append(dict(case=r["case"], violation=dict(key=v["key"], what=v["what"])))

    wall = round(time.time() - t0, 2)
    cov = dict(
        evaluations=n_cases,
        distinct_nontrivial=len(distinct),
        rule=getattr(mod, "RULE", ""),
        samples=samples or [{"note": "no case executed"}],
        monitors={k: v for k, v in sorted(checks.items())},
        monitor_events=sum(v["ok"] + v["violation"] for v in checks.values()),
        skipped=skips,
        observed={k: (v if len(v) <= 40 else dict(sorted(v.items(), key=lambda kv: -kv[1])[:40], _distinct=len(v)))
                  for k, v in sorted(observed.items())},
        known_findings_seen=[dict(key=k, occurrences=n) for k, n, _ in known_seen],
        new_violation_keys=[k for k, _, _, _ in new_viol],
        inconclusive=inconclusive,
        workers=dict(n=nworkers, truncated_by_budget=truncated, crashed=len(crashed)),
        build=dict(flavour=flavour, overlay=overlay_dir, rebuilt=binfo["built"],
                   in_tree_binaries_used_because_pyx_changed=binfo.get("prebuilt_in_tree_binaries_used", []),
                   modules_loaded_from_overlay=sorted({m for d in dones for m in d.get("overlay", {})})),
        sanitizer=dict(groups=san_info, leads=san_leads),
        exhaustive=bool(getattr(mod, "EXHAUSTIVE", {}).get(tier, False)) and not truncated,
    )
    if hasattr(mod, "evidence_extra"):
        try:
            cov.update(mod.evidence_extra(records, dones, tier) or {})
        except Exception as e:
            cov["evidence_extra_error"] = repr(e)
    ev = dict(property_id=prop, tier=tier, seed=int(seed), level=getattr(mod, "LEVEL", "exploration"), coverage=cov,
              assumptions=list(getattr(mod, "ASSUMPTIONS", [])), wall_s=wall,
              violations=sum(n for _, n, _, _ in new_viol))
    if not replay:
        evp = os.path.join(OUT, "evidence", f"{prop}.json")
        tmp = evp + ".tmp"
        with open(tmp, "w") as f:
            json.dump(ev, f, indent=1, sort_keys=False)
        os.replace(tmp, evp)
        okv, msg = validate_evidence(evp)
        if not okv:
            print(f"WARNING evidence file does not validate: {msg}")

    if not quiet:
        nm = cov["monitor_events"]
        print(f"{prop} tier={tier} seed={seed}: {n_cases} cases, {len(distinct)} distinct decided, "
              f"{nm} monitor events, {sum(skips.values())} skipped, wall {wall}s")
        for k, v in sorted(checks.items()):
            print(f"  monitor {k}: ok={v['ok']} violation={v['violation']}")
    for key, n, what in known_seen:
        print(f"KNOWN-FINDING: property={prop} {key}: {what} (seen {n}x this run)")
    for key, n, what, rp in new_viol:
        print(f"VIOLATION property={prop} replay={rp}")
        print(f"  key={key} occurrences={n}: {what}")
    for m in inconclusive:
        print(f"INCONCLUSIVE property={prop} reason={m}")
    if not keep_logs:
        shutil.rmtree(logdir, ignore_errors=True)
    else:
        print("logs kept in", logdir)
    if new_viol:
        return 1
    if inconclusive:
        return 2
    return 0


def setup():
    from vlib import build as vbuild
    ok = ensure_deps()
    info = vbuild.build("plain", verbose=True)
    if info["stale"]:
        print("stale cython:", info["stale"])
    try:
        from vlib import natives
        natives.build_all(verbose=True)
    except ImportError:
        pass
    return 0 if ok else 1


def main(argv=None):
    ap = argparse.ArgumentParser(prog="check")
    ap.add_argument("prop", nargs="?")
    ap.add_argument("--setup", action="store_true")
    ap.add_argument("--tier", default=os.environ.get("VERIF_TIER", "quick"), choices=["quick", "thorough"])
    ap.add_argument("--seed", type=int, default=int(os.environ.get("VERIF_SEED", "0") or 0))
    ap.add_argument("--replay")
    ap.add_argument("--workers", type=int)
    ap.add_argument("--keep-logs", action="store_true")
    a = ap.parse_args(argv)
    os.chdir(VERIF)
    if a.setup:
        return setup()
    if not a.prop:
        ap.error("property id required")
    if a.prop == "all":
        rc = 0
        for p in ALL_PROPS:
            if os.path.exists(os.path.join(VERIF, "vlib", "props", p.lower() + ".py")):
                rc = max(rc, run_property(p, a.tier, a.seed, a.workers))
        return rc
    return run_property(a.prop.upper(), a.tier, a.seed, a.workers, a.replay, a.keep_logs)


if __name__ == "__main__":
    sys.exit(main())
