"""Sanitizer plumbing: environment for running the stock interpreter with ASan/UBSan-instrumented extensions,
and parsing of the report logs into (verdict | lead) items.

Verdict policy (fixed in DESIGN §2.4-M6): heap/stack/global *write* overflows, use-after-free, double free and
bad free inside mdtraj code are violations of the property whose API call was running (its result and every later
result in the process are no longer a function of the input).  Out-of-bounds *reads* and UBSan arithmetic reports
are leads: listed in the evidence, never a verdict by themselves."""
from __future__ import annotations

import glob
import os
import re
import subprocess


def _lib(name):
    p = subprocess.run(["gcc", "-print-file-name=" + name], stdout=subprocess.PIPE, text=True).stdout.strip()
    return p if os.path.isabs(p) else None


def asan_env(logdir, tag="asan"):
    asan, ubsan = _lib("libasan.so"), _lib("libubsan.so")
    if not asan:
        return None
    pre = asan + (":" + ubsan if ubsan else "")
    return {
        "LD_PRELOAD": pre,
        "ASAN_OPTIONS": f"detect_leaks=0:halt_on_error=0:abort_on_error=0:log_path={os.path.join(logdir, tag)}:"
                        "allocator_may_return_null=1:detect_odr_violation=0",
        "UBSAN_OPTIONS": f"print_stacktrace=1:halt_on_error=0:log_path={os.path.join(logdir, 'ubsan')}",
        "PYTHONMALLOC": "malloc",
    }


_HDR = re.compile(r"ERROR: AddressSanitizer: ([\w-]+)")
_ACC = re.compile(r"^(READ|WRITE) of size (\d+)", re.M)
_FRAME = re.compile(r"#\d+ 0x[0-9a-f]+ in (\S+) (\S+)")


def parse_asan_logs(logdir, tag="asan", repo_marker="/mdtraj/"):
    """Returns list of dict(kind, access, func, file, verdict, text) de-duplicated by (kind, access, func)."""
    out = {}
    for fp in sorted(glob.glob(os.path.join(logdir, tag + ".*"))):
        try:
            txt = open(fp, errors="replace").read()
        except OSError:
            continue
        tainted = False  # a write overflow already happened in this process: later allocator complaints are consequences
        for block in txt.split("=================================================================")[1:]:
            m = _HDR.search(block)
            if not m:
                continue
            kind = m.group(1)
            if tainted and (kind in ("attempting", "bad-free", "double-free") or "attempting free" in block[:300]):
                continue
            am = _ACC.search(block)
            access = am.group(1) if am else ""
            func, ffile = None, None
            # only the first stack (the faulting access), i.e. up to the first blank line after "#0"
            first = block.split("\n\n")[0]
            for fm in _FRAME.finditer(first):
                if repo_marker in fm.group(2) and not fm.group(1).startswith("__pyx_") and "__Pyx" not in fm.group(1):
                    func, ffile = fm.group(1), os.path.basename(fm.group(2).split(":")[0])
                    break
            if func is None:
                for fm in _FRAME.finditer(first):
                    if repo_marker in fm.group(2):
                        func, ffile = fm.group(1), os.path.basename(fm.group(2).split(":")[0])
                        break
            if func is None:
                continue  # not attributable to mdtraj
            func = re.sub(r"__pyx_p[fw]_\d+mdtraj_\d+\w*?_\d+", "pyx:", func)[:80]
            verdict = (access == "WRITE" or kind in ("heap-use-after-free", "double-free", "attempting", "bad-free",
                                                     "stack-use-after-return", "stack-use-after-scope"))
            if verdict:
                tainted = True
            key = (kind, access, func)
            if key not in out:
                out[key] = dict(kind=kind, access=access, func=func, file=ffile, verdict=bool(verdict), count=0,
                                text=block[:2500], log=fp)
            out[key]["count"] += 1
    return list(out.values())


def log_has_verdict(logdir, tag):
    return any(r["verdict"] for r in parse_asan_logs(logdir, tag))


def parse_ubsan_logs(logdir, repo_marker="/mdtraj/"):
    leads = {}
    for fp in sorted(glob.glob(os.path.join(logdir, "ubsan.*"))):
        try:
            for line in open(fp, errors="replace"):
                if "runtime error:" in line and repo_marker in line:
                    loc, _, msg = line.partition(" runtime error: ")
                    k = (os.path.basename(loc.split(":")[0]), re.sub(r"-?\d[\d.e+-]*", "N", msg.strip())[:100])
                    leads[k] = leads.get(k, 0) + 1
        except OSError:
            pass
    return [dict(file=k[0], message=k[1], count=v) for k, v in sorted(leads.items())]
