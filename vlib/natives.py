"""Stand-alone native drivers: mdtraj's OpenMP-owning kernels + a driver + the pthread GOMP shim, all compiled with
-fsanitize=thread (or plain for valgrind).  Compile WITH -fopenmp (so the pragmas are honoured and calls to
GOMP_parallel/omp_get_* are emitted) but link WITHOUT it, so libgomp is never pulled in and the shim resolves them."""
from __future__ import annotations

import hashlib
import os
import re
import subprocess

from vlib.build import BUILD_ROOT, VERIF, _sha

M = "mdtraj"
DRIVERS = {
    "sasa": dict(driver="sasa_driver.cpp", src=[f"{M}/geometry/src/sasa.cpp"], inc=[f"{M}/geometry/include"]),
    "neighborlist": dict(driver="neighborlist_driver.cpp", src=[f"{M}/geometry/src/neighborlist.cpp"], inc=[f"{M}/geometry/include"]),
    "rmsd": dict(driver="rmsd_driver.cpp", src=[f"{M}/rmsd/src/theobald_rmsd.cpp", f"{M}/rmsd/src/rotation.cpp", f"{M}/rmsd/src/center.cpp"],
                 inc=[f"{M}/rmsd/include"]),
}
MODES = {
    "tsan": ["-O1", "-g", "-fsanitize=thread", "-fno-omit-frame-pointer"],
    "plain": ["-O2", "-g"],
}


def build_driver(name, mode="tsan", repo=None):
    repo = repo or os.environ.get("VERIF_REPO", "/repo")
    d = DRIVERS[name]
    drv = os.path.join(VERIF, "native", "drivers", d["driver"])
    shim = os.path.join(VERIF, "native", "gompshim.c")
    files = [drv, shim] + [os.path.join(repo, s) for s in d["src"]]
    for inc in d["inc"]:
        p = os.path.join(repo, inc)
        files += sorted(os.path.join(p, f) for f in os.listdir(p) if f.endswith((".h", ".hpp")))
    for s in d["src"]:
        sd = os.path.dirname(os.path.join(repo, s))
        files += sorted(os.path.join(sd, f) for f in os.listdir(sd) if f.endswith((".h", ".hpp")))
    h = hashlib.sha256(("|".join(MODES[mode]) + name).encode())
    for f in sorted(set(files)):
        h.update(_sha(f).encode())
    outdir = os.path.join(BUILD_ROOT, "drivers", mode)
    os.makedirs(outdir, exist_ok=True)
    exe = os.path.join(outdir, f"{name}-{h.hexdigest()[:16]}")
    if os.path.exists(exe):
        return exe
    flags = MODES[mode] + ["-fopenmp", "-msse2", "-mssse3", "-w", "--std=c++11"]
    incs = ["-I" + os.path.join(repo, i) for i in d["inc"]]
    objs = []
    tmpd = exe + ".build.%d" % os.getpid()
    os.makedirs(tmpd, exist_ok=True)
    try:
        for i, s in enumerate([drv] + [os.path.join(repo, s) for s in d["src"]]):
            o = os.path.join(tmpd, f"{i}.o")
            subprocess.run(["g++", "-c", s, "-o", o] + flags + incs, check=True, stdout=subprocess.PIPE, stderr=subprocess.STDOUT)
            objs.append(o)
        so = os.path.join(tmpd, "shim.o")
        subprocess.run(["gcc", "-c", shim, "-o", so] + MODES[mode] + ["-pthread"], check=True, stdout=subprocess.PIPE, stderr=subprocess.STDOUT)
        tmpexe = os.path.join(tmpd, "exe")  # private to this process: several workers may build the same driver at once
        link = ["g++", "-o", tmpexe] + objs + [so, "-pthread", "-lm"] + (["-fsanitize=thread"] if mode == "tsan" else [])
        subprocess.run(link, check=True, stdout=subprocess.PIPE, stderr=subprocess.STDOUT)
        os.replace(tmpexe, exe)
    finally:
        subprocess.run(["rm", "-rf", tmpd])
    return exe


def kernel_files(name, repo=None):
    """basenames of the mdtraj sources/headers that make up a driver's kernel (used to attribute sanitizer reports)"""
    repo = repo or os.environ.get("VERIF_REPO", "/repo")
    d = DRIVERS[name]
    out = {os.path.basename(s) for s in d["src"]}
    for inc in d["inc"] + [os.path.dirname(s) for s in d["src"]]:
        p = os.path.join(repo, inc)
        out |= {f for f in os.listdir(p) if f.endswith((".h", ".hpp", ".cpp", ".c"))}
    return out


def build_all(verbose=False):
    out = {}
    for n in DRIVERS:
        try:
            out[n] = build_driver(n, "tsan")
        except subprocess.CalledProcessError as e:
            out[n] = "FAILED: " + (e.stdout.decode(errors="replace")[-500:] if e.stdout else str(e))
        if verbose:
            print("driver", n, out[n])
    return out


_RACE = re.compile(r"WARNING: ThreadSanitizer: data race.*?(?=\n==================|\Z)", re.S)
_FR = re.compile(r"#0 (\S+) (\S+?)(?::\d+)*(?: \(|$)", re.M)


def run_tsan(exe, args, threads, jitter=0, seed=1, timeout=300):
    env = dict(os.environ)
    env.update(GOMPSHIM_THREADS=str(threads), TSAN_OPTIONS="halt_on_error=0 exitcode=0 report_signal_unsafe=0 history_size=4",
               OMP_NUM_THREADS=str(threads))
    env.pop("LD_PRELOAD", None)
    p = subprocess.run(["setarch", "x86_64", "-R", exe] + [str(a) for a in args], env=env, stdout=subprocess.PIPE, stderr=subprocess.PIPE, text=True,
                       timeout=timeout)
    races = []
    for blk in _RACE.findall(p.stderr):
        fr = _FR.findall(blk)
        pair = sorted({(f, os.path.basename(fl)) for f, fl in fr[:2]})
        races.append(dict(pair=pair, text=blk[:1500]))
    return dict(rc=p.returncode, stdout=p.stdout, stderr_tail=p.stderr[-800:], races=races)


_VGBLOCK = re.compile(r"(==\d+== (?:Conditional jump|Use of uninitialised|Invalid write|Invalid read|Invalid free|Mismatched free)[^\n]*\n(?:==\d+==  [^\n]*\n)+)")
_VGFRAME = re.compile(r"(?:at|by) 0x[0-9A-F]+: (.+?) \(([^:)]+\.(?:cpp|c|h|hpp)):\d+\)")


def run_valgrind(exe, args, threads, timeout=900):
    """memcheck (with origin tracking) on a plain driver. A report is attributed to mdtraj when a kernel source file is on
    the faulting stack OR on the stack that created the uninitialised value (the use may surface later in the driver)."""
    env = dict(os.environ)
    env.update(GOMPSHIM_THREADS=str(threads), OMP_NUM_THREADS=str(threads))
    env.pop("LD_PRELOAD", None)
    p = subprocess.run(["valgrind", "--tool=memcheck", "--error-exitcode=0", "--num-callers=12", "--track-origins=yes", "-q", exe]
                       + [str(a) for a in args], env=env, stdout=subprocess.PIPE, stderr=subprocess.PIPE, text=True, timeout=timeout)
    reps = []
    for blk in _VGBLOCK.findall(p.stderr):
        head = blk.splitlines()[0]
        kind = re.sub(r"==\d+== ", "", head)
        kind = re.sub(r" of size \d+", "", kind).strip()
        func, ffile = None, None
        for fn, fl in _VGFRAME.findall(blk):
            if "driver" not in fl and "gompshim" not in fl:
                func, ffile = fn.split("(")[0], fl
                break
        reps.append(dict(kind=kind, func=func, file=ffile, text=blk[:1200]))
    return dict(rc=p.returncode, stdout=p.stdout, reports=reps, stderr_tail=p.stderr[-500:])
