"""C07 — angles and dihedrals equal their geometric definitions, periodic or not.

Monitors (all observe the REAL md.compute_angles / md.compute_dihedrals / md.compute_phi..chi5):

* differential oracle (vlib.oracle.c07_ref, float64): bond vectors are exact float64 differences of the float32
  coordinates; when a cell is present and periodic is true each bond is replaced by its brute-force minimum image in
  the lattice the trajectory reports (125 images of a reduced basis).  angle = atan2(|u x v|, u.v) in [0,pi],
  dihedral = atan2(|b2| b1.(b2xb3), (b1xb2).(b2xb3)) (IUPAC sign; pinned at bring-up against a hand-placed quartet and
  against a NeRF builder).
* metamorphic relations: reversed atom order; mirror image (non-periodic: dihedral negated, angle kept); per-atom
  lattice shifts (periodic results unchanged); opt=True vs opt=False; periodic=np.True_ vs periodic=True.
* named torsions: an independent matcher walks chains -> residues -> atoms and builds the documented rows
  (phi C(i-1)-N-CA-C, psi N-CA-C-N(i+1), omega CA-C-N(i+1)-CA(i+1), chi1..5 from the documented atom tables) on the
  test-data proteins and on edited copies (atom deletions, residue deletions = chain breaks, chain subsets, stacked
  proteins).  Returned rows must contain every documented row and nothing outside (documented + undecided) rows; values
  must equal compute_dihedrals on the returned rows (bit-for-bit) and the float64 oracle (toleranced).

Domain / three-valuedness
* periodic: a bond vector is only defined when its minimum image is unique.  A tuple is judged in a frame when, for
  every one of its bonds, (cell orthorhombic in that frame OR d_min < w_min/2 - delta) and the runner-up image is more
  than 4*delta longer than the shortest; otherwise skip.
* dihedral values are compared only if all three bonds are >= 1e-4 nm and both bond angles are in [1e-3, pi-1e-3]
  (the torsion's condition number is 1/sin of those); angles only if both bonds are >= 1e-4 nm.  Range and
  finiteness are still required there (angles: bonds >= 1e-4 nm; dihedrals: always).
* a bond shorter than 1e-4 nm or than 4*delta (the float32 bond-vector error bound, which can swallow it: then the
  real computation legitimately sees a zero vector) makes the input degenerate: no finiteness demand for angles.
* comparisons whose derived tolerance exceeds 0.05 (cos) / 0.1 rad are vacuous and are skipped, not counted ok.
* named torsions: rows spanning a sequence-number gap/repeat between list neighbours, rows in residues that are not
  one of the 20 standard names, atom names occurring twice and residues fitting several chi patterns are undecided
  (documentation silent): they may or may not be returned.

Tolerances (eps32 = 2^-24)
* bond-vector error delta: non-periodic 8*eps32*(longest bond of the tuple) (one float32 subtraction per component);
  periodic 16*eps32*(M + K*Lmax + Lmax) + 1e-7 with M the largest |coordinate| of the tuple's atoms, K the lattice-shift
  spread of the case and Lmax the longest cell edge (float32 subtraction, multiply by the image count, reduced box
  vectors in float32) -- the same bound C05 uses for distances.
* angle: |cos(out) - cos(ref)| <= 2*delta*(1/l_u + 1/l_v) + 16*eps32  (unit vectors move by delta/l each; float32 dot
  /product/acos/rounding of the result are a few eps32 in cos).  The comparison in cos-space stays well conditioned at
  0 and pi, so near-collinear triplets are judged too.
* dihedral: |wrap(out - ref)| <= 4*delta*G + 32*eps32*(1/s1 + 1/s2) + 8*eps32 with
  G = 1/(l1 s1) + 1/(l3 s2) + (1/s1 + 1/s2)/l2, s = sin(bond angle): moving b1 (b3) by delta turns its component normal
  to the axis (length l sin) by delta/(l sin); tilting the axis by delta/l2 turns the projections by cot(theta) each;
  float32 cross products lose eps32/sin relative accuracy.
* relations between two real results use the sum of the two tolerances.
"""
from __future__ import annotations

import os

import numpy as np

from vlib.gen import common
from vlib.oracle import c07_ref as R

PROPERTY = "C07"
LEVEL = "exploration"
NATIVE = ["mdtraj.geometry._geometry"]
RULE = ("cases = (kind in {periodic angle, periodic dihedral, plain angle, plain dihedral, named torsions}, cell class, "
        "geometry class in {random, long, collinear, planar, grid, tiny}, lattice-shift spread, frames, atoms) from a seeded "
        "stream; chains are built from internal coordinates (NeRF) and scattered over images by per-atom lattice shifts; "
        "named cases = (protein file, edit, opt, periodic); a case is non-trivial when at least one monitor decided "
        "(value compared with the float64 oracle / relation compared / index rows compared); distinct = distinct descriptors; "
        "a second stream (w=1) varies what the first holds fixed: index containers/layouts, row-list shapes (one row, SIMD "
        "widths, thousands over 500-2000 atoms, descending, shuffled chains, shared atoms), truthy periodic flags, trajectories "
        "derived from longer ones, five per-frame cell patterns up to 300 frames, cell scales 2^-6..2^8, edit histories on one "
        "Trajectory object, named torsions with atoms reordered inside residues / scattered over periodic images with per-frame "
        "cells up to 257 frames / on derived trajectories, indices_* against compute_*")
WORKERS = {"quick": 8, "thorough": 15}  # 15, not 16: the 16 named-torsion files of the thorough tier resonate with 16 workers (one worker got every 3nch case)
BUDGET = {"quick": 60, "thorough": 900}
FLOORS = {"quick": {"angle.value": 12000, "dihedral.value": 10000, "angle.range": 46000, "dihedral.range": 80000,
                    "ref.angle.value": 2200, "ref.dihedral.value": 1800, "plain.value": 56000, "opt-vs-ref": 11000,
                    "reversal": 40000, "mirror": 28000, "lattice-shift": 10000, "periodic-truthy": 6000,
                    "named.indices": 32000, "named.values": 34000, "named.consistency": 34000}}
ASSUMPTIONS = [
    "the lattice is the one traj.unitcell_vectors reports (its relation to lengths/angles is C17's business)",
    "periodic bond vectors are judged only where the minimum image is unique by more than 4*delta and, for skewed cells, "
    "shorter than half the smallest cell width (C05's domain)",
    "named torsions: adjacency = neighbours in the chain's residue list; rows across a resSeq gap or in non-standard "
    "residues are undecided (may be returned or not)",
]
KINDS = ["ang", "dih", "ang", "dih", "plain_ang", "plain_dih", "named"]
NCASES = {"quick": 3200, "thorough": 24000}
GEOS = ["random", "random", "random", "long", "collinear", "planar", "grid", "tiny", "loose", "loose"]
# loose: atoms anywhere in the cell (no chain), a handful of rows per call: non-bonded / coarse-grained tuples whose un-imaged
# "bond" vectors are long compared with the cell although every component is small
DATA = "/repo/tests/data/"
FILES_QUICK = ["1bpi.pdb", "2EQQ.pdb", "1vii.pdb", "native.pdb", "frame0.h5", "4OH9.pdb", "aaqaa-wat.pdb", "ala_ala_ala.pdb",
               "1am7_protein.pdb", "4ZUO.pdb", "bpti.pdb", "alanine-dipeptide-explicit.pdb"]
FILES_THOROUGH = FILES_QUICK + ["1ncw.pdb.gz", "1vii_sustiva_water.pdb", "2koc.pdb", "3nch.pdb.gz"]
EDITS = ["none", "del_atoms", "del_backbone", "del_residues", "del_termini", "chains", "stack", "trim_sidechain", "noise", "rename_in_place"]
# rename_in_place: all named torsions are computed once, then atoms of the SAME Topology object are renamed through the public
# attributes, then everything is judged on the renamed topology: nothing remembered from the first call may survive
PI32 = float(np.float32(np.pi))


# thorough tier: every 30-th case also runs in a worker whose extensions are ASan/UBSan-instrumented (vlib/sanitize.py)
ASAN_EVERY = {"quick": 0, "thorough": 30}
GROUPS = {"thorough": [dict(name="asan", flavour="asan", workers=2)]}


def gen_cases(tier, seed):
    from vlib.gen import common as _common
    return _common.with_asan_slice(_gen_cases(tier, seed), ASAN_EVERY[tier])


def _gen_cases(tier, seed):
    n = NCASES[tier]
    files = FILES_QUICK if tier == "quick" else FILES_THOROUGH
    cells = common.CELL_KINDS
    wide = tier != "quick"
    j = 0
    for i in range(n):
        rng = common.rng_for("C07", seed, i)
        kind = KINDS[i % len(KINDS)]
        c = dict(i=i, seed=common.case_seed(seed, "C07", i), kind=kind)
        if kind == "named":
            c.update(file=files[j % len(files)], edit=EDITS[(j // len(files) + j) % len(EDITS)],
                     opt=bool(rng.random() < 0.55), periodic=bool(rng.random() < 0.6))
            j += 1
        else:
            c.update(cell=cells[(i // len(KINDS)) % len(cells)], geo=GEOS[int(rng.integers(len(GEOS)))],
                     spread=int(rng.choice([0, 1, 1, 3, 10, 50] + ([200] if wide else []))), perframe=bool(rng.random() < 0.3),
                     mixed=bool(rng.random() < 0.15),
                     # mostly few frames; every 12th value case is a long trajectory (kernels may block / chunk the frame loop)
                     n_frames=(int(rng.choice([129, 200, 257, 300])) if (i // len(KINDS)) % (30 if not wide else 12) == 5 else int(rng.integers(1, 9 if wide else 5))),
                     n_atoms=int(rng.integers(4, 65 if wide else 33)), idx=int(rng.integers(0, 4)), wide=wide)
        yield c


# ---------------------------------------------------------------------------------------------------- generators
def _chain(rng, na, geo, scale, origin, ortho):
    """positions (na,3) float64 of a chain built from internal coordinates"""
    if geo == "long" and not ortho:
        geo = "random"
    if geo == "grid":
        q = 1.0 / 16
        p = np.round(origin / q) * q
        pts = [p]
        for _ in range(na - 1):
            while True:
                s = rng.integers(-2, 3, 3)
                if s.any():
                    break
            p = p + s * q
            pts.append(p)
        return np.array(pts)

    def rr():
        if geo == "tiny":
            return float(np.exp(rng.uniform(np.log(5e-5), np.log(2e-3))))
        if geo == "long":
            return scale * rng.uniform(0.3, 1.2)
        return scale * float(np.exp(rng.uniform(np.log(0.02), np.log(0.46))))

    def th():
        if geo == "collinear" and rng.random() < 0.7:
            e = float(rng.choice([0.0, 1e-6, 1e-5, 1e-4, 5e-4, 2e-3, 1e-2, 0.05]))
            return e if rng.random() < 0.5 else np.pi - e
        return rng.uniform(0.15, np.pi - 0.15)

    def ph():
        if geo == "planar" and rng.random() < 0.8:
            e = float(rng.choice([0.0, 1e-6, 1e-5, 1e-4, 1e-3, 1e-2]))
            return float(rng.choice([0.0, np.pi, -np.pi, np.pi / 2, -np.pi / 2])) + e * float(rng.choice([-1, 1]))
        return rng.uniform(-np.pi, np.pi)

    d0 = rng.normal(size=3)
    d0 /= np.linalg.norm(d0)
    pts = [origin, origin + rr() * d0]
    fake = origin + rng.normal(size=3) + np.cross(d0, rng.normal(size=3))
    pts.append(R.nerf(fake, pts[0], pts[1], rr(), th(), rng.uniform(-np.pi, np.pi)))
    while len(pts) < na:
        pts.append(R.nerf(pts[-3], pts[-2], pts[-1], rr(), th(), ph()))
    return np.array(pts[:na])


def _rows(rng, na, m, wide=False):
    """index rows (n,m) of distinct atoms: consecutive windows, shuffled windows, random tuples"""
    rows = [list(range(k, k + m)) for k in range(na - m + 1)]
    extra = []
    for _ in range(int(rng.integers(0, 6))):
        k = int(rng.integers(0, na - m + 1))
        extra.append(list(rng.permutation(np.arange(k, k + m))))
    for _ in range(int(rng.integers(0, 13 if wide else 4))):
        extra.append(list(rng.choice(na, m, replace=False)))
    rows = rows + extra
    cap = 80 if wide else 40
    if len(rows) > cap:
        keep = rng.choice(len(rows), cap, replace=False)
        rows = [rows[k] for k in sorted(keep)]
    a = np.array(rows, dtype=np.int64)
    if rng.random() < 0.3:
        a = np.vstack([a, a[:2]])  # repeated rows
    return a


def _as_index_arg(a, style):
    if isinstance(style, str):  # widening pass: containers / dtypes / layouts of common.index_arg
        return common.index_arg(a, style)
    if style == 0:
        return a.astype(np.int64)
    if style == 1:
        return a.astype(np.int32)
    if style == 2:
        return [[int(x) for x in r] for r in a]
    big = np.zeros((len(a), 2 * a.shape[1]), dtype=np.int64)
    big[:, ::2] = a
    return big[:, ::2]  # non-contiguous view


def _build_periodic(case):
    import mdtraj as md
    rng = common.rng_for("C07case", case["seed"])
    nf, na = case["n_frames"], case["n_atoms"]
    kindc = case["cell"]
    cells = [common.random_cell(rng, kindc) for _ in range(nf if case["perframe"] else 1)]
    if not case["perframe"]:
        cells = cells * nf
    if case["mixed"] and nf > 1:
        cells[int(rng.integers(nf))] = common.random_cell(rng, "ortho")
    L = np.array([c[0] for c in cells], dtype=np.float32)
    A = np.array([c[1] for c in cells], dtype=np.float32)
    top = common.simple_topology(na)
    t = md.Trajectory(np.zeros((nf, na, 3), np.float32), top, unitcell_lengths=L, unitcell_angles=A)
    B = t.unitcell_vectors.astype(np.float64)
    ortho_f = np.all(A == 90.0, axis=1)
    base = np.zeros((nf, na, 3))
    shifted = np.zeros((nf, na, 3))
    K = case["spread"]
    for f in range(nf):
        w = common.cell_widths(B[f])
        origin = rng.uniform(0, 1, 3) @ B[f]
        if case["geo"] == "loose":
            base[f] = rng.uniform(0, 1, (na, 3)) @ B[f]
        else:
            base[f] = _chain(rng, na, case["geo"], float(w.min()), origin, bool(ortho_f[f]))
        shifted[f] = base[f] + rng.integers(-K, K + 1, (na, 3)).astype(np.float64) @ B[f] if K else base[f]
    return t, B, ortho_f, base.astype(np.float32), shifted.astype(np.float32), rng


# ---------------------------------------------------------------------------------------------------- oracle glue
def _bonds(x64f, rows, which):
    """raw float64 bond vectors of one frame; which: list of (from_col, to_col)"""
    return [x64f[rows[:, b]] - x64f[rows[:, a]] for a, b in which]


ANG_BONDS = [(1, 0), (1, 2)]
DIH_BONDS = [(0, 1), (1, 2), (2, 3)]


class Ref:
    """float64 reference of one (trajectory, rows) pair: values, validity masks, tolerances -- per frame x row"""

    def __init__(self, x32, rows, B, ortho_f, K, dihedral):
        x64 = x32.astype(np.float64)
        nf = len(x64)
        n = len(rows)
        self.dihedral = dihedral
        self.val = np.zeros((nf, n))
        self.tol = np.zeros((nf, n))
        self.dom = np.ones((nf, n), bool)       # minimum image unique / inside C05's domain
        self.cond = np.ones((nf, n), bool)      # well conditioned for the value comparison
        self.nondeg = np.ones((nf, n), bool)    # bonds >= 1e-4 nm
        which = DIH_BONDS if dihedral else ANG_BONDS
        for f in range(nf):
            raw = _bonds(x64[f], rows, which)
            M = np.abs(x64[f][rows]).max(axis=(1, 2))
            if B is not None:
                Lmax = float(np.linalg.norm(B[f], axis=1).max())
                delta = 16 * R.EPS32 * (M + K * Lmax + Lmax) + 1e-7
                w = common.cell_widths(B[f]).min()
                vec = []
                for r in raw:
                    v, dmin, gap = R.unique_min_image(r, B[f])
                    ok = gap > 4 * delta
                    if not ortho_f[f]:
                        ok &= dmin < w / 2 - delta
                    self.dom[f] &= ok
                    vec.append(v)
            else:
                vec = raw
                delta = 8 * R.EPS32 * np.max([np.linalg.norm(r, axis=1) for r in raw], axis=0)
            if dihedral:
                phi, th1, th2, l1, l2, l3 = R.dihedral_ref(*vec)
                self.val[f] = phi
                self.nondeg[f] = (l1 >= 1e-4) & (l2 >= 1e-4) & (l3 >= 1e-4) & (np.minimum(np.minimum(l1, l2), l3) > 4 * delta)
                s1, s2 = np.maximum(np.sin(th1), 1e-300), np.maximum(np.sin(th2), 1e-300)
                lm = [np.maximum(x, 1e-300) for x in (l1, l2, l3)]
                G = 1 / (lm[0] * s1) + 1 / (lm[2] * s2) + (1 / s1 + 1 / s2) / lm[1]
                # last term: both cross products lose relative accuracy eps/sin(theta) in float32, and the torsion is read off
                # their mutual orientation: with BOTH bond angles small the errors multiply (second order in 1/sin)
                self.tol[f] = 4 * delta * G + 32 * R.EPS32 * (1 / s1 + 1 / s2) + 8 * R.EPS32 + 16 * R.EPS32 / (s1 * s2)
                self.cond[f] = (self.nondeg[f] & (th1 >= 1e-3) & (th1 <= np.pi - 1e-3) & (th2 >= 1e-3) & (th2 <= np.pi - 1e-3)
                                & (self.tol[f] <= 0.1))
            else:
                th, c, lu, lv = R.angle_ref(*vec)
                self.val[f] = th
                # a bond the float32 bond-vector error could swallow is degenerate for the real computation
                self.nondeg[f] = (lu >= 1e-4) & (lv >= 1e-4) & (np.minimum(lu, lv) > 4 * delta)
                self.tol[f] = 2 * delta * (1 / np.maximum(lu, 1e-300) + 1 / np.maximum(lv, 1e-300)) + 16 * R.EPS32
                self.cond[f] = self.nondeg[f] & (self.tol[f] <= 0.05)

    def err(self, out):
        """comparison quantity: |cos difference| for angles, circular difference for dihedrals"""
        o = np.asarray(out, np.float64)
        if self.dihedral:
            return np.abs(R.wrap(o - self.val))
        return np.abs(np.cos(o) - np.cos(self.val))

    def rel(self, a, b, sign=1.0):
        a = np.asarray(a, np.float64)
        b = np.asarray(b, np.float64)
        if self.dihedral:
            return np.abs(R.wrap(a - sign * b))
        return np.abs(np.cos(a) - np.cos(b))


def _judge(ctx, name, fn, label, out, ref, extra_skip=None):
    """value + range monitors of one real result against its reference. Returns the decided mask."""
    out = np.asarray(out)
    kind = "dihedral" if ref.dihedral else "angle"
    if out.shape != ref.val.shape or out.dtype != np.float32:
        ctx.violation("shape", f"{fn}:{label}:shape", f"{fn}({label}) returned shape {out.shape} dtype {out.dtype}, expected "
                      f"{ref.val.shape} float32")
        return None
    o = out.astype(np.float64)
    # range / finiteness
    need = np.ones_like(ref.nondeg) if ref.dihedral else ref.nondeg
    lo = -PI32 if ref.dihedral else 0.0
    bad = need & ~(np.isfinite(o) & (o >= lo) & (o <= PI32))
    if bad.any():
        f, j = np.argwhere(bad)[0]
        ctx.violation(f"{kind}.range", f"{fn}:{label}:out-of-range-or-not-finite",
                      f"{fn}({label}) returned {out[f, j]!r} (allowed [{lo:.7g}, {PI32:.7g}])", frame=int(f), row=int(j), ref=ref.val[f, j])
    ctx.ok(f"{kind}.range", int((need & ~bad).sum()))
    if (~need).any():
        ctx.skip(f"{kind}.range", "a bond shorter than 1e-4 nm or than 4*delta (degenerate input)", int((~need).sum()))
    # value
    dec = ref.dom & ref.cond
    e = ref.err(o)
    bad = dec & ~(e <= ref.tol)
    if bad.any():
        f, j = np.argwhere(bad)[0]
        ctx.violation(name, f"{fn}:{label}:value", f"{fn}({label}) = {out[f, j]:.7g}, definition gives {ref.val[f, j]:.7g} "
                      f"(error {e[f, j]:.3g} > tol {ref.tol[f, j]:.3g})", frame=int(f), row=int(j))
    ctx.ok(name, int((dec & ~bad).sum()))
    nd = ~ref.dom
    if nd.any():
        ctx.skip(name, "minimum image of a bond not unique by 4*delta, or skewed cell and bond >= w_min/2 (outside the domain)", int(nd.sum()))
    nc = ref.dom & ~ref.cond
    if nc.any():
        ctx.skip(name, "ill-conditioned: bond < 1e-4 nm, bond angle within 1e-3 of 0/pi, or derived tolerance vacuous", int(nc.sum()))
    return dec


def _relation(ctx, name, key, what, a, b, refa, refb, sign=1.0):
    # non-finite results are the range monitor's business (one defect, one key)
    dec = refa.dom & refa.cond & refb.dom & refb.cond & np.isfinite(a) & np.isfinite(b)
    d = refa.rel(a, b, sign)
    tol = refa.tol + refb.tol
    bad = dec & ~(d <= tol)
    if bad.any():
        f, j = np.argwhere(bad)[0]
        ctx.violation(name, key, f"{what}: {np.asarray(a)[f, j]:.7g} vs {np.asarray(b)[f, j]:.7g} (difference {d[f, j]:.3g} > {tol[f, j]:.3g})",
                      frame=int(f), row=int(j))
    ctx.ok(name, int((dec & ~bad).sum()))
    if (~dec).any():
        ctx.skip(name, "outside the domain / ill-conditioned on one side", int((~dec).sum()))


# ---------------------------------------------------------------------------------------------------- cases
def run_case(case, ctx):
    kind = case["kind"]
    ctx.observe("kind", kind)
    if kind == "named":
        return _run_named(case, ctx)
    if kind.startswith("plain"):
        return _run_plain(case, ctx)
    return _run_periodic(case, ctx)


def _run_periodic(case, ctx):
    import mdtraj as md
    dihedral = case["kind"] == "dih"
    fn = "compute_dihedrals" if dihedral else "compute_angles"
    call = md.compute_dihedrals if dihedral else md.compute_angles
    m = 4 if dihedral else 3
    kn = "dihedral" if dihedral else "angle"
    t, B, ortho_f, base32, shift32, rng = (_build_periodic_wide if case.get("w") else _build_periodic)(case)
    nf, na = t.n_frames, t.n_atoms
    K = case["spread"]
    ptrue = _flag(case.get("ptrue", True))
    if case.get("w"):
        # the trajectory object handed to mdtraj is obtained the way case["derived"] says; it is judged by its own xyz / cell
        t.xyz = shift32
        t = common.derive_traj(t, case["derived"], rng)
        shift32 = np.asarray(t.xyz, np.float32)
        B = t.unitcell_vectors.astype(np.float64)
        ortho_f = np.all(t.unitcell_angles == 90.0, axis=1)
        for k_, v_ in (("rows", case["rows"]), ("trajectory_origin", case["derived"]), ("per_frame_cells", case["pf"]),
                       ("cell_scale", f"2^{case['scale_log2']}"), ("periodic_flag", repr(case["ptrue"])),
                       ("n_frames", "1" if nf == 1 else ("2-8" if nf <= 8 else ">=100")), ("n_atoms", "thousands" if na >= 500 else "small")):
            ctx.observe("wide." + k_, v_)
    kernel = "ortho" if bool(ortho_f.all()) else "triclinic"
    ctx.observe("cell", case["cell"])
    ctx.observe("kernel", f"{fn}:{kernel}")
    ctx.observe("geometry", case["geo"])
    ctx.observe("spread_cells", K)
    ctx.observe("index_arg_style", case["idx"])
    rows = _rows_wide(rng, na, m, case["rows"]) if case.get("rows") else _rows(rng, na, m, case.get("wide", False))
    if case.get("geo") == "loose":
        rows = rows[rng.choice(len(rows), size=min(len(rows), int(rng.integers(1, 5))), replace=False)]
    if case.get("w") and nf >= 100 and len(rows) > 16:
        rows = rows[np.sort(rng.choice(len(rows), 16, replace=False))]
    n = len(rows)
    both = np.vstack([rows, rows[:, ::-1]])

    if not case.get("w"):
        t.xyz = shift32
    ref = Ref(shift32, rows, B, ortho_f, K, dihedral)
    ctx.observe("bond_angle_class", "near-collinear" if (ref.dom & ~ref.cond).any() else "generic")
    out = call(t, _as_index_arg(both, case["idx"]), periodic=ptrue, opt=True)
    if out.shape != (nf, 2 * n):
        ctx.violation("shape", f"{fn}:opt:periodic:shape", f"shape {out.shape}, expected {(nf, 2 * n)}")
        return
    label = f"opt:periodic-{kernel}" + ("" if ptrue is True else f":periodic={case['ptrue']!r}")
    o_fwd, o_rev = out[:, :n], out[:, n:]
    if _judge(ctx, f"{kn}.value", fn, label, o_fwd, ref) is None:
        return
    _relation(ctx, "reversal", f"{fn}:{label}:reversal", f"{fn}({label}) changes when the atom order is reversed", o_fwd, o_rev, ref, ref)

    # per-atom lattice shifts: compare with the unshifted molecule
    if K:
        tb = md.Trajectory(base32, t.topology, unitcell_lengths=t.unitcell_lengths, unitcell_angles=t.unitcell_angles)
        refb = Ref(base32, rows, B, ortho_f, 0, dihedral)
        ob = call(tb, rows, periodic=ptrue, opt=True)
        _judge(ctx, f"{kn}.value", fn, label, ob, refb)
        _relation(ctx, "lattice-shift", f"{fn}:{label}:lattice-shift", f"{fn}({label}) changes under per-atom lattice shifts", o_fwd, ob, ref, refb)

    # reference path on a sub-list (pure python loops)
    ns = min(n, (10 if kernel == "ortho" else 6) * (2 if case.get("wide") else 1))
    sub = rows[:ns]
    refs = Ref(shift32, sub, B, ortho_f, K, dihedral)
    orf = call(t, _as_index_arg(sub, case["idx"]) if case.get("w") else sub, periodic=ptrue, opt=False)
    if _judge(ctx, f"ref.{kn}.value", fn, f"ref:periodic-{kernel}", orf, refs) is not None:
        _relation(ctx, "opt-vs-ref", f"{fn}:periodic-{kernel}:opt-vs-ref", f"{fn}: opt=True and opt=False disagree (periodic, {kernel})",
                  o_fwd[:, :ns], orf, refs, refs)

    # periodic given as a numpy bool
    refn = Ref(shift32, sub, None, ortho_f, 0, dihedral)
    informative = refs.dom & refs.cond & refn.cond & (refs.rel(refs.val, refn.val) > 4 * (refs.tol + refn.tol))
    if ptrue is not True:
        pass  # the flag variant is the subject of this whole case (value monitors above)
    elif informative.any():
        for opt in (True, False):
            o2 = call(t, sub, periodic=np.True_, opt=opt)
            o1 = o_fwd[:, :ns] if opt else orf
            same = np.array_equal(o1, o2, equal_nan=True)
            if same:
                ctx.ok("periodic-truthy", int(informative.sum()))
            else:
                plain = call(t, sub, periodic=False, opt=opt)
                mech = "cell-ignored" if np.array_equal(plain, o2, equal_nan=True) else "differs"
                ctx.violation("periodic-truthy", f"{fn}:{'opt' if opt else 'ref'}:periodic=np.True_:{mech}",
                              f"{fn}(periodic=np.True_, opt={opt}) differs from periodic=True"
                              + (" and equals the periodic=False result" if mech == "cell-ignored" else ""))
    else:
        ctx.skip("periodic-truthy", "periodic and non-periodic values coincide for this geometry")

    # empty list
    e = call(t, np.zeros((0, m), int))
    ctx.check(e.shape == (nf, 0), "shape", f"{fn}:empty-list:shape", f"empty index list gives shape {e.shape}")


def _run_plain(case, ctx):
    import mdtraj as md
    dihedral = case["kind"] == "plain_dih"
    fn = "compute_dihedrals" if dihedral else "compute_angles"
    call = md.compute_dihedrals if dihedral else md.compute_angles
    m = 4 if dihedral else 3
    kn = "dihedral" if dihedral else "angle"
    rng = common.rng_for("C07plain", case["seed"])
    nf, na = case["n_frames"], case["n_atoms"]
    ctx.observe("geometry", case["geo"])
    offset = float(rng.choice([0, 0, 3, 30, 300] + ([1000] if case.get("wide") else [])))
    ctx.observe("offset_nm", offset)
    x = np.zeros((nf, na, 3))
    for f in range(nf):
        origin = rng.normal(size=3) * 2 + offset * rng.choice([-1, 1], 3)
        x[f] = _chain(rng, na, case["geo"], float(rng.uniform(0.5, 3.0)), origin, True)
    x32 = x.astype(np.float32)
    axis = int(rng.integers(3))
    mir32 = x32.copy()
    mir32[..., axis] *= -1
    top = common.simple_topology(na)
    lens, angs = common.random_cell(rng, case["cell"])
    tc = md.Trajectory(x32, top, unitcell_lengths=np.tile(lens, (nf, 1)).astype(np.float32),
                       unitcell_angles=np.tile(angs, (nf, 1)).astype(np.float32))
    tn = md.Trajectory(x32, top)
    pfalse = _flag(case.get("pfalse", False))
    if case.get("w"):
        tc, tn = common.derive_traj(tc, case["derived"], rng), common.derive_traj(tn, case["derived"] if case["derived"] != "vectors" else "slice", rng)
        for k_, v_ in (("rows", case["rows"]), ("trajectory_origin", case["derived"]), ("nonperiodic_flag", repr(case["pfalse"])),
                       ("n_atoms", "thousands" if na >= 500 else "small")):
            ctx.observe("wide." + k_, v_)
    rows = _rows_wide(rng, na, m, case["rows"]) if case.get("rows") else _rows(rng, na, m, case.get("wide", False))
    if case.get("geo") == "loose":
        rows = rows[rng.choice(len(rows), size=min(len(rows), int(rng.integers(1, 5))), replace=False)]
    n = len(rows)
    both = np.vstack([rows, rows[:, ::-1]])
    ref = Ref(x32, rows, None, None, 0, dihedral)
    refm = Ref(mir32, rows, None, None, 0, dihedral)
    ctx.observe("bond_angle_class", "near-collinear" if (~ref.cond).any() else "generic")
    for label, tr, periodic in ((f"cell={case['cell']},periodic=False", tc, False), ("no-cell,periodic=True", tn, True)):
        lab = "nonperiodic" if not periodic else "no-cell"
        ctx.observe("plain_variant", label)
        for opt in (True, False):
            tag = f"{'opt' if opt else 'ref'}:{lab}"
            out = call(tr, _as_index_arg(both, case["idx"]), periodic=(periodic if periodic else pfalse), opt=opt)
            if out.shape != (nf, 2 * n):
                ctx.violation("shape", f"{fn}:{tag}:shape", f"shape {out.shape}, expected {(nf, 2 * n)}")
                continue
            if _judge(ctx, "plain.value", fn, tag, out[:, :n], ref) is None:
                continue
            _relation(ctx, "reversal", f"{fn}:{tag}:reversal", f"{fn}({tag}) changes when the atom order is reversed",
                      out[:, :n], out[:, n:], ref, ref)
            tm = md.Trajectory(mir32, top)
            if not periodic:
                tm.unitcell_lengths, tm.unitcell_angles = tc.unitcell_lengths, tc.unitcell_angles
            om = call(tm, rows, periodic=periodic, opt=opt)
            _judge(ctx, "plain.value", fn, tag, om, refm)
            _relation(ctx, "mirror", f"{fn}:{tag}:mirror", f"{fn}({tag}): mirror image does not " + ("negate the dihedral" if dihedral else "keep the angle"),
                      out[:, :n], om, ref, refm, sign=-1.0)
    # opt vs ref, non-periodic
    a = call(tn, rows, periodic=False, opt=True)
    b = call(tn, rows, periodic=False, opt=False)
    _relation(ctx, "opt-vs-ref", f"{fn}:nonperiodic:opt-vs-ref", f"{fn}: opt=True and opt=False disagree (non-periodic)", a, b, ref, ref)


# ---------------------------------------------------------------------------------------------------- named torsions
_LOADED = {}


def _load(name):
    import mdtraj as md
    if name not in _LOADED:
        t = md.load(os.path.join(DATA, name))
        if t.n_frames > 4:
            t = t[:: max(1, t.n_frames // 4)][:4]
        _LOADED[name] = t
    return _LOADED[name]


def _edit(t, edit, rng, ctx):
    import mdtraj as md
    top = t.topology
    na = t.n_atoms
    keep = np.ones(na, bool)
    residues = list(top.residues)
    if edit in ("none", "rename_in_place"):
        return t
    if edit == "noise":
        t2 = t.slice(range(t.n_frames), copy=True)
        t2.xyz = (t2.xyz + rng.normal(scale=0.02, size=t2.xyz.shape)).astype(np.float32)
        return t2
    if edit == "del_atoms":
        p = float(rng.choice([0.003, 0.02, 0.1]))
        keep &= rng.random(na) >= p
    elif edit == "del_backbone":
        bb = [a.index for a in top.atoms if a.name in ("N", "CA", "C")]
        if bb:
            k = max(1, int(len(bb) * float(rng.choice([0.01, 0.05, 0.2]))))
            keep[rng.choice(bb, min(k, len(bb)), replace=False)] = False
    elif edit == "del_residues":
        k = max(1, int(len(residues) * float(rng.choice([0.02, 0.1]))))
        for r in rng.choice(len(residues), min(k, len(residues)), replace=False):
            for a in residues[int(r)].atoms:
                keep[a.index] = False
    elif edit == "del_termini":
        for ch in top.chains:
            rl = list(ch.residues)
            if not rl:
                continue
            for res in (rl[0], rl[-1]):
                for a in res.atoms:
                    if rng.random() < 0.5:
                        keep[a.index] = False
    elif edit == "chains":
        chs = list(top.chains)
        if len(chs) > 1:
            sel = rng.random(len(chs)) < 0.5
            if not sel.any():
                sel[int(rng.integers(len(chs)))] = True
            for c, s in zip(chs, sel):
                if not s:
                    for a in c.atoms:
                        keep[a.index] = False
        else:
            # split the single chain by deleting one interior residue
            if len(residues) > 4:
                for a in residues[int(rng.integers(1, len(residues) - 1))].atoms:
                    keep[a.index] = False
    elif edit == "stack":
        other = _load(str(rng.choice(["1bpi.pdb", "2EQQ.pdb", "1vii.pdb", "ala_ala_ala.pdb"])))
        a = t[0]
        b = other[0]
        b = md.Trajectory(b.xyz + np.float32(rng.uniform(2, 4)), b.topology)
        if a.unitcell_lengths is not None:
            b.unitcell_lengths, b.unitcell_angles = a.unitcell_lengths, a.unitcell_angles
        return b.stack(a) if rng.random() < 0.5 else a.stack(b)
    elif edit == "trim_sidechain":
        names = set(rng.choice(["CB", "CG", "CG1", "CD", "CD1", "CE", "NE", "CZ", "NH1", "SD", "OG1", "SG", "OD1", "ND1", "OE1", "NZ", "OG"],
                               int(rng.integers(1, 4)), replace=False).tolist())
        for a in top.atoms:
            if a.name in names and rng.random() < 0.5:
                keep[a.index] = False
    if keep.sum() < 1:
        keep[0] = True
    ctx.observe("atoms_deleted", "yes" if not keep.all() else "no")
    return t.atom_slice(np.where(keep)[0])


def _run_named(case, ctx):
    import mdtraj as md
    rng = common.rng_for("C07named", case["seed"])
    t = _edit(_load(case["file"]), case["edit"], rng, ctx)
    opt, periodic = case["opt"], case["periodic"]
    if case["edit"] == "rename_in_place":
        t = t.slice(range(t.n_frames), copy=True)  # private Topology object
        for which in R.TORSIONS:
            getattr(md, "compute_" + which)(t, periodic=False)  # first call: whatever is cached, is cached now
        swaps = {"CG1": "CG2", "CG2": "CG1", "CD1": "CD2", "CD2": "CD1", "OG1": "CG2x", "NE": "NEx", "CD": "CDx"}
        nren = 0
        for res in t.topology.residues:
            if rng.random() < 0.5:
                for a in res.atoms:
                    if a.name in swaps:
                        a.name = swaps[a.name]
                        nren += 1
            if rng.random() < 0.1:
                for a in res.atoms:
                    if a.name in ("N", "C") and rng.random() < 0.5:
                        a.name = a.name + "x"
                        nren += 1
        ctx.observe("atoms_renamed_in_place", "yes" if nren else "no")
    Kn = 0
    if case["edit"] == "cellscatter":
        t, Kn = _cellscatter(t, case, rng, ctx)
        periodic = True
        if t.n_frames > 5:
            opt = True  # the python reference path loops over frames x rows x 27 images
    elif case["edit"] == "derived":
        mode = case["derived"] if case["derived"] != "atom_slice" else "slice-nocopy"
        ctx.observe("wide.named_trajectory_origin", mode)
        t = common.derive_traj(t, mode, rng)
    ctx.observe("file", case["file"])
    ctx.observe("edit", case["edit"])
    have_cell = t.unitcell_lengths is not None
    ctx.observe("named_variant", f"opt={opt},periodic={periodic},cell={'yes' if have_cell else 'no'}")
    chains = R.residue_table(t.topology)
    ctx.observe("n_chains", min(len(chains), 8))
    use_cell = have_cell and periodic
    if use_cell:
        B = t.unitcell_vectors.astype(np.float64)
        ortho_f = np.all(t.unitcell_angles == 90.0, axis=1)
    else:
        B, ortho_f = None, None
    if not opt and use_cell and t.n_atoms > 3000:
        t = t[0]  # the python reference path loops per pair and frame
        B, ortho_f = B[:1], ortho_f[:1]
    x32 = np.asarray(t.xyz, np.float32)
    for which in R.TORSIONS:
        req, optional = R.match_torsion(chains, which)
        res = getattr(md, "compute_" + which)(t, periodic=periodic, opt=opt)
        tag = f"compute_{which}"
        if not (isinstance(res, tuple) and len(res) == 2):
            ctx.violation("named.indices", f"{tag}:return-type", f"{tag} returned {type(res)}")
            continue
        idx, val = np.asarray(res[0]), np.asarray(res[1])
        if idx.ndim != 2 or idx.shape[1] != 4 or val.shape != (t.n_frames, len(idx)):
            ctx.violation("named.indices", f"{tag}:shape", f"{tag}: indices {idx.shape}, values {val.shape}, frames {t.n_frames}")
            continue
        # twin entry point: indices_<name>(topology) is documented to return the same table
        twin = np.asarray(getattr(md.geometry, "indices_" + which)(t.topology)) if (case.get("w") or t.n_atoms <= 1000) else idx
        ctx.check(twin.shape == idx.shape and np.array_equal(twin, idx), "named.indices-twin", f"indices_{which}:differs-from-{tag}",
                  f"indices_{which}(topology) returned {twin.shape} rows, {tag} {idx.shape}" + ("" if twin.shape != idx.shape else " with different entries"))
        got = [tuple(int(v) for v in r) for r in idx]
        sreq, sopt, sgot = set(req), set(optional), set(got)
        missing = sorted(sreq - sgot)
        extra = sorted(sgot - sreq - sopt)
        dup = len(got) - len(sgot)
        top = t.topology

        def describe(r):
            return "-".join(f"{top.atom(i).residue.chain.index}:{top.atom(i).residue}:{top.atom(i).name}" for i in r)
        if missing:
            ctx.violation("named.indices", f"{tag}:documented-row-missing",
                          f"{tag}: {len(missing)} documented torsion(s) not returned, e.g. {describe(missing[0])}", file=case["file"], edit=case["edit"])
        if extra:
            ctx.violation("named.indices", f"{tag}:undocumented-row-returned",
                          f"{tag}: {len(extra)} returned row(s) are not the documented atoms of any residue, e.g. {describe(extra[0])}",
                          file=case["file"], edit=case["edit"])
        if dup:
            ctx.violation("named.indices", f"{tag}:duplicate-rows", f"{tag}: {dup} duplicated row(s)")
        ctx.ok("named.indices", len(sreq & sgot))
        if sgot & sopt:
            ctx.skip("named.indices", "row undecided by the documentation (resSeq gap, non-standard residue, repeated atom name, several chi patterns)",
                     len(sgot & sopt))
        ctx.observe("named_rows", which, len(got))
        order = [top.atom(r[1]).residue.index for r in got]
        ctx.observe("rows_in_residue_order", str(order == sorted(order)))
        if not got:
            ctx.ok("named.empty-shape")
            continue
        # values: bit-for-bit the generic entry point on the same rows, and the float64 definition
        direct = md.compute_dihedrals(t, idx, periodic=periodic, opt=opt)
        if np.array_equal(direct, val, equal_nan=True):
            ctx.ok("named.consistency", val.size)
        else:
            ctx.violation("named.consistency", f"{tag}:values-differ-from-compute_dihedrals",
                          f"{tag}: values are not compute_dihedrals on the returned indices (max diff {np.nanmax(np.abs(direct - val)):.3g})")
        rows = np.array(got, dtype=np.int64)
        if len(set(map(len, map(set, got)))) != 1 or len(set(got[0])) != 4:
            ctx.skip("named.values", "row with repeated atoms")
            continue
        ref = Ref(x32, rows, B, ortho_f, Kn, True)
        kernel = "nonperiodic" if not use_cell else ("periodic-ortho" if bool(ortho_f.all()) else "periodic-triclinic")
        _judge(ctx, "named.values", tag, f"{'opt' if opt else 'ref'}:{kernel}", val, ref)


def evidence_extra(records, dones, tier):
    files = {}
    for r in records:
        c = r["case"]
        if c.get("kind") == "named":
            files.setdefault(c["file"], set()).add(c["edit"])
    return {"named_files_x_edits": {k: sorted(v) for k, v in sorted(files.items())}}


# =====================================================================================================================
# Widening pass (appended stream; the cases above keep their numbers and seeds).  Same oracle (Ref), same tolerances.
#   value cases with w=1   index tables as tuple / Fortran order / int16 / offset view (besides int32, list, strided), row lists
#                          of one row, SIMD-width counts, thousands of rows over 500..2000 atoms, descending, chained in
#                          shuffled order, one row repeated, rows sharing one atom / one central bond; periodic given as
#                          np.True_ / 1 (np.False_ / 0 for the non-periodic variants); trajectory cut out of a longer one
#                          (copy or view), every other frame, atom subset, joined, float64 coordinates, cell given as vectors;
#                          per-frame cells where one field drifts / the class changes / only the last frames differ /
#                          two cells alternate, also over 129..300 frames; cells of 0.02 nm and of 1500 nm
#   hist                   the same Trajectory object across calls: compute, edit xyz / cell (setter or in place), compute
#   named (new edits)      shuffle_atoms  atoms of every residue stored in a different order (definitions are by name)
#                          cellscatter    every atom moved by its own lattice vector, per-frame cells, 1..257 frames:
#                                         the named torsions of molecules split over periodic images
#                          derived        the protein trajectory is a view / slice / join of a longer one
#   every named case       indices_<name>(topology) must be the table compute_<name> returns (twin entry points)
WIDE_KINDS = ["ang", "dih", "plain_ang", "dih", "ang", "plain_dih", "hist", "named", "ang", "dih", "named", "hist"]
NWIDE = {"quick": 300, "thorough": 6000}
ROW_SHAPES = ["one", "simd", "desc", "chain-shuffled", "repeat", "shared", "thousands", "windows"]
NEW_EDITS = ["shuffle_atoms", "cellscatter", "derived", "forcefield_names", "cellscatter"]
PERIODIC_TRUE = [True, "np.True_", 1]
PERIODIC_FALSE = [False, "np.False_", 0]
SMALL_FILES = ["1bpi.pdb", "2EQQ.pdb", "1vii.pdb", "native.pdb", "frame0.h5", "ala_ala_ala.pdb", "aaqaa-wat.pdb", "bpti.pdb", "4OH9.pdb"]
FLOORS["quick"].update({"named.indices-twin": 500, "wide.history": 2000})


def _flag(v):
    return {"np.True_": np.True_, "np.False_": np.False_}.get(v, v) if isinstance(v, str) else v


def _gen_wide(tier, seed):
    n0 = NCASES[tier]
    cells = common.CELL_KINDS
    jn = 0
    for k in range(NWIDE[tier]):
        i = n0 + k
        rng = common.rng_for("C07w", seed, i)
        kind = WIDE_KINDS[int(rng.integers(len(WIDE_KINDS)))]  # drawn, not cycled: no resonance with the worker count
        c = dict(i=i, seed=common.case_seed(seed, "C07", i), kind=kind, w=1)
        if kind == "named":
            files = SMALL_FILES if tier == "quick" else SMALL_FILES + ["1am7_protein.pdb", "4ZUO.pdb"]
            c.update(file=files[(jn + seed) % len(files)], edit=NEW_EDITS[(jn // len(files) + jn) % len(NEW_EDITS)],
                     opt=bool(rng.random() < 0.7), periodic=bool(rng.random() < 0.7),
                     cell=cells[int(rng.integers(len(cells)))], pf=str(rng.choice(["const"] + common.PF_MODES)),
                     n_frames=int(rng.choice([1, 2, 5, 5, 130, 257])), spread=int(rng.choice([1, 1, 3, 10])),
                     derived=str(rng.choice(common.DERIVED[1:])))
            jn += 1
        else:
            big = rng.random() < 0.06
            long_ = (not big) and rng.random() < 0.09
            scale = int(rng.choice([0, 0, 0, 0, -6, 8]))
            c.update(cell=cells[int(rng.integers(len(cells)))],
                     geo=str(rng.choice(["random", "random", "long", "collinear", "planar"] + ([] if scale else ["grid", "tiny"]))),
                     spread=int(rng.choice([0, 1, 1, 3, 10, 50])), pf=str(rng.choice(["const"] + common.PF_MODES)),
                     perframe=False, mixed=False, scale_log2=scale,
                     n_frames=int(rng.choice([129, 200, 257, 300])) if long_ else (int(rng.integers(1, 4)) if big else int(rng.integers(1, 6))),
                     n_atoms=int(rng.choice([500, 2000])) if big else int(rng.integers(4, 33)),
                     idx=str(rng.choice(common.INDEX_STYLES)), rows="thousands" if big else str(rng.choice(ROW_SHAPES)),
                     derived=str(rng.choice(common.DERIVED)) if not long_ else str(rng.choice(["none", "stride-nocopy", "join", "slice-nocopy"])),
                     ptrue=PERIODIC_TRUE[int(rng.integers(3))], pfalse=PERIODIC_FALSE[int(rng.integers(3))], wide=False)
            if kind == "hist":
                c.update(n_frames=int(rng.integers(2, 6)), n_atoms=int(rng.integers(4, 20)), derived="none", rows="windows")
        yield c


def gen_cases(tier, seed):  # noqa: F811  (extends the stream defined at the top of the module)
    import itertools
    return common.with_asan_slice(itertools.chain(_gen_cases(tier, seed), _gen_wide(tier, seed)), ASAN_EVERY[tier])


def _rows_wide(rng, na, m, shape):
    def rnd(n):
        if n <= 200:
            return np.array([rng.choice(na, m, replace=False) for _ in range(n)], dtype=np.int64)
        width = min(na, m + 4)
        start = rng.integers(0, na - width + 1, n)
        offs = np.argsort(rng.random((n, width)), axis=1)[:, :m]
        return (start[:, None] + offs).astype(np.int64)
    win = np.array([list(range(k, k + m)) for k in range(na - m + 1)], dtype=np.int64)
    if shape == "one":
        return rnd(1)
    if shape == "simd":
        return rnd(int(rng.choice(common.SIMD_COUNTS)))
    if shape == "desc":
        return win[::-1, ::-1].copy()
    if shape == "chain-shuffled":
        return win[rng.permutation(len(win))]
    if shape == "repeat":
        return np.tile(rnd(int(rng.integers(1, 3))), (int(rng.integers(2, 12)), 1))
    if shape == "shared":
        if m == 3:  # one middle atom, many arms
            c = int(rng.integers(na))
            others = np.array([x for x in range(na) if x != c])
            ends = np.array([rng.choice(others, 2, replace=False) for _ in range(int(rng.integers(2, 20)))])
            return np.stack([ends[:, 0], np.full(len(ends), c), ends[:, 1]], axis=1).astype(np.int64)
        b = rng.choice(na - 1)
        others = np.array([x for x in range(na) if x not in (b, b + 1)])
        ends = np.array([rng.choice(others, 2, replace=False) for _ in range(int(rng.integers(2, 20)))])
        return np.stack([ends[:, 0], np.full(len(ends), b), np.full(len(ends), b + 1), ends[:, 1]], axis=1).astype(np.int64)
    if shape == "thousands":
        n = int(rng.choice([1023, 2048, 4099, 5000]))
        r = np.vstack([win[: n // 2], rnd(n - min(len(win), n // 2))])
        return r
    return win


def _build_periodic_wide(case):
    import mdtraj as md
    rng = common.rng_for("C07wide", case["seed"])
    nf, na = case["n_frames"], case["n_atoms"]
    kindc = case["cell"]
    if case["pf"] == "const":
        cells = [common.random_cell(rng, kindc)] * nf
    else:
        cells = common.perframe_cells(rng, kindc, nf, case["pf"])
    sc = 2.0 ** case["scale_log2"]
    L = (np.array([c[0] for c in cells]) * sc).astype(np.float32)
    A = np.array([c[1] for c in cells], dtype=np.float32)
    top = common.simple_topology(na)
    t = md.Trajectory(np.zeros((nf, na, 3), np.float32), top, unitcell_lengths=L, unitcell_angles=A)
    B = t.unitcell_vectors.astype(np.float64)
    ortho_f = np.all(A == 90.0, axis=1)
    base = np.zeros((nf, na, 3))
    shifted = np.zeros((nf, na, 3))
    K = case["spread"]
    for f in range(nf):
        w = common.cell_widths(B[f])
        origin = rng.uniform(0, 1, 3) @ B[f]
        base[f] = _chain(rng, na, case["geo"], float(w.min()), origin, bool(ortho_f[f]))
        shifted[f] = base[f] + rng.integers(-K, K + 1, (na, 3)).astype(np.float64) @ B[f] if K else base[f]
    return t, B, ortho_f, base.astype(np.float32), shifted.astype(np.float32), rng


def _run_hist(case, ctx):
    """one Trajectory object: angles and dihedrals, then an edit of coordinates or cell, then angles and dihedrals again"""
    import mdtraj as md
    t, B, ortho_f, base32, shift32, rng = _build_periodic_wide(case)
    t.xyz = shift32
    nf, na = t.n_frames, t.n_atoms
    K = case["spread"]
    sc = 2.0 ** case["scale_log2"]
    ctx.observe("cell", case["cell"])
    ops = ["xyz-inplace", "xyz-setter", "lengths-setter", "lengths-inplace", "angles-setter", "vectors-setter", "cell-removed", "lattice-shift-inplace"]
    seq = [str(o) for o in rng.choice(ops, int(rng.integers(1, 4)))]
    rows3, rows4 = _rows(rng, na, 3), _rows(rng, na, 4)

    def observe_all(stage):
        have = t.unitcell_lengths is not None
        # the lattice is built independently from the lengths and angles the object holds now (not from unitcell_vectors)
        Bc = np.array([common.cell_vectors64(l, a) for l, a in zip(t.unitcell_lengths, t.unitcell_angles)]) if have else None
        if have:
            Brep = np.asarray(t.unitcell_vectors, np.float64)
            dev = np.abs(Bc - Brep).max(axis=(1, 2))
            lim = 2e-6 + 1e-5 * np.linalg.norm(Bc, axis=2).max(axis=1)
            ctx.check(bool((dev <= lim).all()), "wide.history-lattice",
                      "history:unitcell_vectors-differ-from-current-lengths-and-angles",
                      f"{stage}: unitcell_vectors deviate by {dev.max():.3g} nm from the lattice of the lengths/angles the object holds")
            Bc = np.where((dev > lim)[:, None, None], Bc, Brep)  # judged by the reported lattice unless that one is stale
        of = np.all(t.unitcell_angles == 90.0, axis=1) if have else None
        x32 = np.asarray(t.xyz, np.float32)
        for dihedral, rows, call, fn in ((False, rows3, md.compute_angles, "compute_angles"), (True, rows4, md.compute_dihedrals, "compute_dihedrals")):
            for opt in (True, False):
                r = rows if opt else rows[:6]
                ref = Ref(x32, r, Bc, of, (K + 3) if have else 0, dihedral)
                out = call(t, r, periodic=True, opt=opt)
                kern = "no-cell" if not have else ("ortho" if bool(of.all()) else "triclinic")
                _judge(ctx, "wide.history", fn, f"{'opt' if opt else 'ref'}:history:{kern}", out, ref)
    observe_all("first call")
    for o in seq:
        ctx.observe("wide.history_edit", o)
        if t.unitcell_lengths is None and o not in ("xyz-inplace", "xyz-setter"):
            continue
        f = int(rng.integers(0, nf))
        if o == "xyz-inplace":
            t.xyz[f, int(rng.integers(0, na))] += np.float32(rng.normal(scale=0.05, size=3) * sc)
        elif o == "xyz-setter":
            t.xyz = (t.xyz[::-1] + np.float32(0.25 * sc)).astype(np.float32)
        elif o == "lattice-shift-inplace":
            a = int(rng.integers(0, na))
            t.xyz[f, a] = (t.xyz[f, a].astype(np.float64) + rng.integers(-3, 4, 3) @ t.unitcell_vectors[f].astype(np.float64)).astype(np.float32)
        elif o == "lengths-setter":
            L = t.unitcell_lengths.copy()
            L[f] *= np.float32(rng.uniform(0.8, 1.4))
            t.unitcell_lengths = L
        elif o == "lengths-inplace":
            t.unitcell_lengths[f, int(rng.integers(3))] *= np.float32(rng.uniform(0.8, 1.4))
        elif o == "angles-setter":
            A = t.unitcell_angles.copy()
            A[f] = common.random_cell(rng, str(rng.choice(["ortho", "monoclinic", "mono_alpha", "hex120", "triclinic"])))[1]
            t.unitcell_angles = A
        elif o == "vectors-setter":
            l, a = common.random_cell(rng, case["cell"])
            V = t.unitcell_vectors.copy()
            V[f] = common.cell_vectors64(l * sc, a)
            t.unitcell_vectors = V
        elif o == "cell-removed":
            t.unitcell_vectors = None
        observe_all("after " + o)


def _cellscatter(t, case, rng, ctx):
    """the protein in nf frames (file frames repeated with 0.01 nm noise), per-frame cells, every atom moved by its own
    lattice vector; returns (trajectory, K)"""
    import mdtraj as md
    nf = case["n_frames"] if t.n_atoms <= 1000 else min(case["n_frames"], 5)
    src = np.asarray(t.xyz, np.float64)
    x = src[np.arange(nf) % len(src)] + rng.normal(scale=0.01, size=(nf,) + src.shape[1:])
    cells = [common.random_cell(rng, case["cell"])] * nf if case["pf"] == "const" else common.perframe_cells(rng, case["cell"], nf, case["pf"])
    L = np.array([c[0] for c in cells], dtype=np.float32)
    A = np.array([c[1] for c in cells], dtype=np.float32)
    t2 = md.Trajectory(np.zeros((nf, t.n_atoms, 3), np.float32), t.topology, unitcell_lengths=L, unitcell_angles=A)
    Bv = t2.unitcell_vectors.astype(np.float64)
    K = case["spread"]
    n = rng.integers(-K, K + 1, (nf, t.n_atoms, 3)).astype(np.float64)
    t2.xyz = (x + np.einsum("fai,fij->faj", n, Bv)).astype(np.float32)
    ctx.observe("wide.named_frames", "1" if nf == 1 else ("2-5" if nf <= 5 else ">=130"))
    ctx.observe("wide.named_per_frame_cells", case["pf"])
    ctx.observe("wide.named_cell", case["cell"])
    return t2, K


def _shuffle_atoms(t, rng):
    import mdtraj as md
    top = t.topology
    new = md.Topology()
    order = []
    for ch in top.chains:
        c2 = new.add_chain()
        for res in ch.residues:
            r2 = new.add_residue(res.name, c2, resSeq=res.resSeq, segment_id=res.segment_id)
            atoms = list(res.atoms)
            for k in rng.permutation(len(atoms)):
                a = atoms[int(k)]
                new.add_atom(a.name, a.element, r2, serial=a.serial)
                order.append(a.index)
    t2 = md.Trajectory(np.asarray(t.xyz)[:, order], new)
    if t.unitcell_lengths is not None:
        t2.unitcell_lengths, t2.unitcell_angles = t.unitcell_lengths.copy(), t.unitcell_angles.copy()
    return t2


_edit_original = _edit


def _forcefield_names(t, rng, ctx):
    """a copy whose HIS / CYS / ASP / GLU / LYS residues carry force-field state names (HID, HSP, CYX, ASH, ...)"""
    import mdtraj as md
    t2 = md.Trajectory(np.array(t.xyz, copy=True), t.topology.copy(), unitcell_lengths=None if t.unitcell_lengths is None else t.unitcell_lengths.copy(),
                       unitcell_angles=None if t.unitcell_angles is None else t.unitcell_angles.copy())
    n = 0
    cands = [r for r in t2.topology.residues if r.name in R.AMINO_STATE_NAMES]
    if not cands:  # no such residue in this structure: give a few others the commonest variants' names anyway
        pool = [r for r in t2.topology.residues if r.name in ("ALA", "SER", "LEU", "GLY", "VAL")]
        for r in pool[:: max(1, len(pool) // 4)][:4]:
            r.name = "HID"
            n += 1
    for r in cands:
        if rng.random() < 0.8:
            vs = R.AMINO_STATE_NAMES[r.name]
            r.name = vs[int(rng.integers(len(vs)))]
            n += 1
    ctx.observe("forcefield_state_names", "renamed %s residues" % ("no" if n == 0 else ("1-3" if n <= 3 else ">3")))
    return t2


def _edit(t, edit, rng, ctx):  # noqa: F811
    if edit == "shuffle_atoms":
        return _shuffle_atoms(t, rng)
    if edit == "forcefield_names":
        return _forcefield_names(t, rng, ctx)
    if edit in ("cellscatter", "derived"):
        return t
    return _edit_original(t, edit, rng, ctx)


_run_case_original = run_case


def run_case(case, ctx):  # noqa: F811
    if case.get("kind") == "hist":
        ctx.observe("kind", "hist")
        return _run_hist(case, ctx)
    return _run_case_original(case, ctx)
