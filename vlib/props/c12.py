"""C12 — every selection expression selects exactly the atoms its meaning denotes.

Monitors (the real Topology.select / Topology.select_expression run on every generated expression):

reference               layer 1: own tokenizer + recursive-descent parser + evaluation over an own attribute table
                        (vlib/oracle/c12_selection.py, written from docs/atom_selection.rst); the index list must be
                        identical.  Conventional precedence (comparison, not, and, or).  Expressions in which `not`
                        is applied to an unparenthesised explicit comparison are `ambiguous` (skipped here).
synonym / quoting /     layer 2: a documented synonym spelling (and<->&&, or<->||, not<->!, <<->lt ..., keyword
parens / spacing        aliases, bare<->'quoted'<->"quoted"), redundant parentheses around a complete boolean
                        sub-expression, or removing/adding optional whitespace must change neither the acceptance nor
                        the selection.
select-vs-expression    layer 3: eval(select_expression(e)) over `topology` equals select(e).
result-form             select() returns a 1-d, integer-typed, strictly increasing array.
malformed               empty, unbalanced/empty parentheses, dangling or doubled operators, `to` without bounds, bare
                        literals as truth values, literal-only comparisons must raise.
keyword-meaning         boolean keyword columns agree with the documented wording on standard residues/water/ions;
                        (widened) every VMD water residue name, common modified residues and caps, nucleotides, one-letter
                        codes, element masses.
history                 (widened) the same expressions before/after edits of one topology (rename, renumber, re-segment,
                        add/insert/delete atoms, bonds, chains, element change) and interleaved on two topologies: every
                        evaluation must describe the topology as it is at the call.
atom-indices(-form)     (widened) Topology.select_atom_indices: each documented option against its docstring wording over
                        the attribute table; unknown options refused; integer 1-d result also when empty.
pairs                   (widened) Topology.select_pairs: str/list/tuple/range/ndarray arguments, equal / disjoint /
                        overlapping branches, unsorted input: exactly the unordered pairs a!=b, each once, shape (n, 2).

Violation keys name the mechanism.  On a reference mismatch the failing expression is shrunk to its smallest failing
boolean sub-expression; if that is an and/or whose operand is an unparenthesised comparison that a parser ordering its
infix operators by the *alphabetical order of their spellings* would tear apart, and parenthesising that operand
repairs the result, the key is  precedence:<connective>-binds-tighter-than-<symbolic|fortran>-comparison|=~:<outcome>;
otherwise reference:<node kind>:<outcome>.  outcome = rejected | error-at-evaluation | wrong-selection.
"""
from __future__ import annotations

import itertools
import os
import re
import threading

import numpy as np

from vlib.gen import common
from vlib.oracle import c12_selection as ref

PROPERTY = "C12"
LEVEL = "exploration"
NATIVE = []
RULE = ("cases = (expression string, topology name); expressions come from (a) every depth-0 term of the full alphabet "
        "(every keyword alias x implicit/list/range/regex/every comparison spelling, literal left and right, every quote "
        "form), (b) exhaustive enumeration of all trees of depth <= 2 over a reduced alphabet (5 terms x not/! x "
        "and/&&/or/||; thorough tier complete, quick tier a seeded sample) and of depth 1 over 21 terms covering all 12 "
        "comparison spellings, (c) seeded random trees up to depth 6 with random spellings/quoting/redundant "
        "parentheses, (d) malformed strings built from templates; each case also runs 1-3 meaning-preserving rewrites; "
        "(e) widened classes: topologies from other construction routes (PSF, prmtop, RNA, tip4p virtual sites, "
        "Topology.join, hand-built name-hostile and macro-keyword residue classes, empty/one-atom, > 1000 atoms), every "
        "unusual literal in every quote form and position, letter-case flips, integer<->float literal forms, long "
        "in-lists and connective chains, nesting up to the judged bound (and beyond: refusal tolerated), regex escapes "
        "and inline flags, four-digit indices, line breaks as whitespace, illegal characters / unterminated quotes, "
        "edit histories of one topology between evaluations, the same strings interleaved on two topologies, "
        "select_atom_indices options and select_pairs argument forms/branches. "
        "A case is non-trivial when at least one monitor decided; distinct = distinct (expression, topology).")
WORKERS = {"quick": 8, "thorough": 16}
BUDGET = {"quick": int(os.environ.get("C12_BUDGET_QUICK", 60)), "thorough": int(os.environ.get("C12_BUDGET_THOROUGH", 900))}
EXHAUSTIVE = {"thorough": True}
FLOORS = {"quick": {"reference": 800, "synonym": 250, "parens": 140, "quoting": 80, "spacing": 40,
                    "select-vs-expression": 280, "result-form": 280, "malformed": 35, "keyword-meaning": 2,
                    "history": 600, "atom-indices": 100, "atom-indices-form": 40, "pairs": 120}}
ASSUMPTIONS = [
    "docs/atom_selection.rst is the meaning of the language; segment_id/segname (absent from its table) mean "
    "Atom.segment_id as documented in the Atom docstring",
    "precedence: comparison > not > and > or (the documentation prints no table); `not` applied to an unparenthesised "
    "explicit comparison is treated as ambiguous and only checked by the synonym and select_expression monitors",
    "boolean keyword values (protein, water, backbone, sidechain) and rescode are read from the Residue/Atom "
    "properties the documentation maps them to; they are cross-checked only on standard residues, HOH and ions",
    "negative numbers, exponents, leading zeros, chained comparisons, string ordering, keyword-vs-keyword comparisons, "
    "non-boolean keywords used as truth values and bare words spelled like keywords are outside the documented "
    "language (skipped)",
    "inside quotes a backslash followed by one of dwsDWS.+*?()[]$^|{} denotes those two characters (python-literal "
    "and verbatim reading agree); other backslash sequences are outside the documented language",
    "characters & | = ; , : [ ] { } @ # $ % ^ ~ ? ` outside quotes (after the documented operators && || == != =~ "
    "were tried) and a quote that is never closed make a string malformed",
    "nesting is judged up to 8 parentheses / 6 `not (` / 20 consecutive negations (the unchanged parser accepts "
    "10 / 8 / 40 from an empty stack); deeper nesting may be refused with RecursionError (skipped)",
    "is_water is documented by reference to VMD's residue-name list; protein-ness and one-letter codes are judged "
    "on the 20 standard residues plus 13 common modified residues (wwPDB parent codes) and the ACE/NME caps; "
    "`mass` is judged against IUPAC standard atomic weights (2e-3 relative)",
    "select_atom_indices: option meanings as worded in its docstring, 'water' = oxygen atoms (by element) of water "
    "residues; select_pairs: the set of unordered pairs {a,b}, a in selection1, b in selection2, a != b, each once",
]

DATA = "/repo/tests/data"
N_RAND_TOPS = {"quick": 4, "thorough": 12}
FIXED_TOPS = ["hostile", "4ZUO-mix", "2EQQ-12", "native", "tip3p-20"]

# ------------------------------------------------------------------------------------------------------ topologies
_TOPS = {}


def _hostile_topology():
    import mdtraj as md
    from mdtraj.core import element as elem
    top = md.Topology()
    E = elem.get_by_symbol

    def add_res(chain, name, resseq, seg, atoms, bonds=()):
        r = top.add_residue(name, chain, resSeq=resseq, segment_id=seg)
        made = {}
        for an, sym in atoms:
            made[an] = top.add_atom(an, E(sym), r)
        for a, b in bonds:
            top.add_bond(made[a], made[b])
        return made

    bb = [("N", "N"), ("CA", "C"), ("C", "C"), ("O", "O")]
    bbb = [("N", "CA"), ("CA", "C"), ("C", "O")]
    c0 = top.add_chain()
    prev = None
    for name, rs, extra, eb in [("ALA", 1, [("CB", "C"), ("H", "H"), ("HA", "H")], [("CA", "CB"), ("N", "H"), ("CA", "HA")]),
                                ("GLY", 2, [("H", "H")], [("N", "H")]),
                                ("ALA", 2, [("CB", "C")], [("CA", "CB")]),
                                ("CYS", 3, [("CB", "C"), ("SG", "S")], [("CA", "CB"), ("CB", "SG")]),
                                ("SER", 5, [("CB", "C"), ("OG", "O"), ("OXT", "O")], [("CA", "CB"), ("CB", "OG"), ("C", "OXT")])]:
        m = add_res(c0, name, rs, "SEGA", bb + extra, bbb + eb)
        if prev is not None:
            top.add_bond(prev["C"], m["N"])
        prev = m
    c1 = top.add_chain()
    prev = None
    for name, rs, extra, eb in [("GLY", 1, [], []), ("ASP", 2, [("CB", "C"), ("CG", "C"), ("OD1", "O"), ("OD2", "O")],
                                                   [("CA", "CB"), ("CB", "CG"), ("CG", "OD1"), ("CG", "OD2")]),
                                ("LYS", 2, [("CB", "C"), ("NZ", "N")], [("CA", "CB")])]:
        m = add_res(c1, name, rs, "B", bb + extra, bbb + eb)
        if prev is not None:
            top.add_bond(prev["C"], m["N"])
        prev = m
    c2 = top.add_chain()
    add_res(c2, "LIG", 100, "", [("C1", "C"), ("C2", "C"), ("C3", "C"), ("C4", "C"), ("C5", "C"), ("O5'", "O"),
                                 ("1HB", "H"), ("and", "C"), ("to", "N"), ("all", "O"), ("CA", "C"), ("H5\"", "H"),
                                 ("name", "C"), ("lt", "H"), ("C 1", "C")],
            [("C1", "C2"), ("C2", "C3"), ("C3", "C4"), ("C4", "C5"), ("C5", "O5'"), ("C1", "1HB"), ("C1", "C5")])
    add_res(c2, "or", 100, "protein", [("X", "P"), ("CA", "C")], [("X", "CA")])
    c3 = top.add_chain()
    add_res(c3, "NA", 101, "ION", [("NA", "Na")])
    add_res(c3, "CL", 102, "ION", [("CL", "Cl")])
    add_res(c3, "CA", 103, "ION", [("CA", "Ca")])
    add_res(c3, "ZN", 103, "", [("ZN", "Zn")])
    c4 = top.add_chain()
    for rs in (1, 2, 3, 3):
        add_res(c4, "HOH", rs, "WAT", [("O", "O"), ("H1", "H"), ("H2", "H")], [("O", "H1"), ("O", "H2")])
    add_res(c4, "HOH", 4, "WAT", [("O", "O")])
    return top


EXOTIC_NAMES = ["andy", "orn", "notch", "to1", "lt1", "nameX", "all1", "water2", "resid9", "indexes", "eq2", "C\u03b1",
                "O5*", "C-1", "N+", "H_1", "a.b", "C#", "(R)", "x)y", "x and y", "a&&b", "a<b", "!x", "=~", "C  1", "C 1",
                "ca", "CA", "Ca", "O5'", "O5", "H5''", "118", "1", "TO", "AND", "Name", "e1", "E2", "not", "resi",
                "a or b", "||", "C 1 ", " C1", "5.5", "'", "\u00c5", "x;y", "[N]", "C=O", "\u6c34", "A|B", "p&q"]


def _exotic_topology():
    """Names the lexer has to get right: bare words beginning with a keyword / operator spelling, upper-case
    look-alikes of keywords, names differing only in letter case or in inner/outer blanks, names made of operator
    characters, parentheses, quotes, digits only, non-ASCII letters; residue numbers of 4 and 5 digits."""
    import mdtraj as md
    from mdtraj.core import element as elem
    top = md.Topology()
    E = elem.get_by_symbol
    syms = ["C", "N", "O", "H", "S", "P", "Se", "Na", "Cl", "Fe"]
    c0 = top.add_chain()
    r = top.add_residue("LIG", c0, resSeq=1001, segment_id="L-1")
    made = []
    for k, an in enumerate(EXOTIC_NAMES):
        if k == 20:
            r = top.add_residue("lig", c0, resSeq=1002, segment_id="l-1")
        if k == 40:
            r = top.add_residue("118", c0, resSeq=2000, segment_id="SEG A")
        made.append(top.add_atom(an, E(syms[k % len(syms)]), r))
    for a, b in zip(made[:-1:3], made[1::3]):
        top.add_bond(a, b)
    c1 = top.add_chain()
    for rn, rs, seg, atoms in [("Cl-", 12345, "ION 1", [("Cl-", "Cl")]), ("NA+", 12346, "ION 1", [("NA+", "Na")]),
                               ("ala", 999, "", [("N", "N"), ("CA", "C"), ("C", "C"), ("O", "O")]),
                               ("Ala", 1000, "", [("N", "N"), ("CA", "C"), ("C", "C"), ("O", "O"), ("CB", "C")]),
                               ("ALA", 1000, "x", [("N", "N"), ("CA", "C"), ("C", "C"), ("O", "O"), ("CB", "C"), ("ca", "C")]),
                               ("DA", 10000, "NUC", [("C1'", "C"), ("C2'", "C"), ("O4'", "O"), ("N9", "N"), ("H2''", "H"), ("C1", "C")]),
                               ("A", 10001, "NUC", [("C1'", "C"), ("O2'", "O"), ("P", "P"), ("OP1", "O")]),
                               ("r\u00e9sidu", 7, "s\u00e9g", [("X", "C")]), ("X Y", 8, "A B", [("Q", "C"), ("M", "C")])]:
        r = top.add_residue(rn, c1, resSeq=rs, segment_id=seg)
        prev = None
        for an, sy in atoms:
            a = top.add_atom(an, E(sy), r)
            if prev is not None:
                top.add_bond(prev, a)
            prev = a
    c2 = top.add_chain()
    r = top.add_residue("TIP4", c2, resSeq=1, segment_id="W")
    o = top.add_atom("OW", E("O"), r)
    for an in ("HW1", "HW2"):
        top.add_bond(o, top.add_atom(an, E("H"), r))
    top.add_atom("MW", elem.virtual_site, r)
    return top


MACRO_WATERS = [("H2O", ("O", "H1", "H2")), ("HHO", ("O", "H1", "H2")), ("OHH", ("O", "H1", "H2")),
                ("HOH", ("O", "H1", "H2")), ("OH2", ("O", "H1", "H2")), ("SOL", ("OW", "HW1", "HW2")),
                ("WAT", ("O", "H1", "H2")), ("TIP", ("OH2", "H1", "H2")), ("TIP2", ("OH2", "H1", "H2")),
                ("TIP3", ("OH2", "H1", "H2")), ("TIP4", ("OW", "HW1", "HW2")), ("HOH", ("O",)), ("HOH", ("OW", "HW1", "HW2"))]


def _macro_topology():
    """Residue classes behind the macro keywords: every documented water residue name (VMD list) with the atom
    naming of its force field, modified amino acids and caps, nucleotides, ions, look-alikes that are none of them."""
    import mdtraj as md
    from mdtraj.core import element as elem
    top = md.Topology()
    E = elem.get_by_symbol
    c0 = top.add_chain()
    prev_c = None
    rs = 0
    side = {"ALA": [("CB", "C")], "GLY": [], "SER": [("CB", "C"), ("OG", "O")], "MSE": [("CB", "C"), ("CG", "C"), ("SE", "Se"), ("CE", "C")],
            "SEP": [("CB", "C"), ("OG", "O"), ("P", "P"), ("O1P", "O")], "TPO": [("CB", "C"), ("OG1", "O"), ("CG2", "C"), ("P", "P")],
            "PTR": [("CB", "C"), ("CG", "C")], "HYP": [("CB", "C"), ("CG", "C"), ("OD1", "O")], "SEC": [("CB", "C"), ("SE", "Se")],
            "PYL": [("CB", "C"), ("CG", "C")], "ASX": [("CB", "C"), ("CG", "C")], "GLX": [("CB", "C"), ("CG", "C"), ("CD", "C")],
            "UNK": [("CB", "C")], "CYM": [("CB", "C"), ("SG", "S")], "HIP": [("CB", "C"), ("CG", "C")], "LYN": [("CB", "C"), ("NZ", "N")],
            "HIE": [("CB", "C")], "HID": [("CB", "C")], "GLH": [("CB", "C")], "CYX": [("CB", "C"), ("SG", "S")]}
    r = top.add_residue("ACE", c0, resSeq=0, segment_id="P1")
    a1 = top.add_atom("CH3", E("C"), r)
    prev_c = top.add_atom("C", E("C"), r)
    top.add_bond(a1, prev_c)
    top.add_bond(prev_c, top.add_atom("O", E("O"), r))
    for rn in ["ALA", "MSE", "SEP", "TPO", "GLY", "PTR", "HYP", "SEC", "PYL", "ASX", "GLX", "UNK", "CYM", "HIP", "LYN", "SER",
               "HIE", "HID", "GLH", "CYX"]:
        rs += 1
        r = top.add_residue(rn, c0, resSeq=rs, segment_id="P1")
        n = top.add_atom("N", E("N"), r)
        ca = top.add_atom("CA", E("C"), r)
        c = top.add_atom("C", E("C"), r)
        o = top.add_atom("O", E("O"), r)
        h = top.add_atom("H", E("H"), r)
        for x, y in ((n, ca), (ca, c), (c, o), (n, h)):
            top.add_bond(x, y)
        top.add_bond(prev_c, n)
        prev = ca
        for an, sy in side[rn]:
            a = top.add_atom(an, E(sy), r)
            top.add_bond(prev, a)
            prev = a
        prev_c = c
    r = top.add_residue("NME", c0, resSeq=rs + 1, segment_id="P1")
    n = top.add_atom("N", E("N"), r)
    top.add_bond(prev_c, n)
    top.add_bond(n, top.add_atom("C", E("C"), r))
    c1 = top.add_chain()
    for k, (rn, names) in enumerate(MACRO_WATERS):
        r = top.add_residue(rn, c1, resSeq=100 + k, segment_id="SOLV")
        o = top.add_atom(names[0], E("O"), r)
        for an in names[1:]:
            top.add_bond(o, top.add_atom(an, E("H"), r))
    c2 = top.add_chain()
    for rn, an, sy in [("NA", "NA", "Na"), ("CL", "CL", "Cl"), ("K", "K", "K"), ("MG", "MG", "Mg"), ("ZN", "ZN", "Zn"),
                       ("NA+", "NA+", "Na"), ("CL-", "CL-", "Cl"), ("CA", "CA", "Ca"), ("LIG", "CA", "C"), ("LIG", "O", "O"),
                       ("T3P", "O", "O"), ("hoh", "O", "O"), ("WATER", "O", "O"), ("Ala", "CA", "C"), ("PROT", "N", "N")]:
        r = top.add_residue(rn, c2, resSeq=500, segment_id="")
        top.add_atom(an, E(sy), r)
    c3 = top.add_chain()
    for rn in ("DA", "G", "U", "DT"):
        r = top.add_residue(rn, c3, resSeq=1, segment_id="NA")
        prev = None
        for an, sy in [("P", "P"), ("OP1", "O"), ("O5'", "O"), ("C5'", "C"), ("C4'", "C"), ("O4'", "O"), ("C1'", "C"), ("N9", "N"), ("CA", "C"), ("N", "N"), ("C", "C"), ("O", "O")]:
            a = top.add_atom(an, E(sy), r)
            if prev is not None:
                top.add_bond(prev, a)
            prev = a
    return top


def _subset_top(top, residue_pred, segs=None):
    idx = [a.index for a in top.atoms if residue_pred(a.residue)]
    sub = top.subset(idx)
    if segs:
        for r in sub.residues:
            r.segment_id = segs[r.chain.index % len(segs)]
    return sub


def _make_top(name):
    import mdtraj as md
    if name == "hostile":
        return _hostile_topology()
    if name == "native":
        return md.load(os.path.join(DATA, "native.pdb")).topology
    if name == "2EQQ-12":
        t = md.load(os.path.join(DATA, "2EQQ.pdb")).topology
        return _subset_top(t, lambda r: r.index < 12)
    if name == "tip3p-20":
        t = md.load(os.path.join(DATA, "tip3p_300K_1ATM.pdb")).topology
        return _subset_top(t, lambda r: r.index < 20)
    if name == "4ZUO-mix":
        t = md.load(os.path.join(DATA, "4ZUO.pdb")).topology
        first = {c.index: next(iter(c.residues)).index for c in t.chains}

        def keep(r):
            k = r.index - first[r.chain.index]
            ci = r.chain.index
            return k < 5 if ci in (0, 1) else (True if ci in (2, 3) else k < 6)
        return _subset_top(t, keep, segs=["PROA", "PROB", "", "HETB", "WATA", ""])
    if name == "exotic":
        return _exotic_topology()
    if name == "macro":
        return _macro_topology()
    if name == "empty":
        return md.Topology()
    if name == "single":
        t = md.Topology()
        t.add_atom("CA", md.element.carbon, t.add_residue("ALA", t.add_chain(), resSeq=1))
        return t
    if name == "rna-2koc":       # nucleic acid: primed atom names, one-letter residue names
        t = md.load_topology(os.path.join(DATA, "2koc.pdb"))
        return _subset_top(t, lambda r: r.index < 4)
    if name == "psf-ala3":       # CHARMM PSF: segment ids, CHARMM atom names (HN, HB1, OT1)
        return md.load_topology(os.path.join(DATA, "ala_ala_ala.psf"))
    if name == "prmtop-adp":     # AMBER prmtop: caps + 752 residues in one chain
        t = md.load_topology(os.path.join(DATA, "alanine-dipeptide-explicit.prmtop"))
        return _subset_top(t, lambda r: r.index < 3 or 700 <= r.index < 712)
    if name == "tip4pew-gg":     # virtual sites (mass 0), NH2 cap
        t = md.load_topology(os.path.join(DATA, "GG-tip4pew.pdb"))
        return _subset_top(t, lambda r: r.index < 4 or 100 <= r.index < 108)
    if name == "joined":         # Topology.join: chain/residue/atom indices continue across the parts
        a = md.load(os.path.join(DATA, "native.pdb")).topology
        b = _subset_top(md.load(os.path.join(DATA, "tip3p_300K_1ATM.pdb")).topology, lambda r: r.index < 6)
        return a.join(b).join(_hostile_topology())
    if name == "big-tip4pew":    # atom indices >= 1000 (four digits), residue indices of three digits
        t = md.load_topology(os.path.join(DATA, "GG-tip4pew.pdb"))
        return _subset_top(t, lambda r: r.index < 330)
    if name.startswith("rand:"):
        _, k, n = name.split(":")
        return common.random_topology(common.rng_for("C12top", int(k)), int(n), rich=True, bonds=True)
    raise KeyError(name)


def rand_top_names(tier):
    out = []
    for k in range(N_RAND_TOPS[tier]):
        n = [60, 110, 35, 150, 80, 20][k % 6]
        out.append(f"rand:{k}:{n}")
    return out


# widened input classes: construction routes / file formats / name classes the five fixed topologies do not have
WIDE_TOPS = ["exotic", "macro", "rna-2koc", "psf-ala3", "prmtop-adp", "tip4pew-gg", "joined"]
SPECIAL_TOPS = ["empty", "single", "big-tip4pew"]     # used by dedicated case kinds only


def top_names(tier):
    return FIXED_TOPS + WIDE_TOPS + rand_top_names(tier)


class Pools:
    """Literal values per canonical keyword: present in the topology and absent from it."""

    def __init__(self, table):
        self.present = {}
        for k, (al, canon, ty) in ((r[1], r) for r in ref._KW_ROWS):
            if ty == "bool":
                continue
            vals = []
            for v in table.cols[canon]:
                if v is None or v in vals:
                    continue
                if ty in ("int", "float") and v < 0:
                    continue
                if ty == "str" and ("\\" in v or ("'" in v and '"' in v) or "\n" in v):
                    continue
                vals.append(v)
            self.present[canon] = vals[:60]


def get_top(name):
    if name not in _TOPS:
        top = _make_top(name)
        table = ref.AtomTable(top)
        _TOPS[name] = (top, table, Pools(table))
    return _TOPS[name]


# ------------------------------------------------------------------------------------------- expression generation
BOOL_ALIASES = [a for al, c, ty in ref._KW_ROWS if ty == "bool" for a in al]
STR_KW = {c: list(al) for al, c, ty in ref._KW_ROWS if ty == "str"}
NUM_KW = {c: list(al) for al, c, ty in ref._KW_ROWS if ty in ("int", "float")}
CMP_ALL = ["<", "lt", "<=", "le", "==", "eq", "!=", "ne", ">=", "ge", ">", "gt"]
CMP_STR = ["==", "eq", "!=", "ne"]
ABSENT_STR = ["XX", "Q9", "CA1", "ala", "Zz"]


def fmt_num(v, rng=None, style=None):
    if isinstance(v, float):
        if style == "round" or (rng is not None and rng.random() < 0.5):
            v = round(v, int(rng.integers(0, 3)) if rng is not None else 1)
        s = repr(float(v))
        if "e" in s or "inf" in s or "nan" in s:
            s = "1.5"
        if s.endswith(".0") and rng is not None and rng.random() < 0.5:
            s = s[:-2] if rng.random() < 0.7 else s[:-1]
        if s.startswith("0.") and len(s) > 2 and rng is not None and rng.random() < 0.3:
            s = s[1:]
        return s
    return str(int(v))


def str_lit(v, rng=None, form=None):
    forms = ref.quote_forms(v)
    if not forms:
        return None
    if form is not None:
        return forms[form % len(forms)]
    return forms[int(rng.integers(len(forms)))]


REGEX_FIXED = ["C.*", "C[1-4]", "H", "A", ".*A", "^C$", "CA|CB", "[A-Z]+", ".", "O", "N.?", "(H|O).*", "[^C]", "C", "S"]


def regex_for(v, rng):
    r = rng.random()
    if v and r < 0.25:
        return v[0] + ".*"
    if v and r < 0.4:
        return v[-1]
    if v and r < 0.5:
        return v[:1] + "[" + v[1:2] + "1-9]" if len(v) > 1 and v[1:2].isalnum() else v[0]
    if v and r < 0.6 and v.isalnum():
        return v
    return REGEX_FIXED[int(rng.integers(len(REGEX_FIXED)))]


def safe_regex(pat):
    if "'" in pat and '"' in pat or "\\" in pat:
        return False
    try:
        re.compile(pat)
    except re.error:
        return False
    return True


def quote_always(v, rng=None):
    if "'" not in v:
        if '"' not in v and rng is not None and rng.random() < 0.4:
            return '"' + v + '"'
        return "'" + v + "'"
    return '"' + v + '"'


def pick_str(rng, pools, canon):
    vals = pools.present.get(canon, [])
    if vals and rng.random() < 0.75:
        return vals[int(rng.integers(len(vals)))]
    return ABSENT_STR[int(rng.integers(len(ABSENT_STR)))]


def pick_num(rng, pools, canon):
    vals = pools.present.get(canon, [])
    if vals and rng.random() < 0.8:
        v = vals[int(rng.integers(len(vals)))]
        if canon == "mass":
            return v + float(rng.choice([0.0, 0.0, 0.5, -0.5, 1e-3])) if v > 1 else v
        return max(0, int(v) + int(rng.choice([0, 0, 0, 1, -1, 2])))
    return float(rng.choice([0.0, 5.5, 12.0, 500.0])) if canon == "mass" else int(rng.choice([0, 1, 7, 999]))


def rand_primary(rng, pools):
    """A depth-0 term as text."""
    r = rng.random()
    if r < 0.16:
        return BOOL_ALIASES[int(rng.integers(len(BOOL_ALIASES)))], "prim"
    is_str = rng.random() < 0.5
    if is_str:
        canon = list(STR_KW)[int(rng.integers(len(STR_KW)))]
        kw = STR_KW[canon][int(rng.integers(len(STR_KW[canon])))]
        lit = lambda: str_lit(pick_str(rng, pools, canon), rng) or "'XX'"  # noqa: E731
        if r < 0.40:
            return f"{kw} {lit()}", "prim"
        if r < 0.55:
            return f"{kw} " + " ".join(lit() for _ in range(int(rng.integers(2, 5)))), "prim"
        if r < 0.85:
            op = CMP_STR[int(rng.integers(len(CMP_STR)))]
            if rng.random() < 0.2:
                return f"{lit()} {op} {kw}", "cmp"
            return f"{kw} {op} {lit()}", "cmp"
        pat = regex_for(pick_str(rng, pools, canon), rng)
        if not safe_regex(pat):
            pat = "C.*"
        sp = pat if (ref.BARE_RE.match(pat) and pat not in ref.RESERVED and rng.random() < 0.3) else quote_always(pat, rng)
        return f"{kw} =~ {sp}", "cmp"
    canon = list(NUM_KW)[int(rng.integers(len(NUM_KW)))]
    kw = NUM_KW[canon][int(rng.integers(len(NUM_KW[canon])))]
    lit = lambda: fmt_num(pick_num(rng, pools, canon), rng)  # noqa: E731
    if r < 0.36:
        return f"{kw} {lit()}", "prim"
    if r < 0.50:
        return f"{kw} " + " ".join(lit() for _ in range(int(rng.integers(2, 5)))), "prim"
    if r < 0.66:
        a, b = pick_num(rng, pools, canon), pick_num(rng, pools, canon)
        if rng.random() < 0.8 and a > b:
            a, b = b, a
        if rng.random() < 0.5:
            b = b + (5 if canon != "mass" else 6.5)
        return f"{kw} {fmt_num(a, rng)} to {fmt_num(b, rng)}", "prim"
    op = CMP_ALL[int(rng.integers(len(CMP_ALL)))]
    if rng.random() < 0.25:
        return f"{lit()} {op} {kw}", "cmp"
    return f"{kw} {op} {lit()}", "cmp"


# gen-side trees: ("t", text, cls) | ("not", sp, child) | ("and"/"or", [sp...], [children])
PREC = {"or": 1, "and": 2, "not": 3, "t": 4}


def render(node, rng=None, redundant=0.0, amb=0.0, tight_not=0.0):
    kind = node[0]
    if kind == "t":
        s = node[1]
        if rng is not None and redundant and rng.random() < redundant:
            s = "(" + s + ")"
        return s
    if kind == "not":
        sp, child = node[1], node[2]
        cs = render(child, rng, redundant, amb, tight_not)
        need = PREC[child[0]] < PREC["not"] or (child[0] == "t" and child[2] == "cmp")
        if child[0] == "t" and child[2] == "cmp" and rng is not None and rng.random() < amb and not cs.startswith("("):
            need = False
        if need and not (cs.startswith("(") and _balanced_outer(cs)):
            cs = "(" + cs + ")"
        if sp == "!" and rng is not None and rng.random() < tight_not:
            s = "!" + cs
        else:
            s = sp + " " + cs
    else:
        sps, kids = node[1], node[2]
        parts = []
        for k in kids:
            ks = render(k, rng, redundant, amb, tight_not)
            if PREC[k[0]] < PREC[kind] or (k[0] == kind and rng is not None and rng.random() < 0.25):
                ks = "(" + ks + ")"
            parts.append(ks)
        s = parts[0]
        for sp, ks in zip(sps, parts[1:]):
            s += f" {sp} {ks}"
    if rng is not None and redundant and rng.random() < redundant:
        s = "(" + s + ")"
    return s


def _balanced_outer(s):
    """True if the first '(' matches the last ')'."""
    if not (s.startswith("(") and s.endswith(")")):
        return False
    d = 0
    q = None
    for i, ch in enumerate(s):
        if q:
            if ch == q:
                q = None
            continue
        if ch in "'\"":
            q = ch
        elif ch == "(":
            d += 1
        elif ch == ")":
            d -= 1
            if d == 0 and i < len(s) - 1:
                return False
    return True


def rand_tree(rng, depth, pools, flat=False):
    """Thin random tree: one operand carries the full remaining depth, the others are shallow."""
    if depth <= 0:
        txt, cls = rand_primary(rng, pools)
        return ("t", txt, cls)
    r = rng.random()
    if r < 0.22:
        return ("not", ["not", "!"][int(rng.integers(2))], rand_tree(rng, depth - 1, pools, flat))
    kind = "and" if r < 0.58 else "or"
    n = int(rng.choice([2, 2, 2, 2, 3]))
    kids = [rand_tree(rng, depth - 1 if i == 0 else min(int(rng.integers(0, depth)), int(rng.choice([0, 0, 1, 1, 2]))),
                      pools, flat) for i in range(n)]
    order = rng.permutation(n)
    kids = [kids[i] for i in order]
    sp = {"and": ["and", "&&"], "or": ["or", "||"]}[kind]
    sps = [sp[int(rng.integers(2))] for _ in range(n - 1)]
    return (kind, sps, kids)


def flat_tree(rng, pools):
    """or of ands of (not) primaries: depth 3 without any parenthesis."""
    def lit():
        txt, cls = rand_primary(rng, pools)
        while cls == "cmp" and rng.random() < 0.5:
            txt, cls = rand_primary(rng, pools)
        t = ("t", txt, cls)
        if cls != "cmp" and rng.random() < 0.3:
            return ("not", ["not", "!"][int(rng.integers(2))], t)
        return t
    ors = []
    for _ in range(int(rng.integers(1, 4))):
        n = int(rng.integers(1, 4))
        kids = [lit() for _ in range(n)]
        ors.append(kids[0] if n == 1 else ("and", [["and", "&&"][int(rng.integers(2))] for _ in range(n - 1)], kids))
    if len(ors) == 1:
        return ors[0]
    return ("or", [["or", "||"][int(rng.integers(2))] for _ in range(len(ors) - 1)], ors)


# --- exhaustive alphabets (fixed literals: meaningful on every topology)
D0_REDUCED = [("protein", "prim"), ("name CA", "prim"), ("index < 40", "cmp"), ("resid ge 3", "cmp")]
D1_TERMS = [("index < 40", "cmp"), ("index lt 30", "cmp"), ("resid <= 4", "cmp"), ("resid le 6", "cmp"),
            ("residue == 2", "cmp"), ("resSeq eq 3", "cmp"), ("chainid != 1", "cmp"), ("index ne 3", "cmp"),
            ("mass >= 12", "cmp"), ("mass ge 14.5", "cmp"), ("n_bonds > 1", "cmp"), ("resi gt 2", "cmp"),
            ("5 <= index", "cmp"), ("name == CA", "cmp"), ("resname ne 'ALA'", "cmp"), ("water", "prim"),
            ("backbone", "prim"), ("name CA CB O", "prim"), ("resid 1 to 3", "prim"), ("name =~ 'C[1-4A]'", "cmp"),
            ("type O", "prim")]
BOOL_SP = [("and", "and"), ("and", "&&"), ("or", "or"), ("or", "||")]
NOT_SP = ["not", "!"]


def exhaustive_depth1():
    out = []
    for (a, b) in itertools.product(D1_TERMS, D1_TERMS):
        for kind, sp in BOOL_SP:
            out.append(render((kind, [sp], [("t",) + a, ("t",) + b])))
    for t in D1_TERMS:
        for sp in NOT_SP:
            out.append(render(("not", sp, ("t",) + t)))
    return out


def exhaustive_depth2():
    """All trees of depth <= 2 over D0_REDUCED x {not,!} x {and,&&,or,||} (binary connectives)."""
    d0 = [("t",) + t for t in D0_REDUCED]
    d1 = [("not", sp, t) for sp in NOT_SP for t in d0]
    d1 += [(kind, [sp], [a, b]) for a in d0 for b in d0 for kind, sp in BOOL_SP]
    le1 = d0 + d1
    out = [render(t) for t in le1]
    for sp in NOT_SP:
        for t in d1:
            out.append(render(("not", sp, t)))
    for a in le1:
        for b in le1:
            if a[0] == "t" and b[0] == "t":
                continue
            for kind, sp in BOOL_SP:
                out.append(render((kind, [sp], [a, b])))
    return out


def depth0_terms(pools, rng):
    """Every keyword alias in every documented depth-0 form (literals drawn from the topology)."""
    out = list(BOOL_ALIASES)
    for canon, aliases in STR_KW.items():
        vals = pools.present.get(canon, [])
        present = vals[int(rng.integers(len(vals)))] if vals else "XX"
        other = vals[int(rng.integers(len(vals)))] if vals else "YY"
        for kw in aliases:
            for v in (present, "XX"):
                for f in ref.quote_forms(v):
                    out.append(f"{kw} {f}")
            forms = [str_lit(x, rng) for x in (present, other, "XX")]
            forms = [f for f in forms if f]
            out.append(f"{kw} " + " ".join(forms))
            out.append(f"{kw} " + " ".join(reversed(forms[:2])))
            for fi, op in enumerate(CMP_STR):
                f = str_lit(present, form=fi)
                if f:
                    out.append(f"{kw} {op} {f}")
                    out.append(f"{f} {op} {kw}")
            for pat in (present[:1] + ".*" if present else "C.*", present[-1:] if present else "A", "C[1-4]", present):
                if pat and safe_regex(pat):
                    out.append(f"{kw} =~ {quote_always(pat)}")
    for canon, aliases in NUM_KW.items():
        vals = sorted(pools.present.get(canon, [])) or [0]
        mid = vals[len(vals) // 2]
        lo = vals[len(vals) // 4]
        hi = vals[(3 * len(vals)) // 4]
        fm = (lambda v: repr(float(v)) if isinstance(v, float) else str(int(v)))
        for kw in aliases:
            out.append(f"{kw} {fm(mid)}")
            out.append(f"{kw} 99999")
            out.append(f"{kw} {fm(lo)} {fm(mid)} {fm(hi)}")
            for op in CMP_ALL:
                out.append(f"{kw} {op} {fm(mid)}")
            out.append(f"{fm(mid)} <= {kw}")
            out.append(f"{fm(mid)} gt {kw}")
            out.append(f"{kw} {fm(lo)} to {fm(hi)}")
            out.append(f"{kw} {fm(mid)} to {fm(mid)}")
            out.append(f"{kw} {fm(hi)} to {fm(lo)}")
            if canon == "mass":
                out.append(f"{kw} 5.5 to 20")
                out.append(f"{kw} .5 to 12.5")
                out.append(f"{kw} 1. to 16.")
    return out


MALFORMED_FIXED = ["", " ", "\t\n", "(", ")", "()", "(protein", "protein)", "((protein)", "(protein))", "protein and ()",
                   "protein and", "protein or", "protein &&", "protein ||", "and protein", "or water", "&& protein",
                   "|| water", "protein and not", "protein and !", "not", "!", "index <", "< 5", "index ==", "eq 5",
                   "name =~", "=~ 'C'", "protein and and water", "protein or or water", "protein && || water",
                   "protein and or water", "index < < 5", "index == != 5", "index lt gt 5", "index < and 5",
                   "resid 10 to", "resid to 30", "mass to", "index to 5", "(resid 10 to) and protein",
                   "resSeq 5 to and water", "protein or resi to 4", "CA", "5", "5.5", "'CA'", "\"x\"", "(CA)",
                   "protein and CA", "CA or water", "not CA", "! 5", "protein and 5", "CA and CB", "(5) or protein",
                   "protein and (CA)", "CA == CB", "5 < 6", "'a' eq 'a'", "protein and 5 < 6", "water or 'HOH'",
                   "resname ALA or GLY", "name CA and CB"]


def malformed_from(rng, pools):
    w = lambda: render(rand_tree(rng, int(rng.integers(0, 2)), pools), rng)  # noqa: E731
    bo = ["and", "or", "&&", "||"]
    b = lambda: bo[int(rng.integers(4))]  # noqa: E731
    cm = lambda: CMP_ALL[int(rng.integers(12))]  # noqa: E731
    nk = lambda: NUM_KW[list(NUM_KW)[int(rng.integers(len(NUM_KW)))]][0]  # noqa: E731
    k = int(rng.integers(0, 16))
    if k == 0:
        return f"({w()}"
    if k == 1:
        return f"{w()})"
    if k == 2:
        return f"{w()} {b()} ({w()}"
    if k == 3:
        return f"{w()} {b()}"
    if k == 4:
        return f"{b()} {w()}"
    if k == 5:
        return f"{w()} {b()} {b()} {w()}"
    if k == 6:
        return f"{w()} {b()} {['not', '!'][int(rng.integers(2))]}"
    if k == 7:
        return f"{nk()} {cm()} {cm()} {int(rng.integers(0, 50))}"
    if k == 8:
        return f"{nk()} {cm()}"
    if k == 9:
        return f"{cm()} {int(rng.integers(0, 50))} {b()} {w()}"
    if k == 10:
        return f"{nk()} {int(rng.integers(0, 50))} to"
    if k == 11:
        return f"{w()} {b()} {nk()} to {int(rng.integers(0, 50))}"
    if k == 12:
        return f"{w()} {b()} {['CA', '5', chr(39) + 'HOH' + chr(39), 'XX', '2.5'][int(rng.integers(5))]}"
    if k == 13:
        return f"{['CA', '7', chr(34) + 'O' + chr(34)][int(rng.integers(3))]} {b()} {w()}"
    if k == 14:
        return f"({w()}) {b()} ()"
    return f"{w()} {b()} {int(rng.integers(0, 9))} {cm()} {int(rng.integers(0, 9))}"


# ------------------------------------------------------------------------------- widened input classes (generators)
MALFORMED_WIDE = ["name 'CA", 'name "CA', "name CA'", "resname 'ALA\" or water", "'", "protein and name 'O", "protein & water",
                  "protein | water", "protein &&& water", "index = 5", "index === 5", "index => 5", "index =< 5", "index <> 5",
                  "index =! 5", "name CA, CB", "name CA;", "protein; water", "resid 1:5", "resid [1, 2]", "resid {1 2}",
                  "name CA?", "name C# or water", "water @ 5", "protein ^ water", "~protein", "name `CA`", "mass $5", "index 5%",
                  "Protein", "WATER and name O", "All", "NOT protein", "protein AND water", "protein OR water", "protein Or water",
                  "Backbone or sidechain", "is_Protein", "protein and Water", "protein and (Water)", "! Protein",
                  "water or", "(water or) protein", "protein and (or water)", "(and)", "(!)", "(not) protein", "to", "5 to 6",
                  "to 5 6", "resid 5 to 6 to 7 and", "index < 5 <", "< index 5", "=~ name", "name =~ =~ 'C'", "name =~ and water",
                  "'CA' =~ 'C'", "5 =~ 5", "\"a\" == 'a'", "5 == 5.0", "CA != CB or protein", "(", "((", "))", ")(",
                  "protein ) (", "(protein) (", "not ()", "!()", "(()) and protein", "protein and ((water)"]
REGEX_ESC = [r"C\d", r"H\w*", r"\w+\d$", r"[A-Z]+\d?$", r"\w\w$", r"H\d+", r"\D+$", r"\S+\s\S+", r"O5\*", r"\(R\)", r"a\.b",
             r"N\+", r"A\|B", r"x\)y", r"\[N\]", r"[^\d]+$", r"\w+'$", r"C\d'", "(?i)ca", "(?i)c[ab]$", "(?s).", "C.{1,2}$",
             r"C\w{1}$", "(?:CA|CB)$", "(?!H).*", "(?i)h.*|o", "[a-z]+$", r"\w+[+-]$", r".*\s.*", r"\d+$"]


def _sample(items, n, rng):
    if n >= len(items):
        return list(items)
    return [items[int(j)] for j in sorted(rng.choice(len(items), n, replace=False))]


def xlit_terms(pools):
    """Every string value of the topology, in every quote form and every depth-0/1 position."""
    out = []
    for canon in ("name", "resname", "segment_id", "type"):
        vals = pools.present.get(canon, [])
        for ai, kw in enumerate(STR_KW[canon]):
            for vi, v in enumerate(vals):
                forms = ref.quote_forms(v)
                if not forms:
                    continue
                g = ref.quote_forms(vals[(vi + 1) % len(vals)])
                f0 = forms[(vi + ai) % len(forms)]
                g0 = g[(vi + 1) % len(g)] if g else "'XX'"
                if ai == 0 or vi % 3 == ai % 3:
                    out += [f"{kw} {f}" for f in forms]
                out += [f"{kw} == {f0}", f"{f0} != {kw}", f"not {kw} {f0}", f"{kw} {f0} {g0}", f"{kw} {g0} {f0} 'XX'",
                        f"protein or {kw} {f0}", f"{kw} {f0} and all", f"! ({kw} ne {f0})"][:8 if ai == 0 else 3]
    return out


def caseflip_terms(pools, rng):
    out = []
    for canon, aliases in STR_KW.items():
        vals = [v for v in pools.present.get(canon, []) if v and any(ch.isalpha() for ch in v)]
        if not vals:
            continue
        for kw in aliases:
            v = vals[int(rng.integers(len(vals)))]
            for v2 in {v.lower(), v.upper(), v.swapcase(), v.capitalize()} - {v}:
                f, f2 = str_lit(v, rng), str_lit(v2, rng)
                if not f or not f2:
                    continue
                out += [f"{kw} {f2}", f"{kw} {f} {f2}", f"{kw} != {f2}", f"{kw} {f} and not {kw} {f2}"]
                if v.isalnum():
                    out.append(f"{kw} =~ '(?i){v2}$'")
                    out.append(f"{kw} =~ '{v2}'")
    return out


def numlit_terms(pools):
    """Numeric literal forms the documentation allows (integer and floating point) on keywords of the other type."""
    out = []
    for canon, aliases in NUM_KW.items():
        vals = sorted(set(pools.present.get(canon, []))) or [0]
        lo, v, hi = vals[len(vals) // 4], vals[len(vals) // 2], vals[(3 * len(vals)) // 4]
        for kw in aliases:
            if canon == "mass":
                a, b, c = int(lo), int(v), int(hi)
                out += [f"{kw} {b}", f"{kw} {a} to {c + 1}", f"{kw} > {b}", f"{kw} <= {b}", f"{b} lt {kw}", f"{kw} {a} {b} {c}",
                        f"{kw} {repr(float(v))}", f"{kw} {repr(float(v))} {repr(float(lo))}", f"{kw} == {repr(float(v))}",
                        f"{kw} != {repr(float(v))}", f"{kw} {repr(float(v))} to {repr(float(v))}", f"{kw} 0 to 0", f"{kw} 0"]
                continue
            a, b, c = int(lo), int(v), int(hi)
            out += [f"{kw} {b}.0", f"{kw} {b}.", f"{kw} {b}.5", f"{kw} < {b}.5", f"{b}.5 >= {kw}", f"{kw} >= {b}.0",
                    f"{kw} {a}.5 to {c}.5", f"{kw} {a}.0 to {c}.", f"{kw} {b}. {c}.0 {a}", f"{kw} == {b}.0", f"{kw} != {b}.00",
                    f"{kw} ne {b}.25", f"{kw} .5 to {b}.5", f"{kw} 0.0", f"not {kw} {b}.0"]
    return out


def long_case(rng, pools):
    r = rng.random()
    if r < 0.35:      # long in-list
        is_str = rng.random() < 0.5
        canon = list(STR_KW if is_str else NUM_KW)[int(rng.integers(len(STR_KW if is_str else NUM_KW)))]
        kw = (STR_KW if is_str else NUM_KW)[canon]
        kw = kw[int(rng.integers(len(kw)))]
        n = int(rng.integers(8, 41))
        if is_str:
            items = [str_lit(pick_str(rng, pools, canon), rng) or "'XX'" for _ in range(n)]
        else:
            items = [fmt_num(pick_num(rng, pools, canon), rng) for _ in range(n)]
        return f"{kw} " + " ".join(items), "inlist"
    n = int(rng.integers(6, 21))
    kids = []
    for _ in range(n):
        txt, cls = rand_primary(rng, pools)
        t = ("t", txt, cls)
        if cls != "cmp" and rng.random() < 0.2:
            t = ("not", ["not", "!"][int(rng.integers(2))], t)
        kids.append(t)
    if r < 0.6:
        kind = "and" if rng.random() < 0.4 else "or"
        sp = {"and": ["and", "&&"], "or": ["or", "||"]}[kind]
        return render((kind, [sp[int(rng.integers(2))] for _ in range(n - 1)], kids), rng), "chain-" + kind
    # or of ands, no parentheses
    groups, i = [], 0
    while i < n:
        m = int(rng.integers(1, 5))
        g = kids[i:i + m]
        i += m
        groups.append(g[0] if len(g) == 1 else ("and", [["and", "&&"][int(rng.integers(2))] for _ in range(len(g) - 1)], g))
    if len(groups) == 1:
        return render(groups[0], rng), "chain-and"
    return render(("or", [["or", "||"][int(rng.integers(2))] for _ in range(len(groups) - 1)], groups), rng), "chain-mixed"


JUDGED_PAREN_DEPTH = 8       # the parser of the unchanged tree accepts 10 nested parentheses from an empty stack
JUDGED_NOT_PAREN = 6         # ... and 8 nested `not (`
JUDGED_NOT_CHAIN = 20        # ... and 40 consecutive negations


def deep_case(rng, pools, beyond=False):
    """(expression, shape, depth).  beyond: nesting deeper than the bound up to which the property is judged."""
    txt, cls = rand_primary(rng, pools)
    if rng.random() < 0.4:
        t2, _ = rand_primary(rng, pools)
        txt = f"{txt} {['and', 'or', '&&', '||'][int(rng.integers(4))]} {t2}"
        cls = "bool"
    shape = ["parens", "not-parens", "not-chain", "left-nest", "right-nest"][int(rng.integers(5))]
    if shape == "parens":
        k = int(rng.integers(11, 31)) if beyond else int(rng.integers(3, JUDGED_PAREN_DEPTH + 1))
        return "(" * k + txt + ")" * k, shape, k
    if shape == "not-parens":
        k = int(rng.integers(9, 25)) if beyond else int(rng.integers(2, JUDGED_NOT_PAREN + 1))
        sp = [["not ", "!", "! ", "not"][int(rng.integers(4))] for _ in range(k)]
        return "".join(x + "(" for x in sp) + txt + ")" * k, shape, k
    if shape == "not-chain":
        k = int(rng.integers(80, 200)) if beyond else int(rng.integers(2, JUDGED_NOT_CHAIN + 1))
        core = txt if cls == "prim" else "(" + txt + ")"
        return "".join(["not ", "!", "! "][int(rng.integers(3))] for _ in range(k)) + core, shape, k
    k = int(rng.integers(11, 25)) if beyond else int(rng.integers(3, 7))    # parse time grows steeply with k
    e = "(" + txt + ")" if cls != "prim" else txt
    for _ in range(k):
        t2, c2 = rand_primary(rng, pools)
        if c2 != "prim":
            t2 = "(" + t2 + ")"
        op = ["and", "or", "&&", "||"][int(rng.integers(4))]
        e = f"({e} {op} {t2})" if shape == "left-nest" else f"({t2} {op} {e})"
    return e, shape, k


def regesc_terms(pools, rot):
    out = []
    kws = [kw for c in ("name", "resname", "type", "segment_id") for kw in STR_KW[c]]
    for j, pat in enumerate(REGEX_ESC):
        kw = kws[(j + rot) % len(kws)]
        q = "'" if "'" not in pat else '"'
        out.append(f"{kw} =~ {q}{pat}{q}")
        q2 = '"' if '"' not in pat and "'" not in pat else q
        out.append([f"not {kw} =~ {q2}{pat}{q2}", f"protein or {kw} =~ {q2}{pat}{q2}", f"{kw} =~ {q2}{pat}{q2} and index < 40",
                    f"!({kw} =~ {q2}{pat}{q2})"][(j + rot) % 4])
    return out


def bigindex_terms(n_atoms, n_res, rng):
    out = []
    marks = [9, 10, 99, 100, 999, 1000, 1001, 1023, 1024, n_atoms - 1, n_atoms, n_atoms + 1]
    for m in marks:
        a, b = max(0, m - int(rng.integers(0, 4))), m + int(rng.integers(0, 4))
        out += [f"index {a} to {b}", f"index >= {m}", f"index {m}", f"not index < {m}", f"{m} <= index",
                f"index {m} {a} {b} {m + 1000}", f"index > {a} and index lt {b}", f"index {m}.0", f"index != {m}"]
    for m in [9, 10, 99, 100, n_res - 1, n_res]:
        out += [f"resid {max(0, m - 2)} to {m}", f"resid > {m - 1}", f"resi {m}", f"resid {m} {m + 1} {m - 1 if m else 0}"]
    out += [f"index {n_atoms - 3} to 99999999", "index 0 to 100000", f"index 1000 to {n_atoms} and name O",
            "index 1000 1001 1002 1003 1004 1005 1006 1007 1008 1009 1010", f"resid 0 to {n_res}"]
    return out


TINY_TERMS = BOOL_ALIASES + [t for t, _ in D1_TERMS] + ["not all", "all and none", "name CA or resname ALA", "index 0",
                                                        "index 0 to 0", "resid 0", "chainid 0", "(all)", "! none"]
HIST_EXPRS = ["water", "protein", "backbone or sidechain", "name CA", "name QQ", "resname HOH", "resname ALA GLY", "rescode A",
              "n_bonds >= 2", "n_bonds 0", "residue 1 to 3", "resSeq 777", "segname SEGA", "segment_id 'NEW'", "type C",
              "element Se", "mass > 13", "index < 7", "index 5 to 400", "resid 2", "chainid 0", "chainid 1 to 9",
              "not water and not protein", "all", "none", "name =~ 'Q.*'", "sidechain and not name CB", "is_water or resn SOL"]
MUTATIONS = ["rename-atom", "rename-residue-to-water", "rename-residue-to-protein", "renumber-residue", "set-segment",
             "add-bond", "add-atom", "add-chain-residue-atom", "delete-atom", "change-element", "insert-atom"]
HIST_BASES = ["hostile", "macro", "exotic"]
GROUP_OPTIONS = ["all", "alpha", "minimal", "heavy", "water"]


def gen_wide(tier, seed, case, tops):
    quick = tier == "quick"
    rs = common.rng_for("C12wide", seed, tier)
    # malformed: illegal characters, unterminated quotes, upper-case look-alikes of keywords and connectives
    for j, e in enumerate(MALFORMED_WIDE):
        yield case("malformed", tops[(j + seed) % len(tops)], e, 0)
    # every unusual literal of the name-rich topologies in every position
    for t in ("exotic", "hostile", "rna-2koc", "macro", "psf-ala3"):
        terms = xlit_terms(get_top(t)[2])
        for e in (_sample(terms, 60 if t == "exotic" else 25, rs) if quick else terms):
            yield case("xlit", t, e, 1)
    for ti, t in enumerate(tops):
        pools = get_top(t)[2]
        rng = common.rng_for("C12wideTop", seed, t)
        cf = caseflip_terms(pools, rng)
        nl = numlit_terms(pools)
        rx = regesc_terms(pools, ti + seed)
        for e in (_sample(cf, 5, rng) if quick else cf):
            yield case("caseflip", t, e, 1)
        for e in (_sample(nl, 6, rng) if quick else nl):
            yield case("numlit", t, e, 1)
        for e in (_sample(rx, 5, rng) if quick else rx):
            yield case("regesc", t, e, 1)
    for j in range(50 if quick else 500):
        rng = common.rng_for("C12long", seed, j)
        t = tops[int(rng.integers(len(tops)))]
        e, shape = long_case(rng, get_top(t)[2])
        yield case("long", t, e, 1, shape=shape)
    for j in range(28 if quick else 300):
        rng = common.rng_for("C12deep", seed, j)
        t = tops[int(rng.integers(len(tops)))]
        beyond = j % 7 == 6
        e, shape, k = deep_case(rng, get_top(t)[2], beyond)
        yield case("deep", t, e, 0 if beyond else 1, shape=shape, depth=k, beyond=int(beyond))
    top, table, _ = get_top("big-tip4pew")
    terms = bigindex_terms(table.n, top.n_residues, common.rng_for("C12big", seed))
    for e in (_sample(terms, 40, rs) if quick else terms):
        yield case("bigindex", "big-tip4pew", e, 1)
    for t in ("empty", "single"):
        for e in (_sample(TINY_TERMS, 20, rs) if quick else TINY_TERMS):
            yield case("tiny", t, e, 1)
    # histories: the topology changes between two evaluations of the same expressions
    for bi, base in enumerate(HIST_BASES):
        for mi, m in enumerate(MUTATIONS):
            if quick and (mi + bi + seed) % 3 == 2 and base != "hostile":
                continue
            yield case("history", base, "", 0, steps=[m])
    for j in range(0 if quick else 60):
        rng = common.rng_for("C12hist", seed, j)
        yield case("history", HIST_BASES[j % 3], "", 0, steps=[MUTATIONS[int(k)] for k in rng.integers(len(MUTATIONS), size=3)])
    for j in range(12 if quick else 100):
        rng = common.rng_for("C12two", seed, j)
        a, b = [tops[int(k)] for k in rng.choice(len(tops), 2, replace=False)]
        yield case("twotops", a, "", 0, other=b)
    # named atom groups and pair generation
    for t in tops + SPECIAL_TOPS:
        yield case("groups", t, "", 0)
        yield case("pairs", t, "", 0)


NCASES = {"quick": dict(d1=400, d2=440, rand=600, flat=440, malformed=180, spacing=200),
          "thorough": dict(rand=7000, flat=3000, malformed=2500, spacing=1500)}
MAXTOK = {"quick": 40, "thorough": 60}


def gen_cases(tier, seed):
    """The stream is shuffled (seeded) so that a budget cut thins every kind of case evenly."""
    cases = list(_gen_cases(tier, seed))
    order = common.rng_for("C12order", seed, tier).permutation(len(cases))
    for i, j in enumerate(order):
        c = cases[int(j)]
        c["i"] = i
        yield c


def _gen_cases(tier, seed):
    tops = top_names(tier)
    i = 0

    def case(kind, top, expr, nvar, **kw):
        nonlocal i
        c = dict(i=i, kind=kind, top=top, expr=expr, nvar=nvar, seed=common.case_seed(seed, "C12", i))
        c.update(kw)
        i += 1
        return c

    for t in tops:
        yield case("meaning", t, "all", 0)
    # (a) depth-0 alphabet
    for ti, t in enumerate(tops):
        top, table, pools = get_top(t)
        terms = depth0_terms(pools, common.rng_for("C12d0", t))
        for j, e in enumerate(terms):
            if tier == "thorough" or (j + seed) % len(tops) == ti:
                yield case("d0", t, e, 1)
    # (b) exhaustive small depths
    d1 = exhaustive_depth1()
    d2 = exhaustive_depth2()
    rs = common.rng_for("C12sample", seed)
    if tier == "thorough":
        for j, e in enumerate(d1):
            yield case("d1", tops[j % len(tops)], e, 1)
        for j, e in enumerate(d2):
            # the set is closed under respelling, so no rewrites; select_expression on every 4th
            yield case("d2", tops[(j // 7) % len(tops)], e, 0, l3=int(j % 4 == 0))
    else:
        for j in rs.choice(len(d1), NCASES[tier]["d1"], replace=False):
            yield case("d1", tops[int(j) % len(tops)], d1[int(j)], 1)
        for j in rs.choice(len(d2), NCASES[tier]["d2"], replace=False):
            yield case("d2", tops[(int(j) // 7) % len(tops)], d2[int(j)], 1)
    # (c) random trees
    for j in range(NCASES[tier]["rand"]):
        rng = common.rng_for("C12rand", seed, j)
        t = tops[int(rng.integers(len(tops)))]
        pools = get_top(t)[2]
        depth = int(rng.choice([1, 2, 2, 3, 3, 4, 5, 6] if tier == "thorough" else [1, 1, 2, 2, 2, 3, 3, 4, 5, 6]))
        for _ in range(20):
            tree = rand_tree(rng, depth, pools)
            e = render(tree, rng, redundant=float(rng.choice([0, 0, 0, 0.15])), amb=0.25, tight_not=0.5)
            if e.count(" ") + e.count("(") < MAXTOK[tier]:
                break
            depth = max(1, depth - 1)
        yield case("rand", t, e, 2 if tier == "quick" else 3, depth=depth)
    for j in range(NCASES[tier]["flat"]):
        rng = common.rng_for("C12flat", seed, j)
        t = tops[int(rng.integers(len(tops)))]
        e = render(flat_tree(rng, get_top(t)[2]), rng, redundant=0.0, amb=0.1, tight_not=0.5)
        yield case("flat", t, e, 2)
    # (d) malformed
    for j, e in enumerate(MALFORMED_FIXED):
        yield case("malformed", tops[j % len(tops)], e, 0)
    for j in range(NCASES[tier]["malformed"]):
        rng = common.rng_for("C12mal", seed, j)
        t = tops[int(rng.integers(len(tops)))]
        yield case("malformed", t, malformed_from(rng, get_top(t)[2]), 0)
    # (e) spacing
    for j in range(NCASES[tier]["spacing"]):
        rng = common.rng_for("C12space", seed, j)
        t = tops[int(rng.integers(len(tops)))]
        tree = rand_tree(rng, int(rng.choice([0, 1, 1, 2])), get_top(t)[2])
        yield case("spacing", t, render(tree, rng, redundant=0.3, amb=0.0), 0)
    yield from gen_wide(tier, seed, case, tops)


# ------------------------------------------------------------------------------------------------ real executions
class Real:
    __slots__ = ("outcome", "idx", "exc", "msg", "arr", "src")

    def __init__(self, outcome, idx=None, exc=None, msg="", arr=None):
        self.outcome, self.idx, self.exc, self.msg, self.arr = outcome, idx, exc, msg, arr
        self.src = None

    def same(self, other):
        if self.outcome != other.outcome:
            return False
        return self.outcome != "ok" or self.idx == other.idx

    def brief(self):
        if self.outcome == "ok":
            return f"selects {len(self.idx)} atoms {self.idx[:12]}"
        return f"{self.outcome} ({self.exc}: {self.msg[:90]})"


def _in_fresh_thread(fn):
    """Run fn on a new thread: every real call starts from the same (minimal) Python stack depth, so whether the
    19-level pyparsing grammar hits the recursion limit does not depend on where the harness called it from."""
    box = {}

    def run():
        try:
            box["v"] = fn()
        except BaseException as ex:  # noqa: BLE001
            box["e"] = ex
    t = threading.Thread(target=run)
    t.start()
    t.join()
    if "e" in box:
        raise box["e"]
    return box["v"]


def _raised_while_parsing(ex):
    """Did the exception come out of mdtraj.core.selection.parse_selection (as opposed to the compiled predicate
    being applied to an atom)?  Read off the traceback, so no second parse is needed."""
    tb = ex.__traceback__
    while tb is not None:
        co = tb.tb_frame.f_code
        if co.co_name == "__call__" and co.co_filename.replace("\\", "/").endswith("mdtraj/core/selection.py"):
            return True
        tb = tb.tb_next
    return False


def real_select(top, e, want_source=False):
    """The real Topology.select (outcome ok / reject = raised while parsing / evalerror = raised while filtering)."""
    def work():
        try:
            arr = top.select(e)
        except Exception as ex:  # noqa: BLE001
            exc, msg = type(ex).__name__, str(ex).splitlines()[0] if str(ex) else ""
            return Real("reject" if _raised_while_parsing(ex) else "evalerror", exc=exc, msg=msg)
        try:
            idx = [int(x) for x in np.asarray(arr).ravel().tolist()]
        except Exception:  # noqa: BLE001
            idx = None
        r = Real("ok", idx=idx, arr=arr)
        if want_source:
            try:
                r.src = top.select_expression(e)
            except Exception as ex:  # noqa: BLE001
                r.src = ex
        return r
    return _in_fresh_thread(work)


def outcome_word(real):
    return {"reject": "rejected", "evalerror": "error-at-evaluation", "ok": "wrong-selection"}[real.outcome]


def explains(b, c):
    """Would a parser that orders infix operators alphabetically by spelling give connective b a tighter binding
    than comparison c?  ('=~' is appended after the sorted table, i.e. loosest of all.)"""
    return c == "=~" or b < c


def pair_class(b, c):
    if c == "=~":
        return "connective-binds-tighter-than-=~"
    if c == "not":
        return f"{b}-binds-tighter-than-not"
    return f"{b}-binds-tighter-than-{'fortran' if c.isalpha() else 'symbolic'}-comparison"


KEY_RECURSION = "parser:RecursionError-on-nested-parentheses"


class Judge:
    """Runs expressions of one case against the real code and the reference, memoised, with diagnosis."""

    def __init__(self, top, table, ctx):
        self.top, self.table, self.ctx = top, table, ctx
        self.memo = {}
        self.calls = 0

    def real(self, e, want_source=False):
        if e not in self.memo:
            self.calls += 1
            self.memo[e] = real_select(self.top, e, want_source)
        return self.memo[e]

    def mismatch(self, p):
        """None if real agrees with the reference for Parsed p (status ok); else the Real."""
        r = self.real(p.s)
        want = ref.evaluate(p, self.table)
        if r.outcome == "ok" and r.idx == want:
            return None
        return r

    def shrink(self, p, budget=14):
        node = p.tree
        while True:
            nxt = None
            kids = node.kids if node.kind in ("and", "or", "not", "paren") else []
            for c in kids:
                if budget <= 0:
                    break
                q = ref.Parsed(p.text(c))
                if q.status != "ok":
                    continue
                budget -= 1
                try:
                    bad = self.mismatch(q)
                except ref.Undefined:
                    continue
                if bad is not None:
                    nxt = c
                    break
            if nxt is None:
                return node
            node = nxt

    def diagnose(self, p, r, _depth=0):
        """Mechanism key for a reference mismatch of Parsed p (status ok) with real outcome r."""
        if r.exc == "RecursionError":
            return KEY_RECURSION
        want = ref.evaluate(p, self.table)
        pairs = [(b, c, n) for b, c, n in ref.capture_pairs(p) if explains(b, c)]
        if pairs:
            classes = sorted({pair_class(b, c) for b, c, _ in pairs})

            def repaired(cls=None):
                w = {(n.lo, n.hi) for b, c, n in pairs if cls is None or pair_class(b, c) == cls}
                rf = self.real(ref.rebuild(p, wraps=w))
                return rf.outcome == "ok" and rf.idx == want
            if repaired():
                if len(classes) > 1:
                    for cl in classes:
                        if repaired(cl):
                            return f"precedence:{cl}:{outcome_word(r)}"
                return f"precedence:{classes[0]}:{outcome_word(r)}"
        node = self.shrink(p)
        if node is not p.tree and _depth < 3:
            q = ref.Parsed(p.text(node))
            if q.status == "ok" and q.s != p.s:
                rq = self.real(q.s)
                return self.diagnose(q, rq, _depth + 1)
        # the repair was not conclusive (several defects interact, or the repaired text exceeds the parser's
        # nesting capacity): does a minimal probe built around one of the suspicious operator pairs fail by itself?
        for cl in sorted({pair_class(b, c) for b, c, _ in pairs}):
            for b, c, n in pairs:
                if pair_class(b, c) != cl:
                    continue
                if c == "not":
                    probes = [f"{b} {c} all"]
                else:
                    unit = "all" if b in ("and", "&&") else "none"
                    probes = [f"{unit} {b} {p.text(n)}", f"{p.text(n)} {b} {unit}"]
                for pr in probes:
                    q = ref.Parsed(pr)
                    try:
                        if q.status == "ok" and self.mismatch(q) is not None:
                            return f"precedence:{cl}:{outcome_word(r)}"
                    except ref.Undefined:
                        pass
                break
        # is the selection machinery broken irrespective of the expression?
        try:
            if self.mismatch(ref.Parsed("all")) is not None:
                return f"select:wrong-even-for-all:{outcome_word(r)}"
        except ref.Undefined:
            pass
        # is it one particular spelling of a keyword?  (another documented alias of the same keyword works)
        if node.kind in ("kw", "implicit", "inlist", "range", "cmp", "regex") and _depth < 3:
            q = ref.Parsed(p.text(node))
            if q.status == "ok":
                for i, tk in enumerate(q.toks):
                    if tk.kind != "KW":
                        continue
                    for alt in ref.token_synonyms(q, i):
                        q2 = ref.Parsed(ref.rebuild(q, {i: alt}))
                        try:
                            if q2.status == "ok" and self.mismatch(q2) is None:
                                return f"keyword-alias:{tk.text}:{outcome_word(r)}"
                        except ref.Undefined:
                            pass
        detail = node.kind
        if node.kind == "kw":
            detail += ":" + p.toks[node.tok].value[0]
        elif node.kind == "cmp":
            detail += ":" + ref.CMP_CANON[p.toks[node.ops[0]].text]
        return f"reference:{detail}:{outcome_word(r)}"

    def hypothesis_key(self, ps, r_a, r_b):
        """Key for a rewrite that changed the outcome when no reference value exists (ambiguous expressions)."""
        for r in (r_a, r_b):
            if r.exc == "RecursionError":
                return KEY_RECURSION
        classes = sorted({pair_class(b, c) for p in ps for b, c, _ in ref.capture_pairs(p) if explains(b, c)})
        if classes:
            word = "rejected" if "reject" in (r_a.outcome, r_b.outcome) else (
                "error-at-evaluation" if "evalerror" in (r_a.outcome, r_b.outcome) else "wrong-selection")
            return f"precedence:{classes[0]}:{word}"
        return None


# ---------------------------------------------------------------------------------------------------- run_case
def _check_form(ctx, e, r):
    arr = r.arr
    ok = isinstance(arr, np.ndarray) and arr.ndim == 1
    if not ok:
        ctx.violation("result-form", "select:result-not-1d-ndarray", f"select({e!r}) returned {type(arr).__name__}")
        return
    if arr.dtype.kind not in "iu":
        if arr.size == 0:
            ctx.violation("result-form", "select:empty-result-has-float-dtype",
                          f"select({e!r}) selects nothing and returns dtype {arr.dtype} (documented dtype=int; "
                          "a float array cannot be used as an index)", dtype=str(arr.dtype))
        else:
            ctx.violation("result-form", "select:result-dtype-not-integer", f"select({e!r}) returned dtype {arr.dtype}")
        return
    if arr.size > 1 and not bool(np.all(np.diff(arr) > 0)):
        ctx.violation("result-form", "select:result-not-strictly-increasing", f"select({e!r}) = {arr[:20]}")
        return
    ctx.ok("result-form")


def _layer3(ctx, top, e, r):
    src = r.src
    if isinstance(src, Exception):
        ctx.violation("select-vs-expression", "select_expression:raises-where-select-works",
                      f"select_expression({e!r}) raised {type(src).__name__} but select returned {len(r.idx)} atoms")
        return
    try:
        got = eval(src, {"topology": top, "re": re, "__builtins__": {}})  # the documented way to use the source
        got = [int(x) for x in got]
    except Exception as ex:  # noqa: BLE001
        ctx.violation("select-vs-expression", "select_expression:source-does-not-evaluate",
                      f"eval(select_expression({e!r})) raised {type(ex).__name__}: {ex}", source=src)
        return
    if got != r.idx:
        ctx.violation("select-vs-expression", "select_expression:differs-from-select",
                      f"eval(select_expression({e!r})) gives {len(got)} atoms, select gives {len(r.idx)}",
                      source=src, first_diff=sorted(set(got) ^ set(r.idx))[:10])
    else:
        ctx.ok("select-vs-expression")


def _variants(p, rng, nvar, kind):
    """(monitor, description, new string, changed-token description)"""
    out = []
    toks = p.toks
    syn_idx = [i for i, tk in enumerate(toks) if tk.kind in ("AND", "OR", "NOT", "CMP", "KW")]
    lit_idx = [i for i, tk in enumerate(toks) if tk.kind in ("STR", "WORD")]
    amb = p.status == "ambiguous"
    nodes = [n for n in ref.boolean_nodes(p) if not (amb and n is not p.tree and ref.contains_ambiguous_not(n))]
    if amb:
        # parentheses may only go where both readings of `not` agree on what the sub-expression is
        nodes = [n for n in nodes if n is p.tree or not _inside_ambiguous(p.tree, n)]
    choices = []
    if syn_idx:
        choices += ["syn-all", "syn-one"]
    if lit_idx:
        choices.append("quote")
    if nodes and ref.paren_depth(p) < 3:
        choices.append("paren")
    if not choices:
        return out
    order = list(rng.permutation(len(choices)))
    for ci in order[:nvar]:
        c = choices[ci]
        if c == "syn-all":
            repl = {}
            for i in syn_idx:
                alts = ref.token_synonyms(p, i)
                if alts:
                    repl[i] = alts[int(rng.integers(len(alts)))]
            out.append(("synonym", "every operator and keyword respelled", ref.rebuild(p, repl), "all"))
        elif c == "syn-one":
            i = syn_idx[int(rng.integers(len(syn_idx)))]
            alts = ref.token_synonyms(p, i)
            if alts:
                a = alts[int(rng.integers(len(alts)))]
                out.append(("synonym", f"{toks[i].text} -> {a}", ref.rebuild(p, {i: a}), f"{toks[i].text}->{a}"))
        elif c == "quote":
            repl = {}
            for i in lit_idx:
                alts = ref.token_synonyms(p, i)
                if alts and rng.random() < 0.8:
                    repl[i] = alts[int(rng.integers(len(alts)))]
            if repl:
                out.append(("quoting", "string literals re-quoted", ref.rebuild(p, repl), "quote"))
        elif c == "paren":
            n = nodes[int(rng.integers(len(nodes)))]
            out.append(("parens", f"parentheses around {n.kind} node", ref.rebuild(p, wraps=[(n.lo, n.hi)]), n.kind))
    return out


def _inside_ambiguous(root, target):
    """True if target lies inside the operand of a `not` that is applied to a bare comparison."""
    def rec(node, inside):
        if node is target:
            return inside
        here = inside or (node.kind == "not" and node.kids[0].kind in ("cmp", "regex"))
        for k in node.kids:
            r = rec(k, here)
            if r is not None:
                return r
        return None
    return bool(rec(root, False))


def _literal_class(v):
    if not v:
        return "empty"
    if any(ord(ch) > 127 for ch in v):
        return "non-ascii"
    if v in ref.RESERVED or v.lower() in ref.RESERVED:
        return "spelled-like-keyword-or-operator"
    if any(v.startswith(k) and len(v) > len(k) for k in ref.RESERVED if len(k) > 1) and v.isalnum():
        return "begins-with-keyword-or-operator"
    if v != v.strip() or "  " in v:
        return "outer-or-double-blank"
    if " " in v:
        return "inner-blank"
    if "'" in v or '"' in v:
        return "contains-quote"
    if any(ch in v for ch in "()&|<>=!~"):
        return "operator-characters"
    if v.isdigit() or v.replace(".", "").isdigit():
        return "digits-only"
    if not v.isalnum():
        return "other-punctuation"
    if v[0].isdigit():
        return "digit-first"
    return "plain"


def _judge_list(ctx, monitor, key, top, table, exprs, label):
    """Every expression of exprs on (top, table) against the reference; one event per expression."""
    for e in exprs:
        p = ref.Parsed(e)
        if p.status != "ok":
            raise AssertionError(f"history expression not judged: {e!r} {p.status} {p.reason}")
        r = real_select(top, e)
        try:
            want = ref.evaluate(p, table)
        except ref.Undefined as u:
            ctx.skip(monitor, f"undefined: {u}")
            continue
        if r.outcome == "ok" and r.idx == want:
            ctx.ok(monitor)
        else:
            ctx.violation(monitor, key, f"{label}: {e!r} real {r.brief()}; reference selects {len(want)} atoms {want[:12]}",
                          expr=e, real=r.idx if r.idx is None else r.idx[:40], reference=want[:40])


def _mutate(top, m, rng):
    """Apply one edit through the public Topology API; returns a description."""
    import mdtraj as md
    from mdtraj.core import element as elem
    atoms = list(top.atoms)
    residues = list(top.residues)
    if m == "rename-atom":
        a = atoms[int(rng.integers(len(atoms)))]
        a.name = "QQ" if a.name != "QQ" else "CA"
        return f"atom {a.index} renamed"
    if m == "rename-residue-to-water":
        r = [x for x in residues if not x.is_water][int(rng.integers(3))]
        r.name = ["HOH", "SOL", "TIP3"][int(rng.integers(3))]
        return f"residue {r.index} -> {r.name}"
    if m == "rename-residue-to-protein":
        r = [x for x in residues if not x.is_protein][int(rng.integers(3))]
        r.name = ["ALA", "GLY", "MSE"][int(rng.integers(3))]
        return f"residue {r.index} -> {r.name}"
    if m == "renumber-residue":
        r = residues[int(rng.integers(len(residues)))]
        r.resSeq = 777 if r.resSeq != 777 else 2
        return f"residue {r.index} resSeq {r.resSeq}"
    if m == "set-segment":
        r = residues[int(rng.integers(len(residues)))]
        r.segment_id = "NEW" if r.segment_id != "NEW" else "SEGA"
        return f"residue {r.index} segment {r.segment_id}"
    if m == "add-bond":
        have = {frozenset((b[0].index, b[1].index)) for b in top.bonds}
        for _ in range(50):
            i, j = [int(x) for x in rng.integers(len(atoms), size=2)]
            if i != j and frozenset((i, j)) not in have:
                top.add_bond(atoms[i], atoms[j])
                return f"bond {i}-{j}"
        return "no bond added"
    if m == "add-atom":
        top.add_atom("QQ", elem.selenium, residues[-1])
        return "atom appended to the last residue"
    if m == "add-chain-residue-atom":
        r = top.add_residue("HOH", top.add_chain(), resSeq=777, segment_id="NEW")
        o = top.add_atom("O", elem.oxygen, r)
        top.add_bond(o, top.add_atom("H1", elem.hydrogen, r))
        return "chain with one water appended"
    if m == "delete-atom":
        # delete_atom_by_index leaves the bonds of the deleted atom in place (topology bookkeeping, not selection):
        # only atoms without bonds are deleted here
        bonded = {x.index for b in top.bonds for x in (b[0], b[1])}
        cand = [a.index for a in atoms if a.index not in bonded and a.residue.n_atoms > 1] or \
               [a.index for a in atoms if a.index not in bonded]
        if not cand:
            return None
        i = cand[int(rng.integers(len(cand)))]
        top.delete_atom_by_index(i)
        return f"atom {i} deleted"
    if m == "change-element":
        a = atoms[int(rng.integers(len(atoms)))]
        a.element = elem.selenium if a.element is not elem.selenium else elem.carbon
        return f"atom {a.index} element {a.element.symbol}"
    if m == "insert-atom":
        r = [x for x in residues if x.n_atoms > 0][int(rng.integers(3))]
        top.insert_atom("QQ", elem.carbon, r, index=next(iter(r.atoms)).index, rindex=0)     # consistent positions
        return f"atom inserted at the head of residue {r.index}"
    raise KeyError(m)


def _run_history(case, ctx, top0, table0):
    """Same expressions before and after the topology is edited: a result must describe the topology as it is at the
    call (a parse/predicate/result cache keyed on the expression or on the object identity would go stale)."""
    top = _make_top(case["top"])          # private copy, never the cached one
    rng = common.rng_for("C12mut", case["seed"])
    _judge_list(ctx, "history", "history:before-any-edit:wrong-selection", top, ref.AtomTable(top), HIST_EXPRS, "fresh topology")
    for m in case["steps"]:
        ctx.observe("history-mutation", m)
        what = _mutate(top, m, rng)
        if what is None:
            ctx.skip("history", f"{m}: no candidate atom in this topology")
            continue
        table = ref.AtomTable(top)
        if not table.walk_matches_index:
            ctx.skip("history", f"atom.index no longer equals the position after {m} (topology bookkeeping, not selection)")
            return
        _judge_list(ctx, "history", f"history:after-{m}:stale-or-wrong-selection", top, table, HIST_EXPRS,
                    f"after {m} ({what}) on a copy of {case['top']}")


def _run_twotops(case, ctx, top, table):
    """The same expression strings on two topologies, interleaved."""
    other, otable, _ = get_top(case["other"])
    ctx.observe("twotops", "A-B-A-B")
    exprs = [t for t, _ in D1_TERMS] + ["protein", "water and name O", "resname ALA", "not backbone", "segname SEGA or segname B"]
    rng = common.rng_for("C12twoExpr", case["seed"])
    for e in _sample(exprs, 7, rng):
        for (tp, tb, nm) in ((top, table, case["top"]), (other, otable, case["other"])) * 2:
            _judge_list(ctx, "history", "history:same-expression-on-another-topology:wrong-selection", tp, tb, [e],
                        f"interleaved on {case['top']}/{case['other']}, now {nm}")


def _run_groups(case, ctx, top, table):
    for opt in GROUP_OPTIONS:
        ctx.observe("group-option", opt)
        want = ref.atom_group(table, opt)
        if opt == "water" and case["top"].startswith("rand:") and any(
                (table.cols["name"][i] in ("O", "OW")) != (table.cols["type"][i] == "O") for i in range(table.n) if table.cols["water"][i]):
            ctx.skip("atom-indices", "random topology whose water atom names contradict their elements: 'water oxygen' undefined")
            continue
        try:
            got = top.select_atom_indices(opt)
        except Exception as ex:  # noqa: BLE001
            ctx.violation("atom-indices", f"select_atom_indices:{opt}:raises", f"select_atom_indices({opt!r}) on {case['top']} raised {type(ex).__name__}: {ex}")
            continue
        if not (isinstance(got, np.ndarray) and got.ndim == 1):
            ctx.violation("atom-indices", "select_atom_indices:result-not-1d-ndarray", f"{opt}: {type(got).__name__}")
            continue
        lst = [int(x) for x in got.tolist()]
        if lst != want:
            missing = sorted(set(want) - set(lst))
            extra = sorted(set(lst) - set(want))
            key = f"select_atom_indices:{opt}:wrong-atoms"
            if opt == "water" and not extra and all(table.cols["name"][i] not in ("O", "OW") for i in missing):
                key = "select_atom_indices:water:oxygen-not-named-O-or-OW-missed"
            ctx.violation("atom-indices", key, f"select_atom_indices({opt!r}) on {case['top']}: {len(lst)} atoms, documented "
                          f"meaning gives {len(want)}; missing {missing[:8]} "
                          f"({[table.cols['resname'][i] + ':' + table.cols['name'][i] for i in missing[:5]]}) extra {extra[:8]}")
        else:
            ctx.ok("atom-indices")
        if got.dtype.kind not in "iu":
            ctx.violation("atom-indices-form", "select_atom_indices:empty-result-has-float-dtype" if got.size == 0
                          else "select_atom_indices:result-dtype-not-integer",
                          f"select_atom_indices({opt!r}) on {case['top']} returned dtype {got.dtype} for {got.size} atoms "
                          "(an index array must be usable as an index)", dtype=str(got.dtype))
        else:
            ctx.ok("atom-indices-form")
        # spelling in another letter case: accepted (then the same atoms) or refused
        alt = opt.upper() if len(opt) % 2 else opt.capitalize()
        try:
            g2 = [int(x) for x in top.select_atom_indices(alt).tolist()]
        except ValueError:
            ctx.skip("atom-indices", "option in another letter case refused")
        else:
            ctx.check(g2 == lst, "atom-indices", f"select_atom_indices:{opt}:letter-case-changes-result", f"{alt!r} vs {opt!r}")
    for bad in ("bogus", "", "alpha carbon", "heavy,water", "name CA"):
        try:
            got = top.select_atom_indices(bad)
        except Exception as ex:  # noqa: BLE001
            ctx.ok("atom-indices")
            ctx.observe("group-bad-option-rejected-with", type(ex).__name__)
        else:
            ctx.violation("atom-indices", "select_atom_indices:unknown-option-accepted", f"{bad!r} returned {len(got)} atoms")


def _pairs_expected(a, b):
    return {frozenset((int(x), int(y))) for x in a for y in b if x != y}


def _run_pairs(case, ctx, top, table):
    rng = common.rng_for("C12pairs", case["seed"])
    n = table.n
    sels = ["all", "none", "protein", "water", "name CA", "not protein", "index < 6", "index 2 to 9", "index 4 5 6 7 20",
            "backbone", "name O", "resid 0 1", "resid 1 2", "index 3", "type H"]
    jobs = []
    for _ in range(4):
        jobs.append(("str-str", sels[int(rng.integers(len(sels)))], sels[int(rng.integers(len(sels)))]))
    jobs += [("str-str", "index < 6", "index < 6"), ("str-str", "index < 5", "index 5 to 9"), ("str-str", "index < 6", "index 3 to 9"),
             ("str-str", "index 3", "index 3"), ("str-str", "none", "all"), ("str-str", "name CA", "name CA")]
    if n >= 2:
        k = min(n, 12)
        ia = [int(x) for x in rng.choice(n, size=min(k, int(rng.integers(1, 7))), replace=False)]
        ib = [int(x) for x in rng.choice(n, size=min(k, int(rng.integers(1, 7))), replace=False)]
        jobs += [("list-str", ia, sels[int(rng.integers(len(sels)))]), ("str-int64-array", "index < 6", np.array(ib, dtype=np.int64)),
                 ("int32-array-descending-twice", np.array(sorted(ia, reverse=True), dtype=np.int32), np.array(sorted(ia, reverse=True), dtype=np.int32)),
                 ("list-list-unsorted", ia, ib), ("tuple-range", tuple(ia), range(min(n, 5))),
                 ("list-same-set-other-order", ia, list(reversed(ia))), ("list-list-disjoint", [i for i in ia if i % 2 == 0] or [0], [i for i in ib if i % 2 == 1] or [1])]
    for form, s1, s2 in jobs:
        ctx.observe("pairs-argument-form", form)
        def resolve(sel):
            if isinstance(sel, str):
                return ref.evaluate(ref.Parsed(sel), table)
            return [int(x) for x in sel]
        a, b = resolve(s1), resolve(s2)
        want = _pairs_expected(a, b)
        branch = "equal" if sorted(a) == sorted(b) else ("disjoint" if not set(a) & set(b) else "overlapping")
        ctx.observe("pairs-branch", branch + (":empty" if not want else ""))
        c1 = s1.copy() if isinstance(s1, np.ndarray) else s1
        c2 = s2.copy() if isinstance(s2, np.ndarray) else s2
        try:
            got = top.select_pairs(c1, c2)
        except Exception as ex:  # noqa: BLE001
            ctx.violation("pairs", f"select_pairs:{branch}:raises", f"select_pairs({s1!r}, {s2!r}) on {case['top']} raised {type(ex).__name__}: {ex}")
            continue
        if isinstance(s1, np.ndarray) and not np.array_equal(c1, s1):
            ctx.observe("pairs-side-effect", "caller's index array reordered in place")
        arr = np.asarray(got)
        if want and not (arr.ndim == 2 and arr.shape[1] == 2):
            ctx.violation("pairs", f"select_pairs:{branch}:result-shape", f"shape {arr.shape} for {len(want)} pairs")
            continue
        if not want:
            if arr.size != 0:
                ctx.violation("pairs", f"select_pairs:{branch}:pairs-from-nothing", f"{arr.shape} pairs, expected none ({s1!r}, {s2!r})")
            elif arr.shape != (0, 2):
                ctx.violation("pairs", f"select_pairs:{branch}:empty-result-shape", f"documented shape (n_pairs, 2); got {arr.shape} for {s1!r}, {s2!r}")
            else:
                ctx.ok("pairs")
            continue
        if arr.dtype.kind not in "iu":
            ctx.violation("pairs", f"select_pairs:{branch}:dtype-not-integer", str(arr.dtype))
            continue
        rows = [frozenset((int(x), int(y))) for x, y in arr.tolist()]
        if any(len(r) == 1 for r in rows):
            ctx.violation("pairs", f"select_pairs:{branch}:atom-paired-with-itself", f"{s1!r}, {s2!r} on {case['top']}")
        elif len(set(rows)) != len(rows):
            ctx.violation("pairs", f"select_pairs:{branch}:duplicate-pairs", f"{len(rows) - len(set(rows))} repeated pairs for {s1!r}, {s2!r} on {case['top']}")
        elif set(rows) != want:
            ctx.violation("pairs", f"select_pairs:{branch}:wrong-pairs",
                          f"select_pairs({s1!r}, {s2!r}) on {case['top']}: {len(rows)} pairs, expected {len(want)}; "
                          f"missing {[sorted(x) for x in list(want - set(rows))[:4]]} extra {[sorted(x) for x in list(set(rows) - want)[:4]]}")
        else:
            ctx.ok("pairs")


WIDE_HANDLERS = {"history": _run_history, "twotops": _run_twotops, "groups": _run_groups, "pairs": _run_pairs}


def run_case(case, ctx):
    top, table, pools = get_top(case["top"])
    e = case["expr"]
    kind = case["kind"]
    ctx.observe("case-kind", kind)
    ctx.observe("topology", case["top"].split(":")[0])
    if kind == "meaning":
        if not table.walk_matches_index:
            ctx.violation("keyword-meaning", "topology:atom-index-not-position", "atom.index differs from its position")
        bad = table.keyword_meaning_problems()
        if bad:
            ctx.violation("keyword-meaning", f"keyword-meaning:{bad[0][0]}",
                          f"{len(bad)} atoms whose {bad[0][0]} flag contradicts the documented wording", first=bad[:5])
        else:
            ctx.ok("keyword-meaning")
        wide = ref.keyword_meaning_problems_wide(table)
        for nm in sorted({r for r in table.cols["resname"] if r in ref.VMD_WATER or r in ref.KNOWN_MODIFIED or r in ref.KNOWN_CAPS}):
            ctx.observe("meaning-residue-class", nm)
        if wide:
            ctx.violation("keyword-meaning", f"keyword-meaning:{wide[0][0]}",
                          f"{len(wide)} atoms of {case['top']} whose flags/code/mass contradict the documented wording "
                          f"({sorted({w for w, _ in wide})[:6]})", first=wide[:5])
        else:
            ctx.ok("keyword-meaning")
        return
    if kind in WIDE_HANDLERS:
        WIDE_HANDLERS[kind](case, ctx, top, table)
        return
    p = ref.Parsed(e)
    ctx.observe("reference-status", p.status)
    J = Judge(top, table, ctx)
    r = J.real(e, want_source=bool(case.get("l3", 1)))
    ctx.observe("real-outcome", r.outcome if r.outcome == "ok" else f"{r.outcome}:{r.exc}")
    if p.toks is not None:
        ctx.observe("tokens", min(len(p.toks) // 5 * 5, 60))
        ctx.observe("paren-depth", ref.paren_depth(p))
        for tk in p.toks:
            if tk.kind in ("AND", "OR", "NOT", "CMP", "RE", "TO", "KW"):
                ctx.observe("spelling", tk.text)
            elif tk.kind == "STR":
                ctx.observe("literal-form", "single-quoted" if tk.text[0] == "'" else "double-quoted")
            elif tk.kind == "WORD":
                ctx.observe("literal-form", "bare")
            elif tk.kind == "NUM":
                ctx.observe("literal-form", "float" if "." in tk.text else "int")
    if p.tree is not None:
        for n in p.tree.walk():
            ctx.observe("node", n.kind)

    if kind == "deep":
        ctx.observe("deep-shape", f"{case['shape']}:{'beyond-bound' if case['beyond'] else 'judged'}")
        ctx.observe("deep-depth", case["depth"])
        if case["beyond"] and r.exc == "RecursionError":
            # the quantifier is bounded ("nesting depth up to the tested bound"); deeper nesting that exhausts the
            # interpreter stack inside pyparsing is a refusal, not a selection
            ctx.skip("reference", "nesting beyond the judged bound: parser raised RecursionError")
            return
    if kind in ("xlit", "caseflip", "numlit", "regesc", "long", "bigindex", "tiny"):
        ctx.observe("wide-class", kind + (":" + case["shape"] if "shape" in case else ""))
        if kind == "xlit" and p.toks:
            for tk in p.toks:
                if tk.kind in ("STR", "WORD"):
                    ctx.observe("literal-class", _literal_class(tk.value))
    if kind == "malformed" or p.status == "malformed":
        if p.status != "malformed":
            if kind == "malformed" and p.status in ("undocumented", "ambiguous"):
                ctx.skip("malformed", "generated string is not clearly malformed: " + p.reason)
                return
            if kind == "malformed":
                raise AssertionError(f"generator produced a well-formed 'malformed' case: {e!r}")
        ctx.observe("malformed-class", p.reason)
        if r.outcome == "ok":
            ctx.violation("malformed", f"malformed-accepted:{p.reason}",
                          f"malformed expression {e!r} ({p.reason}) is accepted and {r.brief()}", expr=e)
        else:
            ctx.ok("malformed")
            ctx.observe("malformed-rejected-with", r.exc)
        return

    if r.outcome == "ok":
        _check_form(ctx, e, r)
        if case.get("l3", 1):
            _layer3(ctx, top, e, r)

    if p.status == "undocumented":
        ctx.skip("reference", "outside the documented language: " + p.reason)
        return

    def judge_reference(q, label, reuse=None):
        """layer 1 on Parsed q; returns key on violation, None otherwise (reuse: key already established for an
        expression of identical meaning on which the real code behaved identically)"""
        if q.status != "ok":
            ctx.skip("reference", "ambiguous: not applied to an unparenthesised comparison")
            return None
        try:
            bad = J.mismatch(q)
        except ref.Undefined as u:
            ctx.skip("reference", f"undefined: {u}")
            return None
        if bad is None:
            ctx.ok("reference")
            return None
        key = reuse or J.diagnose(q, bad)
        want = ref.evaluate(q, table)
        ctx.violation("reference", key,
                      f"{label} {q.s!r} on {case['top']}: real {bad.brief()}; reference selects {len(want)} atoms {want[:12]}",
                      expr=q.s, real=bad.idx if bad.idx is None else bad.idx[:40], reference=want[:40])
        return key

    base_key = judge_reference(p, "expression")

    rng = common.rng_for("C12var", case["seed"])
    if kind == "spacing":
        vs = []
        c = ref.compact(p)
        if c != e:
            vs.append(("spacing", "optional whitespace removed", c, "compact"))
        vs.append(("spacing", "whitespace widened (spaces, tabs, trailing newline)", ref.widen(p), "wide"))
        vs.append(("spacing", "line breaks (LF, CRLF) and tabs between the tokens", ref.widen_nl(p), "multiline"))
    else:
        vs = _variants(p, rng, case.get("nvar", 1), kind)
    for mon, desc, ve, what in vs:
        if ve == e:
            continue
        q = ref.Parsed(ve)
        if q.status not in ("ok", "ambiguous") or q.status != p.status:
            raise AssertionError(f"rewrite changed the reference status: {e!r} ({p.status}) -> {ve!r} ({q.status})")
        rv = J.real(ve)
        vkey = None
        if q.status == "ok" and mon != "spacing":
            try:
                if ref.evaluate(q, table) != ref.evaluate(p, table):
                    raise AssertionError(f"rewrite changed the reference meaning: {e!r} -> {ve!r}")
            except ref.Undefined:
                pass
            vkey = judge_reference(q, "rewritten expression", reuse=base_key if rv.same(r) else None)
        ctx.observe("rewrite", mon + ":" + (what if mon != "synonym" or what == "all" else "one"))
        if rv.same(r):
            ctx.ok(mon)
            continue
        key = vkey or base_key
        if key is None and mon == "spacing":
            key = _spacing_key(J, p, r)
        if key is None:
            key = J.hypothesis_key([p, q], r, rv)
        if key is None:
            key = f"rewrite:{mon}:{what if mon != 'synonym' else _syn_class(what)}:changes-" + (
                "acceptance" if r.outcome != rv.outcome else "selection")
        ctx.violation(mon, key, f"{desc}: {e!r} {r.brief()} but {ve!r} {rv.brief()} (topology {case['top']})",
                      expr=e, rewritten=ve)


def _syn_class(what):
    if what == "all":
        return "all"
    a, b = what.split("->")
    if a in ref.KEYWORDS:
        return "keyword-alias:" + ref.KEYWORDS[a][0]
    return "<->".join(sorted([a, b]))


def _spacing_key(J, p, r):
    """Which single junction makes the compact form behave differently?"""
    for i in range(1, len(p.toks)):
        c = ref.compact(p, only=i)
        if c == p.s:
            continue
        rc = J.real(c)
        if not rc.same(r):
            a, b = p.toks[i - 1], p.toks[i]
            la = a.text if a.kind in ("AND", "OR", "NOT", "CMP", "RE", "TO", "LP", "RP") else a.kind.lower()
            lb = b.text if b.kind in ("AND", "OR", "NOT", "CMP", "RE", "TO", "LP", "RP") else b.kind.lower()
            word = "rejected" if rc.outcome == "reject" else ("error-at-evaluation" if rc.outcome == "evalerror" else "changes-selection")
            if a.kind == "NOT" and a.text == "not":
                return f"spacing:not-needs-a-trailing-blank:{word}"
            return f"spacing:no-space-between-{la}-and-{lb}:{word}"
    return None


def evidence_extra(records, dones, tier):
    # only cases with a violation are forwarded in full; totals per kind are in observed["case-kind"]
    kinds = {}
    for r in records:
        if r.get("violations"):
            k = r["case"].get("kind")
            kinds[k] = kinds.get(k, 0) + 1
    return dict(violating_cases_by_kind=kinds,
                exhaustive_scope="all trees of depth <= 2 over 4 terms x {not,!} x {and,&&,or,||} and all depth-1 "
                "combinations of 21 terms" if tier == "thorough" else "seeded sample of that scope")
