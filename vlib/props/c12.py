"""C12 — every selection expression selects exactly the atoms its meaning denotes.

Monitors (the real Topology.select / Topology.select_expression run on every generated expression):

reference               layer 1: own tokenizer + recursive-descent parser + evaluation over an own attribute table
                        (vlib/oracle/c12_selection.py, written from docs/atom_selection.rst); the index list must be
                        identical.  Conventional precedence (comparison, not, and, or).  Expressions in which `not`
                        is applied to an unparenthesised explicit comparison are `ambiguous` (skipped here).
synonym / quoting /     layer 2: a documented synonym spelling (and<->&&, or<->||, not<->!, <<->lt ..., keyword
parens / spacing        aliases, bare<->'quoted'<->"quoted"), redundant parentheses around a complete boolean
                        sub-expression, or removing/adding optional whitespace must change neither the acceptance nor
                        the selection.
select-vs-expression    layer 3: eval(select_expression(e)) over `topology` equals select(e).
result-form             select() returns a 1-d, integer-typed, strictly increasing array.
malformed               empty, unbalanced/empty parentheses, dangling or doubled operators, `to` without bounds, bare
                        literals as truth values, literal-only comparisons must raise.
keyword-meaning         boolean keyword columns agree with the documented wording on standard residues/water/ions.

Violation keys name the mechanism.  On a reference mismatch the failing expression is shrunk to its smallest failing
boolean sub-expression; if that is an and/or whose operand is an unparenthesised comparison that a parser ordering its
infix operators by the *alphabetical order of their spellings* would tear apart, and parenthesising that operand
repairs the result, the key is  precedence:<connective>-binds-tighter-than-<symbolic|fortran>-comparison|=~:<outcome>;
otherwise reference:<node kind>:<outcome>.  outcome = rejected | error-at-evaluation | wrong-selection.
"""
from __future__ import annotations

import itertools
import os
import re
import threading

import numpy as np

from vlib.gen import common
from vlib.oracle import c12_selection as ref

PROPERTY = "C12"
LEVEL = "exploration"
NATIVE = []
RULE = ("cases = (expression string, topology name); expressions come from (a) every depth-0 term of the full alphabet "
        "(every keyword alias x implicit/list/range/regex/every comparison spelling, literal left and right, every quote "
        "form), (b) exhaustive enumeration of all trees of depth <= 2 over a reduced alphabet (5 terms x not/! x "
        "and/&&/or/||; thorough tier complete, quick tier a seeded sample) and of depth 1 over 21 terms covering all 12 "
        "comparison spellings, (c) seeded random trees up to depth 6 with random spellings/quoting/redundant "
        "parentheses, (d) malformed strings built from templates; each case also runs 1-3 meaning-preserving rewrites. "
        "A case is non-trivial when at least one monitor decided; distinct = distinct (expression, topology).")
WORKERS = {"quick": 8, "thorough": 16}
BUDGET = {"quick": int(os.environ.get("C12_BUDGET_QUICK", 60)), "thorough": int(os.environ.get("C12_BUDGET_THOROUGH", 900))}
EXHAUSTIVE = {"thorough": True}
FLOORS = {"quick": {"reference": 800, "synonym": 250, "parens": 140, "quoting": 80, "spacing": 40,
                    "select-vs-expression": 280, "result-form": 280, "malformed": 35, "keyword-meaning": 2}}
ASSUMPTIONS = [
    "docs/atom_selection.rst is the meaning of the language; segment_id/segname (absent from its table) mean "
    "Atom.segment_id as documented in the Atom docstring",
    "precedence: comparison > not > and > or (the documentation prints no table); `not` applied to an unparenthesised "
    "explicit comparison is treated as ambiguous and only checked by the synonym and select_expression monitors",
    "boolean keyword values (protein, water, backbone, sidechain) and rescode are read from the Residue/Atom "
    "properties the documentation maps them to; they are cross-checked only on standard residues, HOH and ions",
    "negative numbers, exponents, leading zeros, chained comparisons, string ordering, keyword-vs-keyword comparisons, "
    "non-boolean keywords used as truth values and bare words spelled like keywords are outside the documented "
    "language (skipped)",
]

DATA = "/repo/tests/data"
N_RAND_TOPS = {"quick": 4, "thorough": 12}
FIXED_TOPS = ["hostile", "4ZUO-mix", "2EQQ-12", "native", "tip3p-20"]

# ------------------------------------------------------------------------------------------------------ topologies
_TOPS = {}


def _hostile_topology():
    import mdtraj as md
    from mdtraj.core import element as elem
    top = md.Topology()
    E = elem.get_by_symbol

    def add_res(chain, name, resseq, seg, atoms, bonds=()):
        r = top.add_residue(name, chain, resSeq=resseq, segment_id=seg)
        made = {}
        for an, sym in atoms:
            made[an] = top.add_atom(an, E(sym), r)
        for a, b in bonds:
            top.add_bond(made[a], made[b])
        return made

    bb = [("N", "N"), ("CA", "C"), ("C", "C"), ("O", "O")]
    bbb = [("N", "CA"), ("CA", "C"), ("C", "O")]
    c0 = top.add_chain()
    prev = None
    for name, rs, extra, eb in [("ALA", 1, [("CB", "C"), ("H", "H"), ("HA", "H")], [("CA", "CB"), ("N", "H"), ("CA", "HA")]),
                                ("GLY", 2, [("H", "H")], [("N", "H")]),
                                ("ALA", 2, [("CB", "C")], [("CA", "CB")]),
                                ("CYS", 3, [("CB", "C"), ("SG", "S")], [("CA", "CB"), ("CB", "SG")]),
                                ("SER", 5, [("CB", "C"), ("OG", "O"), ("OXT", "O")], [("CA", "CB"), ("CB", "OG"), ("C", "OXT")])]:
        m = add_res(c0, name, rs, "SEGA", bb + extra, bbb + eb)
        if prev is not None:
            top.add_bond(prev["C"], m["N"])
        prev = m
    c1 = top.add_chain()
    prev = None
    for name, rs, extra, eb in [("GLY", 1, [], []), ("ASP", 2, [("CB", "C"), ("CG", "C"), ("OD1", "O"), ("OD2", "O")],
                                                   [("CA", "CB"), ("CB", "CG"), ("CG", "OD1"), ("CG", "OD2")]),
                                ("LYS", 2, [("CB", "C"), ("NZ", "N")], [("CA", "CB")])]:
        m = add_res(c1, name, rs, "B", bb + extra, bbb + eb)
        if prev is not None:
            top.add_bond(prev["C"], m["N"])
        prev = m
    c2 = top.add_chain()
    add_res(c2, "LIG", 100, "", [("C1", "C"), ("C2", "C"), ("C3", "C"), ("C4", "C"), ("C5", "C"), ("O5'", "O"),
                                 ("1HB", "H"), ("and", "C"), ("to", "N"), ("all", "O"), ("CA", "C"), ("H5\"", "H"),
                                 ("name", "C"), ("lt", "H"), ("C 1", "C")],
            [("C1", "C2"), ("C2", "C3"), ("C3", "C4"), ("C4", "C5"), ("C5", "O5'"), ("C1", "1HB"), ("C1", "C5")])
    add_res(c2, "or", 100, "protein", [("X", "P"), ("CA", "C")], [("X", "CA")])
    c3 = top.add_chain()
    add_res(c3, "NA", 101, "ION", [("NA", "Na")])
    add_res(c3, "CL", 102, "ION", [("CL", "Cl")])
    add_res(c3, "CA", 103, "ION", [("CA", "Ca")])
    add_res(c3, "ZN", 103, "", [("ZN", "Zn")])
    c4 = top.add_chain()
    for rs in (1, 2, 3, 3):
        add_res(c4, "HOH", rs, "WAT", [("O", "O"), ("H1", "H"), ("H2", "H")], [("O", "H1"), ("O", "H2")])
    add_res(c4, "HOH", 4, "WAT", [("O", "O")])
    return top


def _subset_top(top, residue_pred, segs=None):
    idx = [a.index for a in top.atoms if residue_pred(a.residue)]
    sub = top.subset(idx)
    if segs:
        for r in sub.residues:
            r.segment_id = segs[r.chain.index % len(segs)]
    return sub


def _make_top(name):
    import mdtraj as md
    if name == "hostile":
        return _hostile_topology()
    if name == "native":
        return md.load(os.path.join(DATA, "native.pdb")).topology
    if name == "2EQQ-12":
        t = md.load(os.path.join(DATA, "2EQQ.pdb")).topology
        return _subset_top(t, lambda r: r.index < 12)
    if name == "tip3p-20":
        t = md.load(os.path.join(DATA, "tip3p_300K_1ATM.pdb")).topology
        return _subset_top(t, lambda r: r.index < 20)
    if name == "4ZUO-mix":
        t = md.load(os.path.join(DATA, "4ZUO.pdb")).topology
        first = {c.index: next(iter(c.residues)).index for c in t.chains}

        def keep(r):
            k = r.index - first[r.chain.index]
            ci = r.chain.index
            return k < 5 if ci in (0, 1) else (True if ci in (2, 3) else k < 6)
        return _subset_top(t, keep, segs=["PROA", "PROB", "", "HETB", "WATA", ""])
    if name.startswith("rand:"):
        _, k, n = name.split(":")
        return common.random_topology(common.rng_for("C12top", int(k)), int(n), rich=True, bonds=True)
    raise KeyError(name)


def rand_top_names(tier):
    out = []
    for k in range(N_RAND_TOPS[tier]):
        n = [60, 110, 35, 150, 80, 20][k % 6]
        out.append(f"rand:{k}:{n}")
    return out


def top_names(tier):
    return FIXED_TOPS + rand_top_names(tier)


class Pools:
    """Literal values per canonical keyword: present in the topology and absent from it."""

    def __init__(self, table):
        self.present = {}
        for k, (al, canon, ty) in ((r[1], r) for r in ref._KW_ROWS):
            if ty == "bool":
                continue
            vals = []
            for v in table.cols[canon]:
                if v is None or v in vals:
                    continue
                if ty in ("int", "float") and v < 0:
                    continue
                if ty == "str" and ("\\" in v or ("'" in v and '"' in v) or "\n" in v):
                    continue
                vals.append(v)
            self.present[canon] = vals[:60]


def get_top(name):
    if name not in _TOPS:
        top = _make_top(name)
        table = ref.AtomTable(top)
        _TOPS[name] = (top, table, Pools(table))
    return _TOPS[name]


# ------------------------------------------------------------------------------------------- expression generation
BOOL_ALIASES = [a for al, c, ty in ref._KW_ROWS if ty == "bool" for a in al]
STR_KW = {c: list(al) for al, c, ty in ref._KW_ROWS if ty == "str"}
NUM_KW = {c: list(al) for al, c, ty in ref._KW_ROWS if ty in ("int", "float")}
CMP_ALL = ["<", "lt", "<=", "le", "==", "eq", "!=", "ne", ">=", "ge", ">", "gt"]
CMP_STR = ["==", "eq", "!=", "ne"]
ABSENT_STR = ["XX", "Q9", "CA1", "ala", "Zz"]


def fmt_num(v, rng=None, style=None):
    if isinstance(v, float):
        if style == "round" or (rng is not None and rng.random() < 0.5):
            v = round(v, int(rng.integers(0, 3)) if rng is not None else 1)
        s = repr(float(v))
        if "e" in s or "inf" in s or "nan" in s:
            s = "1.5"
        if s.endswith(".0") and rng is not None and rng.random() < 0.5:
            s = s[:-2] if rng.random() < 0.7 else s[:-1]
        if s.startswith("0.") and len(s) > 2 and rng is not None and rng.random() < 0.3:
            s = s[1:]
        return s
    return str(int(v))


def str_lit(v, rng=None, form=None):
    forms = ref.quote_forms(v)
    if not forms:
        return None
    if form is not None:
        return forms[form % len(forms)]
    return forms[int(rng.integers(len(forms)))]


REGEX_FIXED = ["C.*", "C[1-4]", "H", "A", ".*A", "^C$", "CA|CB", "[A-Z]+", ".", "O", "N.?", "(H|O).*", "[^C]", "C", "S"]


def regex_for(v, rng):
    r = rng.random()
    if v and r < 0.25:
        return v[0] + ".*"
    if v and r < 0.4:
        return v[-1]
    if v and r < 0.5:
        return v[:1] + "[" + v[1:2] + "1-9]" if len(v) > 1 and v[1:2].isalnum() else v[0]
    if v and r < 0.6 and v.isalnum():
        return v
    return REGEX_FIXED[int(rng.integers(len(REGEX_FIXED)))]


def safe_regex(pat):
    if "'" in pat and '"' in pat or "\\" in pat:
        return False
    try:
        re.compile(pat)
    except re.error:
        return False
    return True


def quote_always(v, rng=None):
    if "'" not in v:
        if '"' not in v and rng is not None and rng.random() < 0.4:
            return '"' + v + '"'
        return "'" + v + "'"
    return '"' + v + '"'


def pick_str(rng, pools, canon):
    vals = pools.present.get(canon, [])
    if vals and rng.random() < 0.75:
        return vals[int(rng.integers(len(vals)))]
    return ABSENT_STR[int(rng.integers(len(ABSENT_STR)))]


def pick_num(rng, pools, canon):
    vals = pools.present.get(canon, [])
    if vals and rng.random() < 0.8:
        v = vals[int(rng.integers(len(vals)))]
        if canon == "mass":
            return v + float(rng.choice([0.0, 0.0, 0.5, -0.5, 1e-3])) if v > 1 else v
        return max(0, int(v) + int(rng.choice([0, 0, 0, 1, -1, 2])))
    return float(rng.choice([0.0, 5.5, 12.0, 500.0])) if canon == "mass" else int(rng.choice([0, 1, 7, 999]))


def rand_primary(rng, pools):
    """A depth-0 term as text."""
    r = rng.random()
    if r < 0.16:
        return BOOL_ALIASES[int(rng.integers(len(BOOL_ALIASES)))], "prim"
    is_str = rng.random() < 0.5
    if is_str:
        canon = list(STR_KW)[int(rng.integers(len(STR_KW)))]
        kw = STR_KW[canon][int(rng.integers(len(STR_KW[canon])))]
        lit = lambda: str_lit(pick_str(rng, pools, canon), rng) or "'XX'"  # noqa: E731
        if r < 0.40:
            return f"{kw} {lit()}", "prim"
        if r < 0.55:
            return f"{kw} " + " ".join(lit() for _ in range(int(rng.integers(2, 5)))), "prim"
        if r < 0.85:
            op = CMP_STR[int(rng.integers(len(CMP_STR)))]
            if rng.random() < 0.2:
                return f"{lit()} {op} {kw}", "cmp"
            return f"{kw} {op} {lit()}", "cmp"
        pat = regex_for(pick_str(rng, pools, canon), rng)
        if not safe_regex(pat):
            pat = "C.*"
        sp = pat if (ref.BARE_RE.match(pat) and pat not in ref.RESERVED and rng.random() < 0.3) else quote_always(pat, rng)
        return f"{kw} =~ {sp}", "cmp"
    canon = list(NUM_KW)[int(rng.integers(len(NUM_KW)))]
    kw = NUM_KW[canon][int(rng.integers(len(NUM_KW[canon])))]
    lit = lambda: fmt_num(pick_num(rng, pools, canon), rng)  # noqa: E731
    if r < 0.36:
        return f"{kw} {lit()}", "prim"
    if r < 0.50:
        return f"{kw} " + " ".join(lit() for _ in range(int(rng.integers(2, 5)))), "prim"
    if r < 0.66:
        a, b = pick_num(rng, pools, canon), pick_num(rng, pools, canon)
        if rng.random() < 0.8 and a > b:
            a, b = b, a
        if rng.random() < 0.5:
            b = b + (5 if canon != "mass" else 6.5)
        return f"{kw} {fmt_num(a, rng)} to {fmt_num(b, rng)}", "prim"
    op = CMP_ALL[int(rng.integers(len(CMP_ALL)))]
    if rng.random() < 0.25:
        return f"{lit()} {op} {kw}", "cmp"
    return f"{kw} {op} {lit()}", "cmp"


# gen-side trees: ("t", text, cls) | ("not", sp, child) | ("and"/"or", [sp...], [children])
PREC = {"or": 1, "and": 2, "not": 3, "t": 4}


def render(node, rng=None, redundant=0.0, amb=0.0, tight_not=0.0):
    kind = node[0]
    if kind == "t":
        s = node[1]
        if rng is not None and redundant and rng.random() < redundant:
            s = "(" + s + ")"
        return s
    if kind == "not":
        sp, child = node[1], node[2]
        cs = render(child, rng, redundant, amb, tight_not)
        need = PREC[child[0]] < PREC["not"] or (child[0] == "t" and child[2] == "cmp")
        if child[0] == "t" and child[2] == "cmp" and rng is not None and rng.random() < amb and not cs.startswith("("):
            need = False
        if need and not (cs.startswith("(") and _balanced_outer(cs)):
            cs = "(" + cs + ")"
        if sp == "!" and rng is not None and rng.random() < tight_not:
            s = "!" + cs
        else:
            s = sp + " " + cs
    else:
        sps, kids = node[1], node[2]
        parts = []
        for k in kids:
            ks = render(k, rng, redundant, amb, tight_not)
            if PREC[k[0]] < PREC[kind] or (k[0] == kind and rng is not None and rng.random() < 0.25):
                ks = "(" + ks + ")"
            parts.append(ks)
        s = parts[0]
        for sp, ks in zip(sps, parts[1:]):
            s += f" {sp} {ks}"
    if rng is not None and redundant and rng.random() < redundant:
        s = "(" + s + ")"
    return s


def _balanced_outer(s):
    """True if the first '(' matches the last ')'."""
    if not (s.startswith("(") and s.endswith(")")):
        return False
    d = 0
    q = None
    for i, ch in enumerate(s):
        if q:
            if ch == q:
                q = None
            continue
        if ch in "'\"":
            q = ch
        elif ch == "(":
            d += 1
        elif ch == ")":
            d -= 1
            if d == 0 and i < len(s) - 1:
                return False
    return True


def rand_tree(rng, depth, pools, flat=False):
    """Thin random tree: one operand carries the full remaining depth, the others are shallow."""
    if depth <= 0:
        txt, cls = rand_primary(rng, pools)
        return ("t", txt, cls)
    r = rng.random()
    if r < 0.22:
        return ("not", ["not", "!"][int(rng.integers(2))], rand_tree(rng, depth - 1, pools, flat))
    kind = "and" if r < 0.58 else "or"
    n = int(rng.choice([2, 2, 2, 2, 3]))
    kids = [rand_tree(rng, depth - 1 if i == 0 else min(int(rng.integers(0, depth)), int(rng.choice([0, 0, 1, 1, 2]))),
                      pools, flat) for i in range(n)]
    order = rng.permutation(n)
    kids = [kids[i] for i in order]
    sp = {"and": ["and", "&&"], "or": ["or", "||"]}[kind]
    sps = [sp[int(rng.integers(2))] for _ in range(n - 1)]
    return (kind, sps, kids)


def flat_tree(rng, pools):
    """or of ands of (not) primaries: depth 3 without any parenthesis."""
    def lit():
        txt, cls = rand_primary(rng, pools)
        while cls == "cmp" and rng.random() < 0.5:
            txt, cls = rand_primary(rng, pools)
        t = ("t", txt, cls)
        if cls != "cmp" and rng.random() < 0.3:
            return ("not", ["not", "!"][int(rng.integers(2))], t)
        return t
    ors = []
    for _ in range(int(rng.integers(1, 4))):
        n = int(rng.integers(1, 4))
        kids = [lit() for _ in range(n)]
        ors.append(kids[0] if n == 1 else ("and", [["and", "&&"][int(rng.integers(2))] for _ in range(n - 1)], kids))
    if len(ors) == 1:
        return ors[0]
    return ("or", [["or", "||"][int(rng.integers(2))] for _ in range(len(ors) - 1)], ors)


# --- exhaustive alphabets (fixed literals: meaningful on every topology)
D0_REDUCED = [("protein", "prim"), ("name CA", "prim"), ("index < 40", "cmp"), ("resid ge 3", "cmp")]
D1_TERMS = [("index < 40", "cmp"), ("index lt 30", "cmp"), ("resid <= 4", "cmp"), ("resid le 6", "cmp"),
            ("residue == 2", "cmp"), ("resSeq eq 3", "cmp"), ("chainid != 1", "cmp"), ("index ne 3", "cmp"),
            ("mass >= 12", "cmp"), ("mass ge 14.5", "cmp"), ("n_bonds > 1", "cmp"), ("resi gt 2", "cmp"),
            ("5 <= index", "cmp"), ("name == CA", "cmp"), ("resname ne 'ALA'", "cmp"), ("water", "prim"),
            ("backbone", "prim"), ("name CA CB O", "prim"), ("resid 1 to 3", "prim"), ("name =~ 'C[1-4A]'", "cmp"),
            ("type O", "prim")]
BOOL_SP = [("and", "and"), ("and", "&&"), ("or", "or"), ("or", "||")]
NOT_SP = ["not", "!"]


def exhaustive_depth1():
    out = []
    for (a, b) in itertools.product(D1_TERMS, D1_TERMS):
        for kind, sp in BOOL_SP:
            out.append(render((kind, [sp], [("t",) + a, ("t",) + b])))
    for t in D1_TERMS:
        for sp in NOT_SP:
            out.append(render(("not", sp, ("t",) + t)))
    return out


def exhaustive_depth2():
    """All trees of depth <= 2 over D0_REDUCED x {not,!} x {and,&&,or,||} (binary connectives)."""
    d0 = [("t",) + t for t in D0_REDUCED]
    d1 = [("not", sp, t) for sp in NOT_SP for t in d0]
    d1 += [(kind, [sp], [a, b]) for a in d0 for b in d0 for kind, sp in BOOL_SP]
    le1 = d0 + d1
    out = [render(t) for t in le1]
    for sp in NOT_SP:
        for t in d1:
            out.append(render(("not", sp, t)))
    for a in le1:
        for b in le1:
            if a[0] == "t" and b[0] == "t":
                continue
            for kind, sp in BOOL_SP:
                out.append(render((kind, [sp], [a, b])))
    return out


def depth0_terms(pools, rng):
    """Every keyword alias in every documented depth-0 form (literals drawn from the topology)."""
    out = list(BOOL_ALIASES)
    for canon, aliases in STR_KW.items():
        vals = pools.present.get(canon, [])
        present = vals[int(rng.integers(len(vals)))] if vals else "XX"
        other = vals[int(rng.integers(len(vals)))] if vals else "YY"
        for kw in aliases:
            for v in (present, "XX"):
                for f in ref.quote_forms(v):
                    out.append(f"{kw} {f}")
            forms = [str_lit(x, rng) for x in (present, other, "XX")]
            forms = [f for f in forms if f]
            out.append(f"{kw} " + " ".join(forms))
            out.append(f"{kw} " + " ".join(reversed(forms[:2])))
            for fi, op in enumerate(CMP_STR):
                f = str_lit(present, form=fi)
                if f:
                    out.append(f"{kw} {op} {f}")
                    out.append(f"{f} {op} {kw}")
            for pat in (present[:1] + ".*" if present else "C.*", present[-1:] if present else "A", "C[1-4]", present):
                if pat and safe_regex(pat):
                    out.append(f"{kw} =~ {quote_always(pat)}")
    for canon, aliases in NUM_KW.items():
        vals = sorted(pools.present.get(canon, [])) or [0]
        mid = vals[len(vals) // 2]
        lo = vals[len(vals) // 4]
        hi = vals[(3 * len(vals)) // 4]
        fm = (lambda v: repr(float(v)) if isinstance(v, float) else str(int(v)))
        for kw in aliases:
            out.append(f"{kw} {fm(mid)}")
            out.append(f"{kw} 99999")
            out.append(f"{kw} {fm(lo)} {fm(mid)} {fm(hi)}")
            for op in CMP_ALL:
                out.append(f"{kw} {op} {fm(mid)}")
            out.append(f"{fm(mid)} <= {kw}")
            out.append(f"{fm(mid)} gt {kw}")
            out.append(f"{kw} {fm(lo)} to {fm(hi)}")
            out.append(f"{kw} {fm(mid)} to {fm(mid)}")
            out.append(f"{kw} {fm(hi)} to {fm(lo)}")
            if canon == "mass":
                out.append(f"{kw} 5.5 to 20")
                out.append(f"{kw} .5 to 12.5")
                out.append(f"{kw} 1. to 16.")
    return out


MALFORMED_FIXED = ["", " ", "\t\n", "(", ")", "()", "(protein", "protein)", "((protein)", "(protein))", "protein and ()",
                   "protein and", "protein or", "protein &&", "protein ||", "and protein", "or water", "&& protein",
                   "|| water", "protein and not", "protein and !", "not", "!", "index <", "< 5", "index ==", "eq 5",
                   "name =~", "=~ 'C'", "protein and and water", "protein or or water", "protein && || water",
                   "protein and or water", "index < < 5", "index == != 5", "index lt gt 5", "index < and 5",
                   "resid 10 to", "resid to 30", "mass to", "index to 5", "(resid 10 to) and protein",
                   "resSeq 5 to and water", "protein or resi to 4", "CA", "5", "5.5", "'CA'", "\"x\"", "(CA)",
                   "protein and CA", "CA or water", "not CA", "! 5", "protein and 5", "CA and CB", "(5) or protein",
                   "protein and (CA)", "CA == CB", "5 < 6", "'a' eq 'a'", "protein and 5 < 6", "water or 'HOH'",
                   "resname ALA or GLY", "name CA and CB"]


def malformed_from(rng, pools):
    w = lambda: render(rand_tree(rng, int(rng.integers(0, 2)), pools), rng)  # noqa: E731
    bo = ["and", "or", "&&", "||"]
    b = lambda: bo[int(rng.integers(4))]  # noqa: E731
    cm = lambda: CMP_ALL[int(rng.integers(12))]  # noqa: E731
    nk = lambda: NUM_KW[list(NUM_KW)[int(rng.integers(len(NUM_KW)))]][0]  # noqa: E731
    k = int(rng.integers(0, 16))
    if k == 0:
        return f"({w()}"
    if k == 1:
        return f"{w()})"
    if k == 2:
        return f"{w()} {b()} ({w()}"
    if k == 3:
        return f"{w()} {b()}"
    if k == 4:
        return f"{b()} {w()}"
    if k == 5:
        return f"{w()} {b()} {b()} {w()}"
    if k == 6:
        return f"{w()} {b()} {['not', '!'][int(rng.integers(2))]}"
    if k == 7:
        return f"{nk()} {cm()} {cm()} {int(rng.integers(0, 50))}"
    if k == 8:
        return f"{nk()} {cm()}"
    if k == 9:
        return f"{cm()} {int(rng.integers(0, 50))} {b()} {w()}"
    if k == 10:
        return f"{nk()} {int(rng.integers(0, 50))} to"
    if k == 11:
        return f"{w()} {b()} {nk()} to {int(rng.integers(0, 50))}"
    if k == 12:
        return f"{w()} {b()} {['CA', '5', chr(39) + 'HOH' + chr(39), 'XX', '2.5'][int(rng.integers(5))]}"
    if k == 13:
        return f"{['CA', '7', chr(34) + 'O' + chr(34)][int(rng.integers(3))]} {b()} {w()}"
    if k == 14:
        return f"({w()}) {b()} ()"
    return f"{w()} {b()} {int(rng.integers(0, 9))} {cm()} {int(rng.integers(0, 9))}"


NCASES = {"quick": dict(d1=400, d2=440, rand=600, flat=440, malformed=180, spacing=200),
          "thorough": dict(rand=7000, flat=3000, malformed=2500, spacing=1500)}
MAXTOK = {"quick": 40, "thorough": 60}


def gen_cases(tier, seed):
    """The stream is shuffled (seeded) so that a budget cut thins every kind of case evenly."""
    cases = list(_gen_cases(tier, seed))
    order = common.rng_for("C12order", seed, tier).permutation(len(cases))
    for i, j in enumerate(order):
        c = cases[int(j)]
        c["i"] = i
        yield c


def _gen_cases(tier, seed):
    tops = top_names(tier)
    i = 0

    def case(kind, top, expr, nvar, **kw):
        nonlocal i
        c = dict(i=i, kind=kind, top=top, expr=expr, nvar=nvar, seed=common.case_seed(seed, "C12", i))
        c.update(kw)
        i += 1
        return c

    for t in tops:
        yield case("meaning", t, "all", 0)
    # (a) depth-0 alphabet
    for ti, t in enumerate(tops):
        top, table, pools = get_top(t)
        terms = depth0_terms(pools, common.rng_for("C12d0", t))
        for j, e in enumerate(terms):
            if tier == "thorough" or (j + seed) % len(tops) == ti:
                yield case("d0", t, e, 1)
    # (b) exhaustive small depths
    d1 = exhaustive_depth1()
    d2 = exhaustive_depth2()
    rs = common.rng_for("C12sample", seed)
    if tier == "thorough":
        for j, e in enumerate(d1):
            yield case("d1", tops[j % len(tops)], e, 1)
        for j, e in enumerate(d2):
            # the set is closed under respelling, so no rewrites; select_expression on every 4th
            yield case("d2", tops[(j // 7) % len(tops)], e, 0, l3=int(j % 4 == 0))
    else:
        for j in rs.choice(len(d1), NCASES[tier]["d1"], replace=False):
            yield case("d1", tops[int(j) % len(tops)], d1[int(j)], 1)
        for j in rs.choice(len(d2), NCASES[tier]["d2"], replace=False):
            yield case("d2", tops[(int(j) // 7) % len(tops)], d2[int(j)], 1)
    # (c) random trees
    for j in range(NCASES[tier]["rand"]):
        rng = common.rng_for("C12rand", seed, j)
        t = tops[int(rng.integers(len(tops)))]
        pools = get_top(t)[2]
        depth = int(rng.choice([1, 2, 2, 3, 3, 4, 5, 6] if tier == "thorough" else [1, 1, 2, 2, 2, 3, 3, 4, 5, 6]))
        for _ in range(20):
            tree = rand_tree(rng, depth, pools)
            e = render(tree, rng, redundant=float(rng.choice([0, 0, 0, 0.15])), amb=0.25, tight_not=0.5)
            if e.count(" ") + e.count("(") < MAXTOK[tier]:
                break
            depth = max(1, depth - 1)
        yield case("rand", t, e, 2 if tier == "quick" else 3, depth=depth)
    for j in range(NCASES[tier]["flat"]):
        rng = common.rng_for("C12flat", seed, j)
        t = tops[int(rng.integers(len(tops)))]
        e = render(flat_tree(rng, get_top(t)[2]), rng, redundant=0.0, amb=0.1, tight_not=0.5)
        yield case("flat", t, e, 2)
    # (d) malformed
    for j, e in enumerate(MALFORMED_FIXED):
        yield case("malformed", tops[j % len(tops)], e, 0)
    for j in range(NCASES[tier]["malformed"]):
        rng = common.rng_for("C12mal", seed, j)
        t = tops[int(rng.integers(len(tops)))]
        yield case("malformed", t, malformed_from(rng, get_top(t)[2]), 0)
    # (e) spacing
    for j in range(NCASES[tier]["spacing"]):
        rng = common.rng_for("C12space", seed, j)
        t = tops[int(rng.integers(len(tops)))]
        tree = rand_tree(rng, int(rng.choice([0, 1, 1, 2])), get_top(t)[2])
        yield case("spacing", t, render(tree, rng, redundant=0.3, amb=0.0), 0)


# ------------------------------------------------------------------------------------------------ real executions
class Real:
    __slots__ = ("outcome", "idx", "exc", "msg", "arr", "src")

    def __init__(self, outcome, idx=None, exc=None, msg="", arr=None):
        self.outcome, self.idx, self.exc, self.msg, self.arr = outcome, idx, exc, msg, arr
        self.src = None

    def same(self, other):
        if self.outcome != other.outcome:
            return False
        return self.outcome != "ok" or self.idx == other.idx

    def brief(self):
        if self.outcome == "ok":
            return f"selects {len(self.idx)} atoms {self.idx[:12]}"
        return f"{self.outcome} ({self.exc}: {self.msg[:90]})"


def _in_fresh_thread(fn):
    """Run fn on a new thread: every real call starts from the same (minimal) Python stack depth, so whether the
    19-level pyparsing grammar hits the recursion limit does not depend on where the harness called it from."""
    box = {}

    def run():
        try:
            box["v"] = fn()
        except BaseException as ex:  # noqa: BLE001
            box["e"] = ex
    t = threading.Thread(target=run)
    t.start()
    t.join()
    if "e" in box:
        raise box["e"]
    return box["v"]


def _raised_while_parsing(ex):
    """Did the exception come out of mdtraj.core.selection.parse_selection (as opposed to the compiled predicate
    being applied to an atom)?  Read off the traceback, so no second parse is needed."""
    tb = ex.__traceback__
    while tb is not None:
        co = tb.tb_frame.f_code
        if co.co_name == "__call__" and co.co_filename.replace("\\", "/").endswith("mdtraj/core/selection.py"):
            return True
        tb = tb.tb_next
    return False


def real_select(top, e, want_source=False):
    """The real Topology.select (outcome ok / reject = raised while parsing / evalerror = raised while filtering)."""
    def work():
        try:
            arr = top.select(e)
        except Exception as ex:  # noqa: BLE001
            exc, msg = type(ex).__name__, str(ex).splitlines()[0] if str(ex) else ""
            return Real("reject" if _raised_while_parsing(ex) else "evalerror", exc=exc, msg=msg)
        try:
            idx = [int(x) for x in np.asarray(arr).ravel().tolist()]
        except Exception:  # noqa: BLE001
            idx = None
        r = Real("ok", idx=idx, arr=arr)
        if want_source:
            try:
                r.src = top.select_expression(e)
            except Exception as ex:  # noqa: BLE001
                r.src = ex
        return r
    return _in_fresh_thread(work)


def outcome_word(real):
    return {"reject": "rejected", "evalerror": "error-at-evaluation", "ok": "wrong-selection"}[real.outcome]


def explains(b, c):
    """Would a parser that orders infix operators alphabetically by spelling give connective b a tighter binding
    than comparison c?  ('=~' is appended after the sorted table, i.e. loosest of all.)"""
    return c == "=~" or b < c


def pair_class(b, c):
    if c == "=~":
        return "connective-binds-tighter-than-=~"
    if c == "not":
        return f"{b}-binds-tighter-than-not"
    return f"{b}-binds-tighter-than-{'fortran' if c.isalpha() else 'symbolic'}-comparison"


KEY_RECURSION = "parser:RecursionError-on-nested-parentheses"


class Judge:
    """Runs expressions of one case against the real code and the reference, memoised, with diagnosis."""

    def __init__(self, top, table, ctx):
        self.top, self.table, self.ctx = top, table, ctx
        self.memo = {}
        self.calls = 0

    def real(self, e, want_source=False):
        if e not in self.memo:
            self.calls += 1
            self.memo[e] = real_select(self.top, e, want_source)
        return self.memo[e]

    def mismatch(self, p):
        """None if real agrees with the reference for Parsed p (status ok); else the Real."""
        r = self.real(p.s)
        want = ref.evaluate(p, self.table)
        if r.outcome == "ok" and r.idx == want:
            return None
        return r

    def shrink(self, p, budget=14):
        node = p.tree
        while True:
            nxt = None
            kids = node.kids if node.kind in ("and", "or", "not", "paren") else []
            for c in kids:
                if budget <= 0:
                    break
                q = ref.Parsed(p.text(c))
                if q.status != "ok":
                    continue
                budget -= 1
                try:
                    bad = self.mismatch(q)
                except ref.Undefined:
                    continue
                if bad is not None:
                    nxt = c
                    break
            if nxt is None:
                return node
            node = nxt

    def diagnose(self, p, r, _depth=0):
        """Mechanism key for a reference mismatch of Parsed p (status ok) with real outcome r."""
        if r.exc == "RecursionError":
            return KEY_RECURSION
        want = ref.evaluate(p, self.table)
        pairs = [(b, c, n) for b, c, n in ref.capture_pairs(p) if explains(b, c)]
        if pairs:
            classes = sorted({pair_class(b, c) for b, c, _ in pairs})

            def repaired(cls=None):
                w = {(n.lo, n.hi) for b, c, n in pairs if cls is None or pair_class(b, c) == cls}
                rf = self.real(ref.rebuild(p, wraps=w))
                return rf.outcome == "ok" and rf.idx == want
            if repaired():
                if len(classes) > 1:
                    for cl in classes:
                        if repaired(cl):
                            return f"precedence:{cl}:{outcome_word(r)}"
                return f"precedence:{classes[0]}:{outcome_word(r)}"
        node = self.shrink(p)
        if node is not p.tree and _depth < 3:
            q = ref.Parsed(p.text(node))
            if q.status == "ok" and q.s != p.s:
                rq = self.real(q.s)
                return self.diagnose(q, rq, _depth + 1)
        # the repair was not conclusive (several defects interact, or the repaired text exceeds the parser's
        # nesting capacity): does a minimal probe built around one of the suspicious operator pairs fail by itself?
        for cl in sorted({pair_class(b, c) for b, c, _ in pairs}):
            for b, c, n in pairs:
                if pair_class(b, c) != cl:
                    continue
                if c == "not":
                    probes = [f"{b} {c} all"]
                else:
                    unit = "all" if b in ("and", "&&") else "none"
                    probes = [f"{unit} {b} {p.text(n)}", f"{p.text(n)} {b} {unit}"]
                for pr in probes:
                    q = ref.Parsed(pr)
                    try:
                        if q.status == "ok" and self.mismatch(q) is not None:
                            return f"precedence:{cl}:{outcome_word(r)}"
                    except ref.Undefined:
                        pass
                break
        # is the selection machinery broken irrespective of the expression?
        try:
            if self.mismatch(ref.Parsed("all")) is not None:
                return f"select:wrong-even-for-all:{outcome_word(r)}"
        except ref.Undefined:
            pass
        # is it one particular spelling of a keyword?  (another documented alias of the same keyword works)
        if node.kind in ("kw", "implicit", "inlist", "range", "cmp", "regex") and _depth < 3:
            q = ref.Parsed(p.text(node))
            if q.status == "ok":
                for i, tk in enumerate(q.toks):
                    if tk.kind != "KW":
                        continue
                    for alt in ref.token_synonyms(q, i):
                        q2 = ref.Parsed(ref.rebuild(q, {i: alt}))
                        try:
                            if q2.status == "ok" and self.mismatch(q2) is None:
                                return f"keyword-alias:{tk.text}:{outcome_word(r)}"
                        except ref.Undefined:
                            pass
        detail = node.kind
        if node.kind == "kw":
            detail += ":" + p.toks[node.tok].value[0]
        elif node.kind == "cmp":
            detail += ":" + ref.CMP_CANON[p.toks[node.ops[0]].text]
        return f"reference:{detail}:{outcome_word(r)}"

    def hypothesis_key(self, ps, r_a, r_b):
        """Key for a rewrite that changed the outcome when no reference value exists (ambiguous expressions)."""
        for r in (r_a, r_b):
            if r.exc == "RecursionError":
                return KEY_RECURSION
        classes = sorted({pair_class(b, c) for p in ps for b, c, _ in ref.capture_pairs(p) if explains(b, c)})
        if classes:
            word = "rejected" if "reject" in (r_a.outcome, r_b.outcome) else (
                "error-at-evaluation" if "evalerror" in (r_a.outcome, r_b.outcome) else "wrong-selection")
            return f"precedence:{classes[0]}:{word}"
        return None


# ---------------------------------------------------------------------------------------------------- run_case
def _check_form(ctx, e, r):
    arr = r.arr
    ok = isinstance(arr, np.ndarray) and arr.ndim == 1
    if not ok:
        ctx.violation("result-form", "select:result-not-1d-ndarray", f"select({e!r}) returned {type(arr).__name__}")
        return
    if arr.dtype.kind not in "iu":
        if arr.size == 0:
            ctx.violation("result-form", "select:empty-result-has-float-dtype",
                          f"select({e!r}) selects nothing and returns dtype {arr.dtype} (documented dtype=int; "
                          "a float array cannot be used as an index)", dtype=str(arr.dtype))
        else:
            ctx.violation("result-form", "select:result-dtype-not-integer", f"select({e!r}) returned dtype {arr.dtype}")
        return
    if arr.size > 1 and not bool(np.all(np.diff(arr) > 0)):
        ctx.violation("result-form", "select:result-not-strictly-increasing", f"select({e!r}) = {arr[:20]}")
        return
    ctx.ok("result-form")


def _layer3(ctx, top, e, r):
    src = r.src
    if isinstance(src, Exception):
        ctx.violation("select-vs-expression", "select_expression:raises-where-select-works",
                      f"select_expression({e!r}) raised {type(src).__name__} but select returned {len(r.idx)} atoms")
        return
    try:
        got = eval(src, {"topology": top, "re": re, "__builtins__": {}})  # the documented way to use the source
        got = [int(x) for x in got]
    except Exception as ex:  # noqa: BLE001
        ctx.violation("select-vs-expression", "select_expression:source-does-not-evaluate",
                      f"eval(select_expression({e!r})) raised {type(ex).__name__}: {ex}", source=src)
        return
    if got != r.idx:
        ctx.violation("select-vs-expression", "select_expression:differs-from-select",
                      f"eval(select_expression({e!r})) gives {len(got)} atoms, select gives {len(r.idx)}",
                      source=src, first_diff=sorted(set(got) ^ set(r.idx))[:10])
    else:
        ctx.ok("select-vs-expression")


def _variants(p, rng, nvar, kind):
    """(monitor, description, new string, changed-token description)"""
    out = []
    toks = p.toks
    syn_idx = [i for i, tk in enumerate(toks) if tk.kind in ("AND", "OR", "NOT", "CMP", "KW")]
    lit_idx = [i for i, tk in enumerate(toks) if tk.kind in ("STR", "WORD")]
    amb = p.status == "ambiguous"
    nodes = [n for n in ref.boolean_nodes(p) if not (amb and n is not p.tree and ref.contains_ambiguous_not(n))]
    if amb:
        # parentheses may only go where both readings of `not` agree on what the sub-expression is
        nodes = [n for n in nodes if n is p.tree or not _inside_ambiguous(p.tree, n)]
    choices = []
    if syn_idx:
        choices += ["syn-all", "syn-one"]
    if lit_idx:
        choices.append("quote")
    if nodes and ref.paren_depth(p) < 3:
        choices.append("paren")
    if not choices:
        return out
    order = list(rng.permutation(len(choices)))
    for ci in order[:nvar]:
        c = choices[ci]
        if c == "syn-all":
            repl = {}
            for i in syn_idx:
                alts = ref.token_synonyms(p, i)
                if alts:
                    repl[i] = alts[int(rng.integers(len(alts)))]
            out.append(("synonym", "every operator and keyword respelled", ref.rebuild(p, repl), "all"))
        elif c == "syn-one":
            i = syn_idx[int(rng.integers(len(syn_idx)))]
            alts = ref.token_synonyms(p, i)
            if alts:
                a = alts[int(rng.integers(len(alts)))]
                out.append(("synonym", f"{toks[i].text} -> {a}", ref.rebuild(p, {i: a}), f"{toks[i].text}->{a}"))
        elif c == "quote":
            repl = {}
            for i in lit_idx:
                alts = ref.token_synonyms(p, i)
                if alts and rng.random() < 0.8:
                    repl[i] = alts[int(rng.integers(len(alts)))]
            if repl:
                out.append(("quoting", "string literals re-quoted", ref.rebuild(p, repl), "quote"))
        elif c == "paren":
            n = nodes[int(rng.integers(len(nodes)))]
            out.append(("parens", f"parentheses around {n.kind} node", ref.rebuild(p, wraps=[(n.lo, n.hi)]), n.kind))
    return out


def _inside_ambiguous(root, target):
    """True if target lies inside the operand of a `not` that is applied to a bare comparison."""
    def rec(node, inside):
        if node is target:
            return inside
        here = inside or (node.kind == "not" and node.kids[0].kind in ("cmp", "regex"))
        for k in node.kids:
            r = rec(k, here)
            if r is not None:
                return r
        return None
    return bool(rec(root, False))


def run_case(case, ctx):
    top, table, pools = get_top(case["top"])
    e = case["expr"]
    kind = case["kind"]
    ctx.observe("case-kind", kind)
    ctx.observe("topology", case["top"].split(":")[0])
    if kind == "meaning":
        if not table.walk_matches_index:
            ctx.violation("keyword-meaning", "topology:atom-index-not-position", "atom.index differs from its position")
        bad = table.keyword_meaning_problems()
        if bad:
            ctx.violation("keyword-meaning", f"keyword-meaning:{bad[0][0]}",
                          f"{len(bad)} atoms whose {bad[0][0]} flag contradicts the documented wording", first=bad[:5])
        else:
            ctx.ok("keyword-meaning")
        return
    p = ref.Parsed(e)
    ctx.observe("reference-status", p.status)
    J = Judge(top, table, ctx)
    r = J.real(e, want_source=bool(case.get("l3", 1)))
    ctx.observe("real-outcome", r.outcome if r.outcome == "ok" else f"{r.outcome}:{r.exc}")
    if p.toks is not None:
        ctx.observe("tokens", min(len(p.toks) // 5 * 5, 60))
        ctx.observe("paren-depth", ref.paren_depth(p))
        for tk in p.toks:
            if tk.kind in ("AND", "OR", "NOT", "CMP", "RE", "TO", "KW"):
                ctx.observe("spelling", tk.text)
            elif tk.kind == "STR":
                ctx.observe("literal-form", "single-quoted" if tk.text[0] == "'" else "double-quoted")
            elif tk.kind == "WORD":
                ctx.observe("literal-form", "bare")
            elif tk.kind == "NUM":
                ctx.observe("literal-form", "float" if "." in tk.text else "int")
    if p.tree is not None:
        for n in p.tree.walk():
            ctx.observe("node", n.kind)

    if kind == "malformed" or p.status == "malformed":
        if p.status != "malformed":
            if kind == "malformed" and p.status in ("undocumented", "ambiguous"):
                ctx.skip("malformed", "generated string is not clearly malformed: " + p.reason)
                return
            if kind == "malformed":
                raise AssertionError(f"generator produced a well-formed 'malformed' case: {e!r}")
        ctx.observe("malformed-class", p.reason)
        if r.outcome == "ok":
            ctx.violation("malformed", f"malformed-accepted:{p.reason}",
                          f"malformed expression {e!r} ({p.reason}) is accepted and {r.brief()}", expr=e)
        else:
            ctx.ok("malformed")
            ctx.observe("malformed-rejected-with", r.exc)
        return

    if r.outcome == "ok":
        _check_form(ctx, e, r)
        if case.get("l3", 1):
            _layer3(ctx, top, e, r)

    if p.status == "undocumented":
        ctx.skip("reference", "outside the documented language: " + p.reason)
        return

    def judge_reference(q, label, reuse=None):
        """layer 1 on Parsed q; returns key on violation, None otherwise (reuse: key already established for an
        expression of identical meaning on which the real code behaved identically)"""
        if q.status != "ok":
            ctx.skip("reference", "ambiguous: not applied to an unparenthesised comparison")
            return None
        try:
            bad = J.mismatch(q)
        except ref.Undefined as u:
            ctx.skip("reference", f"undefined: {u}")
            return None
        if bad is None:
            ctx.ok("reference")
            return None
        key = reuse or J.diagnose(q, bad)
        want = ref.evaluate(q, table)
        ctx.violation("reference", key,
                      f"{label} {q.s!r} on {case['top']}: real {bad.brief()}; reference selects {len(want)} atoms {want[:12]}",
                      expr=q.s, real=bad.idx if bad.idx is None else bad.idx[:40], reference=want[:40])
        return key

    base_key = judge_reference(p, "expression")

    rng = common.rng_for("C12var", case["seed"])
    if kind == "spacing":
        vs = []
        c = ref.compact(p)
        if c != e:
            vs.append(("spacing", "optional whitespace removed", c, "compact"))
        vs.append(("spacing", "whitespace widened (spaces, tabs, trailing newline)", ref.widen(p), "wide"))
    else:
        vs = _variants(p, rng, case.get("nvar", 1), kind)
    for mon, desc, ve, what in vs:
        if ve == e:
            continue
        q = ref.Parsed(ve)
        if q.status not in ("ok", "ambiguous") or q.status != p.status:
            raise AssertionError(f"rewrite changed the reference status: {e!r} ({p.status}) -> {ve!r} ({q.status})")
        rv = J.real(ve)
        vkey = None
        if q.status == "ok" and mon != "spacing":
            try:
                if ref.evaluate(q, table) != ref.evaluate(p, table):
                    raise AssertionError(f"rewrite changed the reference meaning: {e!r} -> {ve!r}")
            except ref.Undefined:
                pass
            vkey = judge_reference(q, "rewritten expression", reuse=base_key if rv.same(r) else None)
        ctx.observe("rewrite", mon + ":" + (what if mon != "synonym" or what == "all" else "one"))
        if rv.same(r):
            ctx.ok(mon)
            continue
        key = vkey or base_key
        if key is None and mon == "spacing":
            key = _spacing_key(J, p, r)
        if key is None:
            key = J.hypothesis_key([p, q], r, rv)
        if key is None:
            key = f"rewrite:{mon}:{what if mon != 'synonym' else _syn_class(what)}:changes-" + (
                "acceptance" if r.outcome != rv.outcome else "selection")
        ctx.violation(mon, key, f"{desc}: {e!r} {r.brief()} but {ve!r} {rv.brief()} (topology {case['top']})",
                      expr=e, rewritten=ve)


def _syn_class(what):
    if what == "all":
        return "all"
    a, b = what.split("->")
    if a in ref.KEYWORDS:
        return "keyword-alias:" + ref.KEYWORDS[a][0]
    return "<->".join(sorted([a, b]))


def _spacing_key(J, p, r):
    """Which single junction makes the compact form behave differently?"""
    for i in range(1, len(p.toks)):
        c = ref.compact(p, only=i)
        if c == p.s:
            continue
        rc = J.real(c)
        if not rc.same(r):
            a, b = p.toks[i - 1], p.toks[i]
            la = a.text if a.kind in ("AND", "OR", "NOT", "CMP", "RE", "TO", "LP", "RP") else a.kind.lower()
            lb = b.text if b.kind in ("AND", "OR", "NOT", "CMP", "RE", "TO", "LP", "RP") else b.kind.lower()
            word = "rejected" if rc.outcome == "reject" else ("error-at-evaluation" if rc.outcome == "evalerror" else "changes-selection")
            if a.kind == "NOT" and a.text == "not":
                return f"spacing:not-needs-a-trailing-blank:{word}"
            return f"spacing:no-space-between-{la}-and-{lb}:{word}"
    return None


def evidence_extra(records, dones, tier):
    # only cases with a violation are forwarded in full; totals per kind are in observed["case-kind"]
    kinds = {}
    for r in records:
        if r.get("violations"):
            k = r["case"].get("kind")
            kinds[k] = kinds.get(k, 0) + 1
    return dict(violating_cases_by_kind=kinds,
                exhaustive_scope="all trees of depth <= 2 over 4 terms x {not,!} x {and,&&,or,||} and all depth-1 "
                "combinations of 21 terms" if tier == "thorough" else "seeded sample of that scope")
