"""C01 — save then load reproduces the trajectory, in every writable format.

Monitors (one execution = Trajectory.save(path, **options) of a generated trajectory through the real writers):

 roundtrip.*    md.load(path, top=...) (md.load_restrt / md.load_ncrestrt for the numbered restart files) is compared with the
                input in nm / ps / degrees: frame and atom counts, coordinates, times and unit cell iff the format stores them.
 independent.*  the written bytes are read again by vlib/oracle/c01_parsers.py (struct / text columns / netCDF4 / tables written
                from the format specifications, no mdtraj) and must hold input x exact unit factor in the file's native unit and
                layout; a file the specification-reader cannot take apart is a layout violation.
 restart.*      n-frame rst7/ncrst: file path.k must carry frame k's coordinates, time k and cell k (restart.bytes.* = the same
                through the independent reader).
 fileobj.xyz    md.open(path).read() returns the coordinates in the unit the file class documents (native unit), same quantum.
 format.<ext>   one event per case of that extension whose round trip was judged (floors => a format that refused every case
                makes the run inconclusive; per-format refusal counts are in coverage.formats).

Tolerances (derived from the documented field formats, never from the observed behaviour; EPS = 2^-24):
 coordinates, round trip, in nm:  q/2 + k*EPS*|x| (+1e-12), q = documented quantum in nm:
      h5, trr, xtc<=9 atoms: q = 0, k = 0 (float32 nm stored verbatim)      xtc > 9 atoms: q = 1e-3 (precision 1000), k = 8
      dcd, nc, dtr, ncrst: q = 0, k = 6 (float32 roundings of x*10, of the decimal/double->float32, of float32(0.1), of *0.1)
      pdb / mdcrd '%8.3f' A, xyz / lammpstrj '{:8.3f}' A: q = 1e-4, k = 6      rst7 '%12.7f' A: q = 1e-8, k = 6
      gro precision p: q = 10^-p, k = 2.   pdb beyond the 8.3 field (documented '_format_83' lops decimals off): q = one unit
      of the last digit kept, not halved (truncation).
 coordinates, independent reader, native unit v = u*x:  binary: 2*EPS*|v| (u = 10) or exact (u = 1); text: q_native/2 measured
      against the nearer of x*10 evaluated in float32 and in float64 (the number handed to the formatter), no float slack
      (+4e-16*|v| for the float64 image of the decimal); pdb keeps q/2 + 2*EPS*|v| because of its degraded-precision branch.
 times: float32/float64 fields exact; rst7 '%15.7e' half a unit of the 8th significant digit; gro 't= %s' exact (repr).
 cell lengths as coordinates (gro box '%10.5f' nm, pdb CRYST1 '%9.3f' A, mdcrd '%8.3f' A, rst7 '%12.7f' A); formats that store
 box vectors (xtc, trr, gro, dtr) get 64*EPS*|L| for the float32 length/angle <-> vector conversions; cell angles: 64*EPS rad
 (2.2e-4 deg) for those conversions + the field quantum (CRYST1 '%7.2f' -> 0.005 deg; gro vector components 1e-5 nm ->
 sqrt(3)*1e-5*(1/|u|+1/|v|) rad).

Keys: <format>:<field>:<mechanism>.  Cases in which a coordinate does not fit the format's field (gro %(p+5).pf, rst7 %12.7f,
compressed xtc int32(1000 x)) - the "just outside the field limit" part of the workload - report every coordinate/layout
disagreement under the single key <format>:xyz:field-overflow-written-not-refused (mdcrd and pdb refuse or degrade as documented).

Round-5 widening (stream "C01wide", same monitors and tolerances): coordinate patterns a compressor / formatter may special-case
(water-like clusters of 3 atoms, planar systems with one component exactly constant or exactly 0, all atoms at one point, values on
the 0.001 grid and half-way between grid points), array layouts (trajectory built on a non-contiguous / Fortran-ordered view,
float64 times and cells), further time series (constant, non-monotonic) and cells (only ONE of the six cell fields varies along the
trajectory), topologies with chain ids / segment ids / serials / bonds, the save entry points (Trajectory.save_<format>(), file
name as pathlib.Path, force_overwrite=False on a fresh path, saving over an existing LONGER file of the same name, HDF5
mode='a' appending the second half), reader options (load_pdb no_boxchk / standard_names), atom and residue counts exactly on
the width of the fixed columns (99999 / 100000 atoms, 9999 / 10000 residues), frame counts around 100 and 256, and 9 / 10 / 100
numbered restart files (zero padding changes width)."""
from __future__ import annotations

import atexit
import math
import os
import pathlib
import shutil
import tempfile

import numpy as np

from vlib.gen import common, files
from vlib.oracle import c01_parsers as P

PROPERTY = "C01"
LEVEL = "exploration"
NATIVE = ["mdtraj.formats.xtc", "mdtraj.formats.trr", "mdtraj.formats.dcd", "mdtraj.formats.dtr"]
RULE = ("thorough: exhaustive grid extension x n_atoms x magnitude x sign x cell kind (2 frames) plus the seeded stream; case = (extension incl. aliases and .gz, n_frames 1..40, n_atoms in {1,2,3,8,9,10,11,12,33,100,1000}, coordinate "
        "magnitude 1e-3 .. 3e6 nm (just inside / outside every fixed-width limit), sign pattern, time series kind, cell kind "
        "none/cubic/ortho/triclinic/per-frame, gro precision 1..6, pdb ter/header/bfactors, topology kind) from a seeded stream; "
        "round-5 stream C01wide: coordinate patterns (clusters, planar, coincident, on / between grid points), array layouts, constant / non-monotonic times, one-field-varying cells, rich topologies, save entry points (save_<fmt>, pathlib, force_overwrite=False, over an existing longer file, h5 mode=a), load_pdb options, column-width atom / residue counts, frame counts around 100 / 256, 9 / 10 / 100 numbered restart files; non-trivial = the file was written and at least one monitor compared it with the input; distinct = distinct descriptors")
WORKERS = {"quick": 8, "thorough": 16}
BUDGET = {"quick": 100, "thorough": 1500}
EPS = 2.0 ** -24
ANG_SLACK = math.degrees(64 * EPS)

# ext -> canonical format, native unit factor, text quantum in native units (None = binary), k slack, stores time, stores cell
FMT = {
    "h5":        dict(canon="h5", u=1.0, q=None, k=0, time=True, cell=True, self_top=True),
    "xtc":       dict(canon="xtc", u=1.0, q=None, k=0, time=True, cell=True, self_top=False, vectors=True),
    "trr":       dict(canon="trr", u=1.0, q=None, k=0, time=True, cell=True, self_top=False, vectors=True),
    "dcd":       dict(canon="dcd", u=10.0, q=None, k=6, time=False, cell=True, self_top=False),
    "nc":        dict(canon="nc", u=10.0, q=None, k=6, time=True, cell=True, self_top=False),
    "netcdf":    dict(canon="nc", u=10.0, q=None, k=6, time=True, cell=True, self_top=False),
    "ncdf":      dict(canon="nc", u=10.0, q=None, k=6, time=True, cell=True, self_top=False),
    "mdcrd":     dict(canon="mdcrd", u=10.0, q=1e-3, k=6, time=False, cell=True, self_top=False),
    "crd":       dict(canon="mdcrd", u=10.0, q=1e-3, k=6, time=False, cell=True, self_top=False),
    "xyz":       dict(canon="xyz", u=10.0, q=1e-3, k=6, time=False, cell=False, self_top=False),
    "xyz.gz":    dict(canon="xyz", u=10.0, q=1e-3, k=6, time=False, cell=False, self_top=False),
    "lammpstrj": dict(canon="lammpstrj", u=10.0, q=1e-3, k=6, time=False, cell=True, self_top=False),
    "gro":       dict(canon="gro", u=1.0, q=None, k=2, time=True, cell=True, self_top=True, vectors=True),
    "pdb":       dict(canon="pdb", u=10.0, q=1e-3, k=6, time=False, cell=True, self_top=True),
    "pdb.gz":    dict(canon="pdb", u=10.0, q=1e-3, k=6, time=False, cell=True, self_top=True),
    "dtr":       dict(canon="dtr", u=10.0, q=None, k=6, time=True, cell=True, self_top=False, vectors=True),
    "rst7":      dict(canon="rst7", u=10.0, q=1e-7, k=6, time=True, cell=True, self_top=False),
    "ncrst":     dict(canon="ncrst", u=10.0, q=None, k=6, time=True, cell=True, self_top=False),
}
EXT_STREAM = ["h5", "xtc", "trr", "dcd", "nc", "mdcrd", "xyz", "xyz.gz", "lammpstrj", "gro", "pdb", "pdb.gz", "dtr", "rst7", "ncrst",
              "xtc", "gro", "pdb", "rst7", "ncrst", "netcdf", "ncdf", "crd", "gro", "dcd", "trr", "mdcrd", "crd", "mdcrd"]
ATOMS = [1, 2, 3, 8, 9, 10, 11, 12, 33, 100, 1000]
MAGS = [1e-3, 0.1, 3.0, 3.0, 3.0, 50.0, 50.0, 99.9, 100.1, 999.9, 1000.1, 9999.9, 10000.1, 2e4, 1e5, 3e6]
TIME_KINDS = ["default", "nonuniform", "nonuniform", "large", "large-fine", "negative", "exp"]
CELL_KINDS = ["none", "cubic", "ortho", "tric", "tric", "pf-ortho", "pf-tric", "pf-mixed"]
NCASES = {"quick": 10000, "thorough": 50000}
FLOORS = {"quick": dict({"roundtrip.shape": 600, "roundtrip.xyz": 4500, "roundtrip.time": 2500, "roundtrip.cell": 4000,
                         "independent.layout": 600, "independent.shape": 550, "independent.xyz": 4500, "independent.time": 2500,
                         "independent.cell": 3500, "independent.xtc-header": 200, "independent.step": 120, "independent.dcd-header": 60,
                         "independent.pdb-bfactors": 50, "independent.pdb-ter": 50, "independent.mdcrd-box-columns": 30,
                         "restart.files": 50, "restart.xyz": 150, "restart.time": 150, "restart.cell": 150, "restart.bytes.xyz": 150,
                         "restart.bytes.time": 150, "fileobj.xyz": 4000},
                        **{f"format.{e}": 20 for e in FMT})}
FLOORS["thorough"] = {k: 4 * v for k, v in FLOORS["quick"].items()}
ASSUMPTIONS = [
    "PDB holds one CRYST1 record: with a per-frame varying cell only frame 0's cell is compared (later frames: skip)",
    "mdcrd with one atom and no box cannot be told from a boxed file (documented limitation of the format / has_box='detect'): "
    "round trip skipped, the independent reader (told that there is no box) still judges the bytes",
    "a cell-less trajectory must come back cell-less (an all-zero box in xtc/trr/gro means 'no box' in those formats)",
    "the compressed XTC body is not decoded by the independent reader: header (natoms, step, time, box, precision) and the integer "
    "bounding box only; DTR has no independent reader (round trip only)",
    "DCD cell slots [1],[3],[4] are taken as cos(gamma), cos(beta), cos(alpha) iff all lie in [-1,1], else degrees (NAMD/CHARMM)",
    "a save or load that raises is not a violation; it is counted per format and reason",
]
GROUPS = {"quick": [dict(name="asan", flavour="asan", workers=1)], "thorough": [dict(name="asan", flavour="asan", workers=2)]}

_TMP = None
_STATS = {}


def worker_init(tier, seed):
    global _TMP
    _TMP = tempfile.mkdtemp(prefix="c01-", dir="/var/tmp")
    atexit.register(shutil.rmtree, _TMP, True)


def worker_summary():
    return dict(formats=_STATS)


def _stat(ext, what):
    d = _STATS.setdefault(ext, {})
    d[what] = d.get(what, 0) + 1


def evidence_extra(records, dones, tier):
    tot = {}
    for d in dones:
        for ext, st in (d.get("extra") or {}).get("formats", {}).items():
            t = tot.setdefault(ext, {})
            for k, v in st.items():
                t[k] = t.get(k, 0) + v
    refused_all = sorted(e for e, t in tot.items() if t.get("cases", 0) and not t.get("judged", 0))
    return dict(formats=tot, formats_that_refused_every_case=refused_all)


# ---------------------------------------------------------------------------------------------------- generation
def _asan_twin(c, i):
    if FMT[c["ext"]]["canon"] in ("xtc", "trr", "dcd", "dtr") and (i % 9 == 0 or (c["na"] in (8, 9, 10, 1000) and i % 3 == 0)):
        d = dict(c)
        d["group"] = "asan"
        return d
    return None


def gen_cases(tier, seed):
    i = 0
    if tier == "thorough":
        # exhaustive small scope: every extension x atom count x magnitude x sign x cell kind, two frames
        mags = sorted(set(MAGS))
        for ext in FMT:
            canon = FMT[ext]["canon"]
            for na in ATOMS:
                for mag in mags:
                    for sign in ("mixed", "+", "-"):
                        for cell in ("none", "ortho", "tric", "pf-tric", "pf-mixed"):
                            c = dict(i=i, seed=common.case_seed(seed, "C01grid", i), ext=ext, nf=2, na=na, mag=float(mag),
                                     dist=("spread", "shell")[i % 2], sign=sign, time=("nonuniform", "large", "default")[i % 3], cell=cell,
                                     cellscale=(1.0, 20.0)[(i // 2) % 2], top=("ident", "random")[(i // 4) % 2])
                            if canon == "gro":
                                c["prec"] = 1 + i % 6
                            if canon == "pdb":
                                c.update(ter=bool(i % 2), header=bool((i // 2) % 2), bf=("none", "1d", "2d")[i % 3])
                            yield c
                            if i % 7 == 0:
                                d = _asan_twin(c, 0)
                                if d:
                                    yield d
                            i += 1
    n = NCASES[tier]
    big = 4000 if tier == "quick" else 40000
    for j in range(n):
        rng = common.rng_for("C01", seed, j)
        ext = EXT_STREAM[j % len(EXT_STREAM)]
        na = int(ATOMS[int(rng.integers(len(ATOMS)))])
        nf = int(rng.choice([1, 1, 2, 3, 5, 8, 13, 40, int(rng.integers(1, 41))]))
        if FMT[ext]["canon"] in ("rst7", "ncrst"):
            nf = min(nf, int(rng.choice([1, 2, 3, 5, 11] if tier == "quick" else [1, 2, 3, 5, 11, 40])))
        while nf * na > big and nf > 1:
            nf = max(1, nf // 2)
        c = dict(i=i + j, seed=common.case_seed(seed, "C01", j), ext=ext, nf=nf, na=na,
                 mag=float(MAGS[int(rng.integers(len(MAGS)))]), dist=str(rng.choice(["spread", "spread", "shell"])),
                 sign=str(rng.choice(["mixed", "mixed", "+", "-"])), time=str(TIME_KINDS[int(rng.integers(len(TIME_KINDS)))]),
                 cell=str(CELL_KINDS[int(rng.integers(len(CELL_KINDS)))]), cellscale=float(rng.choice([1.0, 1.0, 20.0])),
                 top=str(rng.choice(["ident", "random"])))
        if FMT[ext]["canon"] == "gro":
            c["prec"] = int(rng.integers(1, 7)) if rng.random() < 0.8 else None
        if FMT[ext]["canon"] == "pdb":
            c.update(ter=bool(rng.random() < 0.6), header=bool(rng.random() < 0.7), bf=str(rng.choice(["none", "none", "1d", "2d"])))
        yield c
        d = _asan_twin(c, j)
        if d:
            yield d
    # systems beyond the width of the fixed-column atom and residue number fields (PDB: 5 columns, GRO: 5 columns): every
    # format once in the thorough tier, the two text formats with numbered atoms plus two rotating others in the quick tier
    huge = list(EXT_STREAM) if tier == "thorough" else ["pdb", "gro"] + [EXT_STREAM[(seed * 2 + k) % len(EXT_STREAM)] for k in range(2)]
    for k, ext in enumerate(huge):
        c = dict(i=i + n + k, seed=common.case_seed(seed, "C01huge", k), ext=ext, nf=1, na=100005, mag=9.0, dist="spread", sign="+",
                 time="default", cell=("ortho", "none")[k % 2] if FMT[ext]["canon"] != "lammpstrj" else "ortho", cellscale=20.0, top="ident")
        if FMT[ext]["canon"] == "gro":
            c["prec"] = 3
        if FMT[ext]["canon"] == "pdb":
            c.update(ter=True, header=True, bf="none")
        yield c
    # many frames, few atoms: frame counts beyond any internal chunk, index or buffer size of the writers and readers
    long_ = [e for e in EXT_STREAM if FMT[e]["canon"] not in ("rst7", "ncrst")]
    if tier != "thorough":
        long_ = [long_[(seed * 3 + k * 5) % len(long_)] for k in range(4)]
    for k, ext in enumerate(long_):
        rng = common.rng_for("C01long", seed, k)
        c = dict(i=i + n + 100 + k, seed=common.case_seed(seed, "C01long", k), ext=ext, nf=int(rng.choice([1025, 2500, 4099])), na=int(rng.choice([1, 2, 3, 10])),
                 mag=9.0, dist="spread", sign="mixed", time="nonuniform", cell=str(rng.choice(["ortho", "none", "pf-tric"])), cellscale=1.0, top="ident")
        if FMT[ext]["canon"] == "lammpstrj" and c["cell"] == "none":
            c["cell"] = "ortho"
        if FMT[ext]["canon"] == "gro":
            c["prec"] = 3
        if FMT[ext]["canon"] == "pdb":
            c.update(ter=bool(k % 2), header=True, bf="none")
        yield c
    yield from _wide_cases(tier, seed, i + n + 1000)


DISTS_W = ["clusters", "clusters", "flat0", "flat", "same", "grid", "half"]
TIMES_W = ["constant", "nonmonotonic"]
ENTRIES_W = ["method", "pathlib", "no-overwrite", "over-existing"]
SAVE_METHOD = {"h5": "save_hdf5", "xtc": "save_xtc", "trr": "save_trr", "dcd": "save_dcd", "nc": "save_netcdf", "mdcrd": "save_mdcrd", "xyz": "save_xyz",
               "lammpstrj": "save_lammpstrj", "gro": "save_gro", "pdb": "save_pdb", "dtr": "save_dtr", "rst7": "save_amberrst7", "ncrst": "save_netcdfrst"}


def _wide_cases(tier, seed, i0):
    i = i0
    nw = 3600 if tier == "quick" else 16000
    for j in range(nw):
        rng = common.rng_for("C01wide", seed, j)
        ext = EXT_STREAM[j % len(EXT_STREAM)]
        canon = FMT[ext]["canon"]
        na = int(ATOMS[int(rng.integers(len(ATOMS)))])
        nf = int(rng.choice([1, 2, 3, 5, 8, 13, int(rng.integers(1, 41))]))
        if canon in ("rst7", "ncrst"):
            nf = min(nf, int(rng.choice([1, 2, 3, 5])))
        while nf * na > 4000 and nf > 1:
            nf = max(1, nf // 2)
        c = dict(i=i, seed=common.case_seed(seed, "C01wide", j), ext=ext, nf=nf, na=na, mag=float(rng.choice([1e-3, 0.1, 3.0, 3.0, 50.0, 99.9, 999.9])),
                 dist="spread", sign=str(rng.choice(["mixed", "mixed", "+", "-"])), time=str(rng.choice(["nonuniform", "default", "large"])),
                 cell=str(CELL_KINDS[int(rng.integers(len(CELL_KINDS)))]), cellscale=float(rng.choice([1.0, 1.0, 20.0])), top=str(rng.choice(["ident", "random"])))
        if canon == "gro":
            c["prec"] = int(rng.integers(1, 7)) if rng.random() < 0.8 else None
        if canon == "pdb":
            c.update(ter=bool(rng.random() < 0.6), header=bool(rng.random() < 0.7), bf=str(rng.choice(["none", "none", "1d", "2d"])))
        which = j % 9
        if which in (0, 1):
            c["dist"] = DISTS_W[int(rng.integers(len(DISTS_W)))]
        elif which == 2:
            c["layout"] = str(rng.choice(["noncontig", "fortran", "f64meta"]))
        elif which == 3:
            c["time"] = TIMES_W[int(rng.integers(len(TIMES_W)))]
        elif which == 4:
            c["cell"] = "pf-onefield"
            c["nf"] = max(c["nf"], 3) if canon not in ("rst7", "ncrst") else 3
        elif which == 5:
            c["top"] = "rich"
        elif which == 6:
            c["entry"] = ENTRIES_W[int(rng.integers(len(ENTRIES_W)))]
        elif which == 7:
            if canon == "h5" and c["nf"] >= 2:
                c["h5a"] = int(rng.integers(1, c["nf"]))
            elif canon == "pdb":
                c["lk"] = str(rng.choice(["no_boxchk", "standard_names=False"]))
                if c["lk"] == "no_boxchk":
                    c.update(cell="ortho", cellscale=1.0, na=int(rng.choice([100, 1000])), nf=1, mag=3.0)   # > 1000 atoms / nm^3 is possible
            else:
                c["dist"], c["layout"] = DISTS_W[int(rng.integers(len(DISTS_W)))], str(rng.choice(["noncontig", "fortran"]))
        else:
            c["dist"] = DISTS_W[int(rng.integers(len(DISTS_W)))]
            c["entry"] = ENTRIES_W[int(rng.integers(len(ENTRIES_W)))]
            c["time"] = str(rng.choice(TIMES_W + ["nonuniform"]))
        yield c
        d = _asan_twin(c, j)
        if d:
            yield d
        i += 1
    # atom / residue counts exactly on the width of the fixed columns of PDB and GRO (5-digit atom serial, 4/5-digit residue number)
    edge = [(e, na) for e in ("pdb", "gro") for na in (99999, 100000, 29997, 30000)]
    if tier != "thorough":
        edge = [edge[(seed + k * 3) % len(edge)] for k in range(3)]
    for k, (ext, na) in enumerate(edge):
        c = dict(i=i, seed=common.case_seed(seed, "C01edge", k), ext=ext, nf=1, na=na, mag=9.0, dist="spread", sign="+", time="default",
                 cell=("ortho", "none")[k % 2], cellscale=20.0, top="ident")
        if ext == "gro":
            c["prec"] = 3
        else:
            c.update(ter=True, header=True, bf="none")
        yield c
        i += 1
    # frame counts around 100 and 256 (default chunk / one-byte counters), few atoms
    fl = [e for e in EXT_STREAM if FMT[e]["canon"] not in ("rst7", "ncrst")]
    counts = [99, 100, 101, 255, 256, 257]
    sel = [(e, m) for e in sorted(set(fl)) for m in counts]
    if tier != "thorough":
        # every format meets a 100-frame file in every run (counters and header fields kept per 100 frames), the other
        # boundary counts rotate with the seed
        sel = [(e, 100) for e in sorted(set(fl))] + [("dcd", 200)] + [sel[(seed * 7 + k * 11) % len(sel)] for k in range(8)]
    else:
        sel = sel + [(e, m) for e in ("dcd", "xtc", "trr", "nc", "h5") for m in (200, 300, 1000)]
    for k, (ext, m) in enumerate(sel):
        c = dict(i=i, seed=common.case_seed(seed, "C01count", k), ext=ext, nf=m, na=int([1, 3, 10][k % 3]), mag=9.0, dist="spread", sign="mixed", time="nonuniform",
                 cell=["ortho", "none", "pf-tric"][k % 3], cellscale=1.0, top="ident")
        if FMT[ext]["canon"] == "lammpstrj" and c["cell"] == "none":
            c["cell"] = "ortho"
        if FMT[ext]["canon"] == "gro":
            c["prec"] = 3
        if FMT[ext]["canon"] == "pdb":
            c.update(ter=bool(k % 2), header=True, bf="none")
        yield c
        i += 1
    # HDF5: single fields stored in another unit than the rest (every non-empty subset of the four unit-bearing fields)
    import itertools as _it
    subsets = [list(c) for r in range(1, 5) for c in _it.combinations(sorted(H5_UNIT_EDITS), r)]
    for k, fields in enumerate(subsets):
        yield dict(i=i, kind="h5units", seed=common.case_seed(seed, "C01h5u", k), ext="h5", nf=3, na=int([2, 10, 33][k % 3]), mag=5.0, dist="spread", sign="mixed",
                   time="nonuniform", cell=["tric", "ortho", "pf-tric"][k % 3], cellscale=1.0, top="ident", fields=fields)
        i += 1
    # numbered restart files: the zero padding of the suffix changes width at 10 and 100 frames
    for k, (ext, m) in enumerate([(e, m) for e in ("rst7", "ncrst") for m in ((9, 10) if tier == "quick" else (9, 10, 99, 100))]):
        yield dict(i=i, seed=common.case_seed(seed, "C01rst", k), ext=ext, nf=m, na=int([3, 10][k % 2]), mag=3.0, dist="spread", sign="mixed", time="nonuniform",
                   cell=["ortho", "pf-tric"][k % 2], cellscale=1.0, top="ident")
        i += 1


def _topology(case):
    if case["top"] == "ident":
        return files.ident_top(case["na"])
    if case["top"] == "rich":
        # chain ids (repeated ones too), segment ids, residue numbers with gaps and repeats, atom serials with gaps, typed bonds
        return common.random_topology(common.rng_for("C01top", case["seed"]), case["na"], rich=True, bonds=True)
    return common.random_topology(common.rng_for("C01top", case["seed"]), case["na"], rich=False, bonds=False)


def _build(case):
    import mdtraj as md
    rng = common.rng_for("C01case", case["seed"])
    nf, na, M = case["nf"], case["na"], case["mag"]
    dist = case["dist"]
    r = (rng.uniform(1 - 1e-3, 1, (nf, na, 3)) if dist == "shell" else rng.uniform(0, 1, (nf, na, 3))) * M
    if dist == "clusters":
        # water-like: groups of three atoms within 0.1 nm of centres spread over the magnitude (what the XTC run-length /
        # small-difference encoding and its atom swapping are made for)
        centres = rng.uniform(0, 1, (nf, (na + 2) // 3, 3)) * M
        r = np.repeat(centres, 3, axis=1)[:, :na] + rng.uniform(-0.1, 0.1, (nf, na, 3)) * min(1.0, M)
        r = np.abs(r)
    elif dist in ("flat", "flat0"):
        # planar system: one Cartesian component identical for all atoms and frames (exactly 0 for flat0)
        r[..., int(rng.integers(3))] = 0.0 if dist == "flat0" else float(np.float32(rng.uniform(0, 1) * M))
    elif dist == "same":
        r = np.repeat(rng.uniform(0, 1, (nf, 1, 3)) * M, na, axis=1)
    elif dist in ("grid", "half"):
        # exact multiples of 0.001 nm (grid), or half-way between two of them (half): decimal formatters and the XTC quantiser
        # see values on / between their grid points
        r = (np.floor(r * 1000.0) + (0.5 if dist == "half" else 0.0)) / 1000.0
    if case["sign"] == "-":
        r = -r
    elif case["sign"] == "mixed":
        r = r * rng.choice([-1.0, 1.0], size=r.shape)
    r.reshape(-1)[0] = M if case["sign"] != "-" else -M
    if r.size > 4:
        r.reshape(-1)[4] = 1e-3
    xyz = r.astype(np.float32)
    layout = case.get("layout")
    if layout == "noncontig":
        big = np.full((nf, na, 6), 7.5e8, dtype=np.float32)   # the gaps hold a value no format could hold
        big[..., ::2] = xyz
        xyz = big[..., ::2]
    elif layout == "fortran":
        xyz = np.asfortranarray(xyz)
    t = md.Trajectory(xyz, _topology(case))
    tk = case["time"]
    k = np.arange(nf)
    if tk == "nonuniform":
        t.time = np.cumsum(rng.uniform(0.5, 3.0, nf)).astype(np.float32)
    elif tk == "large":
        t.time = (float(rng.choice([1e4, 123456.0, 1e6, 1e7])) + np.cumsum(rng.integers(1, 9, nf))).astype(np.float32)
    elif tk == "large-fine":
        t.time = (float(rng.choice([5000.0, 10000.0, 16000.0])) + k * float(rng.choice([0.002, 0.01, 0.05]))).astype(np.float32)
    elif tk == "negative":
        t.time = (-10.0 + np.cumsum(rng.uniform(0.5, 3.0, nf))).astype(np.float32)
    elif tk == "exp":
        t.time = ((k + 1) * 3e16).astype(np.float32) if rng.random() < 0.5 else (5e-5 + k).astype(np.float32)
    elif tk == "constant":
        t.time = np.full(nf, float(rng.choice([0.0, 7.5, 1000.0])), np.float32)   # e.g. minimisation output: every frame the same time
    elif tk == "nonmonotonic":
        t.time = rng.permutation(np.cumsum(rng.uniform(0.5, 3.0, nf))).astype(np.float32)   # joined / reordered runs
    if layout == "f64meta" and tk != "default":
        t.time = np.asarray(t.time, np.float64)
    ck = case["cell"]
    if ck != "none":
        per = ck.startswith("pf-")
        kind = {"cubic": "cubic", "ortho": "ortho", "pf-ortho": "ortho"}.get(ck)
        cells = []
        for f in range(nf if per else 1):
            kk = kind or common.CELL_KINDS[2 + int(rng.integers(len(common.CELL_KINDS) - 2))]
            if ck == "pf-mixed":
                # the cell CLASS changes along the trajectory: rectangular first frame(s), skewed later (a box that starts to
                # shear, or two runs joined) — or the other way round
                first_rect = bool(case["seed"] % 3)
                kk = "ortho" if (f == 0) == first_rect or (f and rng.random() < 0.3) else kk
            cells.append(common.random_cell(rng, kk))
        if ck == "pf-onefield":
            # only ONE of the six cell fields changes along the trajectory (semi-isotropic pressure coupling, a shearing box)
            fld = int(rng.integers(6))
            base = common.random_cell(rng, "ortho" if fld < 3 and rng.random() < 0.5 else common.CELL_KINDS[2 + int(rng.integers(len(common.CELL_KINDS) - 2))])
            cells = []
            for f in range(nf):
                L, A = np.array(base[0], float), np.array(base[1], float)
                if fld < 3:
                    L[fld] *= 1.0 + 0.01 * f
                else:
                    A[fld - 3] += 0.25 * ((f % 5) - 2)
                cells.append((L, A))
        elif not per:
            cells = cells * nf
        mdt = np.float64 if layout == "f64meta" else np.float32
        t.unitcell_lengths = (np.array([c[0] for c in cells]) * case["cellscale"]).astype(np.float32).astype(mdt)
        t.unitcell_angles = np.array([c[1] for c in cells]).astype(np.float32).astype(mdt)
    return t, rng


def _save_kwargs(case, T, rng):
    kw = {}
    if case.get("prec") is not None:
        kw["precision"] = case["prec"]
    if FMT[case["ext"]]["canon"] == "pdb":
        kw.update(ter=case["ter"], header=case["header"])
        if case["bf"] == "1d":
            kw["bfactors"] = np.round(rng.uniform(-9.9, 99.9, T.n_atoms), 2)
        elif case["bf"] == "2d":
            kw["bfactors"] = np.round(rng.uniform(-9.9, 99.9, (T.n_frames, T.n_atoms)), 2)
    return kw


# ---------------------------------------------------------------------------------------------------- tolerances
def _fits(values, width, prec):
    """does every value fit the C format %<width>.<prec>f ?  (python's % formatting is the C definition)"""
    v = np.asarray(values, np.float64).reshape(-1)
    lim_hi = 10.0 ** (width - prec - 1) - 0.5 * 10.0 ** -prec
    lim_lo = -(10.0 ** (width - prec - 2)) + 0.5 * 10.0 ** -prec
    cand = v[(v >= lim_hi * (1 - 1e-6)) | (v <= lim_lo * (1 - 1e-6))]
    return all(len("%.*f" % (prec, float(x))) <= width for x in cand)


def _field_overflow(case, T):
    canon = FMT[case["ext"]]["canon"]
    if canon == "gro":
        p = case.get("prec") or 3
        return not _fits(T.xyz, p + 5, p)
    if canon == "rst7":
        return not _fits(T.xyz.astype(np.float64) * 10.0, 12, 7)
    if canon == "xtc" and T.n_atoms > 9:
        # compressed frames hold int32(round(1000 x)); xdrfile.c flags |1000 x +- 0.5| > INT_MAX-2 as "internal overflow"
        return bool(np.abs(T.xyz.astype(np.float64)).max() * 1000.0 + 0.5 > 2147483645.0)
    return False


def _pdb_quantum(v):
    """per value documented quantum of _format_83 in Angstrom and whether it is a truncation (value array v in Angstrom)"""
    v = np.asarray(v, np.float64)
    q = np.full(v.shape, 1e-3)
    trunc = np.zeros(v.shape, bool)
    out = (v >= 9999.9985) | (v <= -999.9985)
    for idx in zip(*np.nonzero(out)):
        s = "%.3f" % v[idx]
        if len(s) <= 8:
            continue
        kept = s[:8]
        dec = len(kept.split(".")[1]) if "." in kept else 0
        q[idx] = 10.0 ** -dec
        trunc[idx] = True
    return q, trunc


def _xyz_tol_nm(case, T):
    """round-trip tolerance array in nm"""
    info = FMT[case["ext"]]
    x = np.abs(T.xyz.astype(np.float64))
    canon = info["canon"]
    k = info["k"]
    if canon == "xtc":
        if T.n_atoms <= 9:
            return np.zeros_like(x)
        return 0.5e-3 * (1 + 1e-9) + 8 * EPS * x + 1e-12
    if canon == "gro":
        p = case.get("prec") or 3
        return 0.5 * 10.0 ** -p * (1 + 1e-9) + k * EPS * x + 1e-12
    if canon == "pdb":
        q, trunc = _pdb_quantum(T.xyz.astype(np.float64) * 10.0)
        return np.where(trunc, q, 0.5 * q) / 10.0 * (1 + 1e-9) + k * EPS * x + 1e-12
    if info["q"] is not None:
        return 0.5 * info["q"] / info["u"] * (1 + 1e-9) + k * EPS * x + 1e-12
    if k == 0:
        return np.zeros_like(x)
    return k * EPS * x + 1e-12


def _xyz_tol_native(case, T):
    info = FMT[case["ext"]]
    v = np.abs(T.xyz.astype(np.float64)) * info["u"]
    canon = info["canon"]
    fl = 2 * EPS * v if info["u"] != 1.0 else 0.0
    if canon == "gro":
        p = case.get("prec") or 3
        return 0.5 * 10.0 ** -p * (1 + 1e-9) + 1e-12 + 4e-16 * v
    if canon == "pdb":
        q, trunc = _pdb_quantum(T.xyz.astype(np.float64) * 10.0)
        return np.where(trunc, q, 0.5 * q) * (1 + 1e-9) + fl + 1e-12
    if info["q"] is not None:
        return 0.5 * info["q"] * (1 + 1e-9) + fl + 1e-12
    return fl + 0 * v


def _time_tol(canon, t):
    t = np.abs(np.asarray(t, np.float64))
    if canon == "rst7":
        ex = np.floor(np.log10(np.where(t > 0, t, 1.0)))
        return np.where(t > 0, 0.5 * 10.0 ** (ex - 7) * (1 + 1e-6), 0.0) + 2 * EPS * t
    return np.zeros_like(t)


def _worst(diff, tol):
    bad = diff > tol
    if not bad.any():
        return None
    j = np.unravel_index(int(np.argmax(np.where(bad, diff - tol, -np.inf))), diff.shape)
    return j


# ---------------------------------------------------------------------------------------------------- cell comparison
def _cell_len_tol_nm(case, L_nm, vectors):
    info = FMT[case["ext"]]
    canon = info["canon"]
    L = np.abs(np.asarray(L_nm, np.float64))
    fl = (64 if vectors else 6) * EPS * L.max(axis=-1, keepdims=True) + 1e-12
    if canon == "h5":
        fl = 0 * L
    q = {"gro": 2e-5, "pdb": 0.5e-4, "mdcrd": 0.5e-4, "rst7": 0.5e-8}.get(canon, 0.0)
    return q * (1 + 1e-9) + fl + 0 * L


def _cell_ang_tol(case, L_nm):
    canon = FMT[case["ext"]]["canon"]
    tol = np.full(np.asarray(L_nm).shape, ANG_SLACK)
    if canon == "pdb":
        tol = tol + 0.005
    elif canon == "gro":
        L = np.asarray(L_nm, np.float64)
        inv = 1.0 / L
        pair = np.stack([inv[..., 1] + inv[..., 2], inv[..., 0] + inv[..., 2], inv[..., 0] + inv[..., 1]], axis=-1)
        tol = tol + np.degrees(math.sqrt(3) * 1e-5 * pair) * 1.5
    elif canon == "rst7":
        tol = tol + 0.5e-7
    return tol


def _vectors64(lengths, angles):
    return np.array([common.cell_vectors64(l, a) for l, a in zip(lengths, angles)])


# ---------------------------------------------------------------------------------------------------- monitors
def _roundtrip(ctx, case, T, Lt, key, frames=None, mon="roundtrip"):
    """compare the loaded trajectory Lt with frames `frames` (default all) of T; returns True when fully judged conforming"""
    info = FMT[case["ext"]]
    canon = info["canon"]
    fsel = np.arange(T.n_frames) if frames is None else np.asarray(frames)
    nf, na = len(fsel), T.n_atoms
    good = True
    if (Lt.n_frames, Lt.n_atoms) != (nf, na):
        if canon == "pdb" and not case.get("header", True) and T.n_frames > 1 and (Lt.n_frames, Lt.n_atoms) == (1, nf * na):
            ctx.violation(mon + ".shape", "pdb:header=False:multi-frame:models-not-delimited",
                          f"save_pdb(header=False) of {nf} frames x {na} atoms writes no MODEL/ENDMDL: loads as 1 frame x {Lt.n_atoms} atoms")
        else:
            ctx.violation(mon + ".shape", key("shape", "frames-or-atoms-differ"),
                          f"saved {nf} frames x {na} atoms, loaded {Lt.n_frames} x {Lt.n_atoms}")
        return False
    ctx.ok(mon + ".shape")
    # coordinates
    x0 = T.xyz[fsel].astype(np.float64)
    tol = _xyz_tol_nm(case, T)[fsel]
    diff = np.abs(Lt.xyz.astype(np.float64) - x0)
    j = _worst(diff, tol)
    if j is None:
        ctx.ok(mon + ".xyz", nf)
    else:
        good = False
        exact = bool(np.all(tol == 0))
        ctx.violation(mon + ".xyz", key("xyz", "not-bit-exact" if exact else "beyond-quantum"),
                      f"{case['ext']}: coordinate [{j}] saved {x0[j]!r} nm, loaded {float(Lt.xyz[j])!r} nm, |diff| {diff[j]:.3g} > tol {tol[j]:.3g}",
                      n_bad=int((diff > tol).sum()), n=int(diff.size))
    # time
    if info["time"]:
        t0 = np.asarray(T.time, np.float64)[fsel]
        t1 = np.asarray(Lt.time, np.float64)
        tt = _time_tol(canon, t0)
        d = np.abs(t1 - t0)
        if np.all(d <= tt):
            ctx.ok(mon + ".time", nf)
        else:
            good = False
            jj = int(np.argmax(d - tt))
            mech = "differs"
            if canon == "gro" and ("e" in str(np.float64(t0[jj]))):
                mech = "exponent-notation-misread"
            elif canon == "dtr" and T.n_frames > 2 and frames is None:
                dt = np.diff(np.asarray(T.time, np.float64))
                pred = t0[0] + np.arange(nf) * dt[0]
                if np.all(np.abs(dt - dt[0]) <= 1e-3 * (1 + 1e-9)) and np.allclose(t1, pred, rtol=1e-12, atol=1e-9):
                    mech = "near-uniform-intervals-regularised-to-first-interval"
            elif mon == "restart" and nf == 1 and fsel[0] > 0 and abs(t1[0] - float(T.time[0])) <= _time_tol(canon, [float(T.time[0])])[0]:
                mech = "time-of-frame-0-in-every-file"
            ctx.violation(mon + ".time", key("time" if mon != "restart" else "multi-frame", mech),
                          f"{case['ext']}: time of frame {int(fsel[jj])} saved {t0[jj]!r} ps, loaded {t1[jj]!r} ps (tol {tt[jj]:.3g}); saved {t0[:6].tolist()} loaded {t1[:6].tolist()}")
    else:
        ctx.skip(mon + ".time", f"{canon} does not store times", nf)
    # unit cell
    if not info["cell"]:
        ctx.skip(mon + ".cell", f"{canon} does not store a unit cell", nf)
        return good
    if T.unitcell_lengths is None:
        if Lt.unitcell_lengths is None:
            ctx.ok(mon + ".cell", nf)
        else:
            good = False
            ctx.violation(mon + ".cell", key("cell", "invented"), f"{case['ext']}: saved without unit cell, loaded with lengths {Lt.unitcell_lengths[0].tolist()} angles {Lt.unitcell_angles[0].tolist()}")
        return good
    if Lt.unitcell_lengths is None:
        if canon == "pdb" and case.get("lk") != "no_boxchk" and T.n_atoms / max(float(T.unitcell_volumes.min()), 1e-30) > 900.0:
            # load_pdb documents that a CRYST1 cell holding more than 1000 atoms per nm^3 is taken for a dummy record and dropped
            ctx.skip(mon + ".cell", "PDB: more than ~1000 atoms per nm^3 of cell volume: documented dummy-CRYST1 heuristic drops the cell", nf)
            return good
        ctx.violation(mon + ".cell", key("cell", "lost"), f"{case['ext']}: saved with a unit cell, loaded without")
        return False
    L0 = T.unitcell_lengths.astype(np.float64)[fsel]
    A0 = T.unitcell_angles.astype(np.float64)[fsel]
    L1 = Lt.unitcell_lengths.astype(np.float64)
    A1 = Lt.unitcell_angles.astype(np.float64)
    sel = np.ones(nf, bool)
    if canon == "pdb":
        # a single CRYST1 record: only frames whose cell equals frame 0's are judged
        same = np.all(T.unitcell_lengths == T.unitcell_lengths[0], axis=1) & np.all(T.unitcell_angles == T.unitcell_angles[0], axis=1)
        sel = same[fsel]
        if (~sel).any():
            ctx.skip(mon + ".cell", "pdb stores one CRYST1 record: frames whose cell differs from frame 0 are not judged", int((~sel).sum()))
    dl = np.abs(L1 - L0)
    tl = _cell_len_tol_nm(case, L0, info.get("vectors", False))
    da = np.abs(A1 - A0)
    ta = _cell_ang_tol(case, L0)
    badl = (dl > tl) & sel[:, None]
    bada = (da > ta) & sel[:, None]
    if badl.any():
        good = False
        jj = np.unravel_index(int(np.argmax(np.where(badl, dl, -1))), dl.shape)
        ctx.violation(mon + ".cell", key("cell-lengths", "beyond-quantum"),
                      f"{case['ext']}: cell lengths of frame {int(fsel[jj[0]])} saved {L0[jj[0]].tolist()} nm, loaded {L1[jj[0]].tolist()} (tol {tl[jj]:.3g})")
    if bada.any():
        good = False
        jj = np.unravel_index(int(np.argmax(np.where(bada, da, -1))), da.shape)
        ctx.violation(mon + ".cell", key("cell-angles", "beyond-quantum"),
                      f"{case['ext']}: cell angles of frame {int(fsel[jj[0]])} saved {A0[jj[0]].tolist()} deg, loaded {A1[jj[0]].tolist()} (tol {ta[jj]:.3g})")
    if not badl.any() and not bada.any():
        ctx.ok(mon + ".cell", int(sel.sum()))
    return good


def _independent(ctx, case, T, path, key, frames=None, mon="independent"):
    """read the bytes with the specification parser and compare with T x unit factor (native units)"""
    info = FMT[case["ext"]]
    canon = info["canon"]
    if canon == "dtr":
        ctx.skip(mon, "dtr: no independent reader (Desmond frameset binary)")
        return
    fsel = np.arange(T.n_frames) if frames is None else np.asarray(frames)
    nf, na = len(fsel), T.n_atoms
    pf = canon if not case["ext"].endswith(".gz") else canon + ".gz"
    try:
        R = P.parse(pf, path, n_atoms=na, has_box=T.unitcell_lengths is not None)
    except P.LayoutError as e:
        ctx.violation(mon + ".layout", key("layout", e.reason), f"{case['ext']}: the specification reader cannot take the written file apart: {e}")
        return
    ctx.ok(mon + ".layout")
    ex = R["extra"]
    if (ex["n_frames"], ex["n_atoms"]) != (nf, na):
        if canon == "pdb" and not case.get("header", True) and T.n_frames > 1 and ex["n_model_records"] == 0:
            ctx.violation(mon + ".shape", "pdb:header=False:multi-frame:models-not-delimited",
                          f"save_pdb(header=False) of {nf} frames: the file has no MODEL records and {ex['n_atoms']} ATOM records in one block")
        else:
            ctx.violation(mon + ".shape", key("shape", "independent-reader-disagrees"),
                          f"{case['ext']}: file holds {ex['n_frames']} frames x {ex['n_atoms']} atoms, saved {nf} x {na}")
        return
    ctx.ok(mon + ".shape")
    u_declared = 10.0 if R["lunit"] == "angstroms" else 1.0
    if u_declared != info["u"]:
        ctx.violation(mon + ".units", key("units", "declared-length-unit-differs-from-format"), f"{case['ext']}: file declares {R['lunit']}")
        return
    u = info["u"]
    # coordinates
    if R["xyz"] is not None:
        v0 = T.xyz[fsel].astype(np.float64) * u
        tol = _xyz_tol_native(case, T)[fsel]
        diff = np.abs(R["xyz"] - v0)
        if info["q"] is not None and u != 1.0 and canon != "pdb":
            # text field = decimal rounding of the number handed to the writer, which is x*10 evaluated in float32 or in float64:
            # measured against the nearer of the two the float32 slack is not needed (matters for rst7's 1e-7 A quantum)
            v32 = (T.xyz[fsel] * np.float32(u)).astype(np.float64)
            diff = np.minimum(diff, np.abs(R["xyz"] - v32))
            tol = 0.5 * info["q"] * (1 + 1e-9) + 1e-12 + 4e-16 * np.abs(v0)  # last term: float64 representation of the decimal
        j = _worst(diff, tol)
        if j is None:
            ctx.ok(mon + ".xyz", nf)
        else:
            ctx.violation(mon + ".xyz", key("xyz", "independent-reader-disagrees"),
                          f"{case['ext']}: file value [{j}] = {R['xyz'][j]!r} {R['lunit']}, input x {u:g} = {v0[j]!r} (|diff| {diff[j]:.3g} > tol {tol[j]:.3g})",
                          n_bad=int((diff > tol).sum()), n=int(diff.size))
    elif canon == "xtc":
        # compressed frames: precision and integer bounding box from the header
        pr = np.asarray(ex["precision"])
        if not np.all(pr == 1000.0):
            ctx.violation(mon + ".xtc-header", key("precision", "not-1000"), f"xtc precision field {pr[:4].tolist()}")
        else:
            x = T.xyz.astype(np.float64)
            lo, hi = x.min(axis=1) * 1000.0, x.max(axis=1) * 1000.0
            sl = 0.5 + 8 * EPS * np.abs(x).max(axis=1) * 1000.0 + 1e-9
            bad = (np.abs(ex["minint"] - lo) > sl) | (np.abs(ex["maxint"] - hi) > sl)
            if bad.any():
                f = int(np.nonzero(bad.any(axis=1))[0][0])
                ctx.violation(mon + ".xtc-header", key("bounding-box", "independent-reader-disagrees"),
                              f"xtc frame {f}: header minint {ex['minint'][f].tolist()} maxint {ex['maxint'][f].tolist()}, 1000*x spans {lo[f].tolist()} .. {hi[f].tolist()}")
            else:
                ctx.ok(mon + ".xtc-header", nf)
        ctx.skip(mon + ".xyz", "compressed XTC body is not decoded by the independent reader", nf)
    # time
    if info["time"]:
        if R["time"] is None:
            ctx.violation(mon + ".time", key("time", "absent-in-file"), f"{case['ext']}: the file holds no time although the format stores it")
        else:
            t0 = np.asarray(T.time, np.float64)[fsel]
            tt = _time_tol(canon, t0)
            d = np.abs(R["time"] - t0)
            if np.all(d <= tt):
                ctx.ok(mon + ".time", nf)
            else:
                jj = int(np.argmax(d - tt))
                mech = "independent-reader-disagrees"
                if mon == "restart.bytes" and nf == 1 and fsel[0] > 0 and abs(R["time"][0] - float(T.time[0])) <= _time_tol(canon, [float(T.time[0])])[0]:
                    mech = "time-of-frame-0-in-every-file"
                ctx.violation(mon + ".time", key("time" if mon != "restart.bytes" else "multi-frame", mech),
                              f"{case['ext']}: file time of frame {int(fsel[jj])} = {R['time'][jj]!r} ps, input {t0[jj]!r} (tol {tt[jj]:.3g})")
    # cell
    if info["cell"]:
        _independent_cell(ctx, case, T, R, key, fsel, mon)
    # format specific header fields
    if canon == "dcd":
        ctx.check(ex["nset"] == nf, mon + ".dcd-header", key("header-NSET", "independent-reader-disagrees"), f"dcd header NSET {ex['nset']} for {nf} frames")
    if canon in ("xtc", "trr"):
        ctx.check(list(ex["steps"]) == list(range(nf)), mon + ".step", key("step", "not-frame-index"), f"{canon} step fields {list(ex['steps'])[:6]} (documented: 0..n_frames-1 when not supplied)")
    if canon == "pdb":
        if case.get("bf", "none") != "none":
            bfk = _save_kwargs(case, T, common.rng_for("C01opt", case["seed"])).get("bfactors")
            want = np.broadcast_to(np.asarray(bfk, np.float64), (nf, na))
            ctx.check(bool(np.all(np.abs(ex["bfactors"] - want) <= 0.005 * (1 + 1e-9))), mon + ".pdb-bfactors", "pdb:bfactors:independent-reader-disagrees",
                      f"pdb tempFactor columns 61-66 differ from the bfactors argument (max {np.abs(ex['bfactors'] - want).max():.3g})")
        else:
            ctx.check(bool(np.all(ex["bfactors"] == 0.0)), mon + ".pdb-bfactors", "pdb:bfactors:nonzero-without-argument", "tempFactor not 0.00 without bfactors")
        if not case.get("ter", True):
            ctx.check(ex["n_ter"] == 0, mon + ".pdb-ter", "pdb:ter=False:TER-records-written", f"{ex['n_ter']} TER records with ter=False")
        else:
            ctx.check(ex["n_ter"] == nf * T.topology.n_chains, mon + ".pdb-ter", "pdb:ter=True:TER-count", f"{ex['n_ter']} TER records for {nf} frames x {T.topology.n_chains} chains")


def _independent_cell(ctx, case, T, R, key, fsel, mon):
    info = FMT[case["ext"]]
    canon = info["canon"]
    nf = len(fsel)
    u = info["u"]
    has = T.unitcell_lengths is not None
    if R["vectors"] is not None:
        V = R["vectors"]
        if not has:
            ctx.check(bool(np.all(V == 0)), mon + ".cell", key("cell", "nonzero-box-without-cell"), f"{case['ext']}: file box {V[0].tolist()} although no unit cell was saved")
            return
        V0 = _vectors64(T.unitcell_lengths.astype(np.float64)[fsel], T.unitcell_angles.astype(np.float64)[fsel]) * u
        Lmax = np.abs(V0).reshape(nf, -1).max(axis=1)[:, None, None]
        tol = 64 * EPS * Lmax + (0.5e-5 * (1 + 1e-9) if canon == "gro" else 0.0) + 1e-12
        d = np.abs(V - V0)
        if np.all(d <= tol):
            ctx.ok(mon + ".cell", nf)
        else:
            f = int(np.nonzero((d > tol).reshape(nf, -1).any(axis=1))[0][0])
            ctx.violation(mon + ".cell", key("cell-vectors", "independent-reader-disagrees"),
                          f"{case['ext']}: frame {int(fsel[f])} box vectors in the file {V[f].tolist()}, expected {V0[f].tolist()} {R['lunit']} (tol {float(tol[f].max()):.3g})")
        return
    if R["lengths"] is None:
        if has:
            ctx.violation(mon + ".cell", key("cell", "absent-in-file"), f"{case['ext']}: no cell record in the file although a unit cell was saved")
        else:
            ctx.ok(mon + ".cell", nf)
        return
    if not has:
        ctx.check(bool(np.all(R["lengths"] == 0)), mon + ".cell", key("cell", "cell-record-without-cell"), f"{case['ext']}: file holds cell lengths {R['lengths'][0].tolist()} although no unit cell was saved")
        return
    L0 = T.unitcell_lengths.astype(np.float64)[fsel] * u
    A0 = T.unitcell_angles.astype(np.float64)[fsel]
    Lr, Ar = R["lengths"], R["angles"]
    if canon == "pdb":
        if len(Lr) != 1:
            ctx.violation(mon + ".cell", "pdb:cell:CRYST1-count", f"{len(Lr)} CRYST1 records")
            return
        L0, A0, nf = L0[:1], A0[:1], 1
    if Lr.shape != L0.shape:
        ctx.violation(mon + ".cell", key("cell", "independent-reader-disagrees-on-count"), f"{case['ext']}: {len(Lr)} cell records for {nf} frames")
        return
    ql = {"pdb": 0.5e-3, "mdcrd": 0.5e-3, "rst7": 0.5e-7}.get(canon, 0.0)
    tl = ql * (1 + 1e-9) + (2 * EPS * L0 if u != 1.0 else 0.0) + (64 * EPS * L0 if canon == "lammpstrj" else 0.0) + 1e-12
    qa = {"pdb": 0.005, "rst7": 0.5e-7}.get(canon, 0.0)
    ta = qa * (1 + 1e-9) + (ANG_SLACK if canon in ("lammpstrj", "dcd") else 1e-9)
    okl = bool(np.all(np.abs(Lr - L0) <= tl))
    oka = bool(np.all(np.abs(Ar - A0) <= ta))
    if not okl:
        f = int(np.nonzero((np.abs(Lr - L0) > tl).any(axis=1))[0][0])
        ctx.violation(mon + ".cell", key("cell-lengths", "independent-reader-disagrees"),
                      f"{case['ext']}: cell lengths in the file (frame {int(fsel[f])}) {Lr[f].tolist()} {R['lunit']}, input x {u:g} = {L0[f].tolist()}")
    if not oka:
        f = int(np.nonzero((np.abs(Ar - A0) > ta).any(axis=1))[0][0])
        ctx.violation(mon + ".cell", key("cell-angles", "independent-reader-disagrees"),
                      f"{case['ext']}: cell angles in the file (frame {int(fsel[f])}) {Ar[f].tolist()} deg, input {A0[f].tolist()}")
    if okl and oka:
        ctx.ok(mon + ".cell", nf)
    if canon == "mdcrd":
        # AMBER specifies FORMAT(3F8.3) for the box line: a fixed-column (Fortran / cpptraj) reader takes columns 1-8, 9-16, 17-24
        fx = R["extra"]["box_fixed_columns"]
        bad = [f for f in range(nf) if fx[f] is None or np.any(np.abs(np.array(fx[f]) - L0[f]) > tl[f])]
        if bad:
            f = bad[0]
            ctx.violation(mon + ".mdcrd-box-columns", "mdcrd:cell:box-line-has-separators-not-3F8.3",
                          f"mdcrd box line is written '%8.3f %8.3f %8.3f' (26 columns); read as FORMAT(3F8.3) it gives {fx[f]} instead of {L0[f].tolist()} A")
        else:
            ctx.ok(mon + ".mdcrd-box-columns", nf)


def _fileobj(ctx, case, T, path, key):
    """md.open(path).read(): coordinates in the unit the file class documents (distance_unit), same quantum as the round trip"""
    import mdtraj as md
    info = FMT[case["ext"]]
    canon = info["canon"]
    fcanon = {"nc": "nc", "mdcrd": "mdcrd"}.get(canon, canon if case["ext"] in files.FORMATS else None)
    if fcanon is None or fcanon not in files.SEEKABLE and fcanon != "xyz":
        return
    if canon == "mdcrd" and T.n_atoms == 1 and T.unitcell_lengths is None:
        ctx.skip("fileobj", "mdcrd with one atom and no box: frame lines and box lines are indistinguishable (documented limitation)")
        return
    try:
        with md.open(path, **files.open_kwargs(fcanon, T.n_atoms)) as f:
            res = f.read()
    except Exception as e:
        ctx.skip("fileobj", f"{case['ext']}: md.open(...).read() raised {_reason(e)}")
        return
    xyz = np.asarray(files.coords_of(fcanon, res), np.float64)
    if xyz.shape != T.xyz.shape:
        ctx.violation("fileobj.xyz", key("shape", "fileobj-read-shape-differs"), f"{case['ext']}: md.open().read() gave shape {xyz.shape}, saved {T.xyz.shape}")
        return
    u = info["u"]
    v0 = T.xyz.astype(np.float64) * u
    tol = _xyz_tol_nm(case, T) * u + 2 * EPS * np.abs(v0) * (u != 1.0)
    diff = np.abs(xyz - v0)
    j = _worst(diff, tol)
    if j is None:
        ctx.ok("fileobj.xyz", T.n_frames)
    else:
        ctx.violation("fileobj.xyz", key("xyz", "fileobj-read-not-in-documented-unit-or-beyond-quantum"),
                      f"{case['ext']}: md.open().read() value [{j}] = {xyz[j]!r}, input x {u:g} = {v0[j]!r} (tol {tol[j]:.3g})")


# ---------------------------------------------------------------------------------------------------- case
def _reason(e):
    s = str(e)
    for pat, r in (("rectilinear", "triclinic cell refused"), ("Overflow", "coordinate does not fit %8.3f"), ("cell_lengths must be", "needs a unit cell"),
                   ("must be given", "needs a unit cell"), ("not subscriptable", "multi-frame restart without unit cell (TypeError)"),
                   ("could not be represnted", "coordinate does not fit width 8"), ("ascending", "times not ascending"),
                   ("could not convert string to float", "reader cannot parse a field"), ("Unexpected line", "reader cannot parse a line"),
                   ("list index out of range", "reader finds no time in the title"), ("XTC write error", "XTC write error"),
                   ("unitcell", "unit cell refused"), ("bfactors", "bfactors refused")):
        if pat in s:
            return f"{type(e).__name__}: {r}"
    return f"{type(e).__name__}: {s[:60]}"


H5_UNIT_EDITS = {"coordinates": ("angstroms", 10.0), "cell_lengths": ("angstroms", 10.0), "time": ("femtoseconds", 1000.0),
                 "cell_angles": ("radians", np.pi / 180.0)}


def _run_h5units(case, ctx):
    """'... all expressed in nanometres, picoseconds and degrees whatever units the file uses natively': an MDTraj HDF5 file
    names the unit of every field separately; the same content with SOME fields re-expressed (not all in the same way) must
    load to the same trajectory."""
    import mdtraj as md
    T, rng = _build(case)
    d = tempfile.mkdtemp(prefix="case-", dir=_TMP or "/var/tmp")
    try:
        path = os.path.join(d, "u.h5")
        T.save(path)
        ref = md.load(path)
        fields = [f for f in case["fields"] if not (f.startswith("cell") and T.unitcell_lengths is None)]
        for f in fields:
            files.h5_change_units(path, f, *H5_UNIT_EDITS[f])
        ctx.observe("h5_native_units", "+".join(f"{f}:{H5_UNIT_EDITS[f][0]}" for f in fields) or "defaults")
        got = md.load(path)
        for name, a, b in (("xyz", got.xyz, ref.xyz), ("time", got.time, ref.time), ("cell-lengths", got.unitcell_lengths, ref.unitcell_lengths),
                           ("cell-angles", got.unitcell_angles, ref.unitcell_angles)):
            if a is None or b is None:
                ctx.check(a is None and b is None, "h5-native-units", f"h5:native-units:{name}:presence-differs", f"{name} present in one load only after re-expressing {fields}")
                continue
            a, b = np.asarray(a, np.float64), np.asarray(b, np.float64)
            tol = 8 * float(np.finfo(np.float32).eps) * np.maximum(np.abs(b), 1e-6) * 4
            ok = a.shape == b.shape and bool(np.all(np.abs(a - b) <= tol))
            ctx.check(ok, "h5-native-units", f"h5:native-units:{name}:differs-after-a-field-was-stored-in-another-unit",
                      f"{name} of the loaded trajectory changes (max rel {float(np.max(np.abs(a - b) / np.maximum(np.abs(b), 1e-6))) if a.shape == b.shape else 'shape'}) "
                      f"when {fields} are stored in {[H5_UNIT_EDITS[f][0] for f in fields]}")
    finally:
        shutil.rmtree(d, ignore_errors=True)


def run_case(case, ctx):
    import mdtraj as md
    if case.get("kind") == "h5units":
        return _run_h5units(case, ctx)
    ext = case["ext"]
    info = FMT[ext]
    canon = info["canon"]
    T, rng = _build(case)
    kw = _save_kwargs(case, T, common.rng_for("C01opt", case["seed"]))
    overflow = _field_overflow(case, T)

    def key(field, mech):
        if overflow and field in ("xyz", "layout", "shape", "bounding-box"):
            # one mechanism: the writer put a number that does not fit the format's field into the file instead of refusing
            return f"{canon}:xyz:field-overflow-written-not-refused"
        return f"{canon}:{field}:{mech}"

    ctx.observe("extension", ext)
    ctx.observe("n_atoms", T.n_atoms)
    ctx.observe("magnitude_nm", case["mag"])
    ctx.observe("cell", case["cell"])
    ctx.observe("time_kind", case["time"])
    if canon == "xtc":
        ctx.observe("xtc_encoding", "raw floats (<=9 atoms)" if T.n_atoms <= 9 else "compressed")
    if canon == "gro":
        ctx.observe("gro_precision", case.get("prec"))
    if canon == "pdb":
        ctx.observe("pdb_options", f"ter={case['ter']},header={case['header']},bfactors={case['bf']}")
    if overflow:
        ctx.observe("beyond_field_limit", canon)
    _stat(ext, "cases")
    d = tempfile.mkdtemp(prefix="case-", dir=_TMP or "/var/tmp")
    try:
        path = os.path.join(d, f"t.{ext}")
        entry, h5a = case.get("entry"), case.get("h5a")
        for nm in ("dist", "layout", "entry", "lk"):
            if case.get(nm) and (nm != "dist" or case["dist"] not in ("spread", "shell")):
                ctx.observe("wide_" + nm, case[nm])
        if case.get("layout") in ("noncontig", "fortran"):
            ctx.observe("xyz_c_contiguous_in_trajectory", bool(T.xyz.flags["C_CONTIGUOUS"]))
        if case["top"] == "rich":
            ctx.observe("topology", "rich (chain ids, segments, serials, bonds)")
        if h5a:
            ctx.observe("h5_append_split", f"{h5a}/{T.n_frames}")
        try:
            if entry == "over-existing" and not (canon in ("rst7", "ncrst") and T.n_frames > 1):
                # a LONGER file of the same name exists (other coordinates, 3 more frames): the default force_overwrite=True
                # must replace it; everything below then judges the new file only
                old_t = md.Trajectory(np.flip(np.concatenate([T.xyz, T.xyz[:1], T.xyz[:1], T.xyz[:1]]), axis=1) * np.float32(0.5) + np.float32(0.25), T.topology)
                if T.unitcell_lengths is not None:
                    old_t.unitcell_lengths = np.concatenate([T.unitcell_lengths, T.unitcell_lengths[:1], T.unitcell_lengths[:1], T.unitcell_lengths[:1]])
                    old_t.unitcell_angles = np.concatenate([T.unitcell_angles, T.unitcell_angles[:1], T.unitcell_angles[:1], T.unitcell_angles[:1]])
                try:
                    old_t.save(path)
                    ctx.observe("overwrote_existing_longer_file", canon)
                except Exception:
                    pass
            if h5a:
                T[:h5a].save(path, **kw)
                T[h5a:].save(path, mode="a", **kw)
            elif entry == "method":
                getattr(T, SAVE_METHOD[canon])(path, **kw)
            elif entry == "pathlib":
                T.save(pathlib.Path(path), **kw)
            elif entry == "no-overwrite":
                T.save(path, force_overwrite=False, **kw)
            else:
                T.save(path, **kw)
        except Exception as e:
            if entry == "pathlib" and isinstance(e, TypeError) and any(w in str(e) for w in ("PosixPath", "expected bytes", "expected str", "path")):
                ctx.violation("save", f"{canon}:save(pathlib.Path):raises-TypeError", f"{ext}: Trajectory.save(pathlib.Path(...)) raised {e!r} (documented: filename is path-like)")
                return
            r = _reason(e)
            ctx.skip("save", f"{ext}: save raised {r}")
            _stat(ext, "save refused: " + r)
            return
        _stat(ext, "saved")
        multi = canon in ("rst7", "ncrst") and T.n_frames > 1
        if multi:
            _restart_multi(ctx, case, T, path, key)
            return
        if ext.endswith(".gz"):
            with open(path, "rb") as f:
                if f.read(2) != b"\x1f\x8b":
                    ctx.violation("independent.layout", f"{ext}:container:not-gzip", f"{ext}: the file does not start with the gzip magic")
                    return
        # (a) round trip through mdtraj
        top = None if info["self_top"] else _topology(case)  # a fresh object, never the one the writer saw
        judged = False
        if canon == "mdcrd" and T.n_atoms == 1 and T.unitcell_lengths is None:
            ctx.skip("roundtrip", "mdcrd with one atom and no box: frame lines and box lines are indistinguishable (documented limitation)")
            _stat(ext, "roundtrip skipped (documented ambiguity)")
        else:
            try:
                lk = {"no_boxchk": dict(no_boxchk=True), "standard_names=False": dict(standard_names=False)}.get(case.get("lk"), {})
                Lt = md.load(path, **lk) if top is None else md.load(path, top=top, **lk)
            except Exception as e:
                r = _reason(e)
                ctx.skip("load", f"{ext}: load raised {r}" + (" [beyond-field-limit]" if overflow else ""))
                _stat(ext, "load refused: " + r)
                Lt = None
            if Lt is not None:
                _roundtrip(ctx, case, T, Lt, key)
                judged = True
                ctx.ok(f"format.{ext}")
                _stat(ext, "judged")
        # (c) independent reading of the bytes
        _independent(ctx, case, T, path, key)
        # (d) the documented low-level file object returns the format's native unit
        _fileobj(ctx, case, T, path, key)
        if not judged and canon != "dtr":
            _stat(ext, "judged by the independent reader only")
    finally:
        shutil.rmtree(d, ignore_errors=True)


def _restart_multi(ctx, case, T, path, key):
    import mdtraj as md
    ext = case["ext"]
    canon = FMT[ext]["canon"]
    n = T.n_frames
    width = len(str(n))
    loader = md.load_restrt if canon == "rst7" else md.load_ncrestrt
    ctx.observe("restart_multi_frames", n)
    names = [f"{path}.{k:0{width}d}" for k in range(1, n + 1)]
    missing = [os.path.basename(p) for p in names if not os.path.exists(p)]
    if missing:
        ctx.violation("restart.files", f"{canon}:multi-frame:numbered-files-missing", f"{ext}: expected files .1 .. .{n} (zero padded to {width}), missing {missing[:4]}; directory holds {sorted(os.listdir(os.path.dirname(path)))[:6]}")
        return
    ctx.ok("restart.files")
    alljudged = True
    for k, p in enumerate(names):
        try:
            Lt = loader(p, top=_topology(case))
        except Exception as e:
            r = _reason(e)
            ctx.skip("load", f"{ext}: load of a numbered restart file raised {r}" + (" [beyond-field-limit]" if _field_overflow(case, T) else ""))
            _stat(ext, "load refused: " + r)
            alljudged = False
            Lt = None
        if Lt is not None:
            _roundtrip(ctx, case, T, Lt, key, frames=[k], mon="restart")
        _independent(ctx, case, T, p, key, frames=[k], mon="restart.bytes")
    if alljudged:
        ctx.ok(f"format.{ext}")
        _stat(ext, "judged")
