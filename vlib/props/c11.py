"""C11 — re-imaging moves atoms only by lattice vectors and makes molecules whole.

Technique: runtime monitoring.  The real `Trajectory.make_molecules_whole` / `Trajectory.image_molecules` (python front
ends in core/trajectory.py, `Topology.find_molecules` / `guess_anchor_molecules`, Cython kernels of image_molecules.pxi,
`find_closest_contact` of geometry.cpp) run on generated periodic systems; float64 monitors written from the statement
observe every execution.  Nothing in the verdicts calls the code under test: the lattice is the float64 copy of the
frame's `unitcell_vectors`; minimum images are d - round(d B^-1) B in float64, which is exact whenever the result is
shorter than w_min/2 (see `_round_image`; re-derived on a sample with the 125-image search `vlib.oracle.geom.min_image`);
the molecule partition and the image labels come from the generator.

Workload (`vlib.gen.c11_mols`): chains, rings, branched and fused (ring + chord + tails) molecules, waters in O-H-H and in
H-H-O atom order, ions, 12-40 atom solutes; every molecule relabelled (natural parent-first / BFS from a random root /
reversed / random permutation, optionally a permutation of ALL atoms so that molecules interleave), molecule order
shuffled, bonds inserted into the Topology in random order and orientation; assembled into single-molecule, few-molecule
and solvated (1-3 solutes + 10-25 waters/ions) systems, plus bond-free ion systems (thorough tier, 40 % of the cases:
solutes to 120 atoms, to 60 solvent molecules, to 12 assorted molecules); every cell class of CELL_KINDS, per-frame
varying cells, 1-5 frames.  Molecules are scaled so that their extent (largest intra-molecular distance) is <= 0.42 w_min < w_min/2
(w_min = smallest perpendicular width: the statement excludes molecules longer than half the cell), then scattered: a
random integer lattice shift of up to +-K cells per atom (K in 0..50), per-atom wrapping into the primary cell, a shift
per molecule, or none.  Small shapes (3-5 atoms: paths, stars, rings, paw, fork) are run under EVERY relabelling
(exhaustive "bond orderings" scope; n<=4 in the quick tier, n<=5 x all cells in the thorough tier).
Options: inplace in {False,True}, make_whole in {True,False}, anchors guessed or explicit, other_molecules default or an
explicit (possibly incomplete) list, sorted_bonds None / the topology's bonds sorted by first atom / a parent-first BFS
list (also passed with make_whole=False, where the documentation says it is irrelevant).  The docstring of
`sorted_bonds` only says "in sorted order" and not which order the walk needs: a bond left split because of the order
this workload itself supplied is therefore `skip`, not a violation; with sorted_bonds=None the order is mdtraj's choice.

Widening round (cases with id >= 2*10**7, `_wide_cases`; the streams above are unchanged).  Input classes added:
molecules cut into several residues and spanning several chains / several molecules (also bond-free ions) sharing one
multi-atom residue; bonds listed twice in the topology; only 1-3 atoms of the whole system in another image ("sparse");
per-frame cells in which exactly ONE of the six parameters changes and cells whose CLASS changes along the trajectory;
64-300 frame trajectories whose molecules are scattered only in the last 1-3 frames; systems of 2 500-14 000 atoms
(300-1500 atom solutes in 800-4000 waters/ions) and unbranched 1200-3000 atom chains; 3-8 explicit anchors, every
molecule an anchor, other_molecules=[]; sorted_bonds as int64 (refused by the kernel with ValueError: `skip`), as a
non-contiguous int32 view and in Fortran order; coordinates that are a window of a larger buffer whose guard frames must
stay untouched (monitor guard-frames); the call repeated on its own output (monitors again.lattice-move / again.bonds);
histories insert_atom -> call -> delete_atom_by_index -> call, a second Topology object of identical size, an edited
copy() followed by the original.  Not added: residues whose atoms are not contiguous in index (Topology.atoms walks
chains -> residues -> atoms and the whole library identifies that order with the index order: outside mdtraj's data
model), anchor molecules given as lists instead of sets (documented: "list of atom sets"), trajectories without a unit
cell (outside the quantifier; refused with ValueError).

Tolerance.  Everything mdtraj does here is float32: a move is x - (n_c c + n_b b + n_a a) (three rounded products, two
rounded sums, one rounded subtraction), image_molecules adds one common translation and one more lattice move per
molecule.  With M = max |coordinate| before/after, Lmax the longest cell vector and |n| <= 2K+3 cells spanned by the
scattered input, each of those <= 8 roundings contributes at most eps32 (M + (2K+3) Lmax) per component:
    tau = 16 eps32 (M + (2K+3) Lmax) + 1e-6 nm       (per frame)
A split bond misses its minimum image by at least w_min - 2*0.42 w_min = 0.16 w_min; frames where that is not above
8 tau are skipped, so the bond monitor (threshold 2 tau) cannot be confused by rounding.
Direct consequences (float64 reference, and md.compute_distances/angles/dihedrals(periodic=True), before vs after) are compared on index tuples whose consecutive atoms have a unique minimum image (d_mic < w_min/2 -
4 tau; anything else is skipped as outside the domain where "the" minimum-image value is defined), with conditioning
taken from the float64 reference: distance 4 tau; angle (4 tau / shortest arm + 8 eps32) / sin(theta), skipped for
sin(theta) < 0.1 (the kernel uses acos); dihedral 8 tau / (shortest bond * smallest sine of the two bond angles), skipped
below 0.1.

Monitors
  whole.lattice-move / image.lattice-move   per atom: new-old (image: minus the move of atom 0 = common translation) is an
                                            integer combination of the frame's cell vectors within tau
  whole.bonds / image.bonds                 per bond: plain distance after == minimum-image distance within 2 tau
  image.rigid-non-anchor                    make_whole=False: all atoms of a non-anchor molecule moved by one vector
  consequence.distance/angle/dihedral       float64 minimum-image distance/angle/dihedral of sampled index tuples (bonded
                                            paths and random tuples) unchanged
  hook.compute_distances/angles/dihedrals   md.compute_*(periodic=True) before == after on the same tuples (counted; a
                                            difference while the float64 value is unchanged is md.compute_*'s own error,
                                            e.g. its orthorhombic shortcut for angles within 9e-4 deg of 90: skipped here,
                                            it is C05-C07's subject)
  untouched.cell-time                       unitcell_lengths/angles/vectors and time of the result bit-identical
  inplace=False.input-untouched             sha of xyz/time/cell of the input unchanged, also after mutating the result
  inplace=False.no-shared-memory            result arrays share no memory with the input's
  inplace=True.returns-self                 identity
  inplace.agreement                         inplace=True and inplace=False give bit-identical coordinates
  find_molecules.partition                  Topology.find_molecules() == the generator's partition
  oracle.selfcheck                          the monitors' rounded minimum image == 125-image brute force on a sample
  call                                      the call returned (exceptions other than the heuristic's "no anchor" refusal
                                            are violations: every generated system is in the stated domain)

Violation keys.  A bond left split is first explained, if possible, by an exact-arithmetic replay of the walk the code
documents ("for (a,b) in bonds sorted by first atom: move b next to a") on the generator's image labels: when that
replay leaves the two atoms in different images AND every atom of the molecule ended in exactly the relative image the
replay predicts, the mechanism is the walk order (an atom with several lower-indexed neighbours is pulled to each in
turn; parents must precede children) and the key is
    <entry>:bond-order-dependent:child-before-parent
Any other split bond is keyed <entry>:bond-not-at-minimum-image (arithmetic / different walk), never the former.
"""
from __future__ import annotations

import hashlib

import numpy as np

from vlib.gen import c11_mols, common
from vlib.oracle import c11_model, geom

PROPERTY = "C11"
LEVEL = "exploration"
NATIVE = ["mdtraj.geometry._geometry"]
RULE = ("cases = (entry point, options, system class, relabelling, scatter mode, spread K, cell class, per-frame cells, "
        "n_frames) from a seeded stream plus every relabelling of 3-5 atom shapes; a case is non-trivial when the "
        "lattice-move or bond monitor decided at least one atom/bond against the float64 reference; distinct = distinct "
        "case descriptors")
WORKERS = {"quick": 8, "thorough": 16}
BUDGET = {"quick": 60, "thorough": 900}
NCASES = {"quick": 12000, "thorough": 100000}
FLOORS = {"quick": {"guard-frames": 300, "again.lattice-move": 20000, "again.bonds": 10000, "history.bonds": 800,
                    "whole.lattice-move": 60000, "whole.bonds": 45000, "image.lattice-move": 90000, "image.bonds": 45000,
                    "image.rigid-non-anchor": 4500, "consequence.distance": 70000, "consequence.angle": 30000,
                    "consequence.dihedral": 25000, "hook.compute_distances": 70000, "hook.compute_angles": 30000,
                    "hook.compute_dihedrals": 25000, "untouched.cell-time": 1200, "inplace=False.input-untouched": 1200,
                    "inplace=False.no-shared-memory": 600, "inplace=True.returns-self": 600, "inplace.agreement": 1200,
                    "find_molecules.partition": 1200, "oracle.selfcheck": 30000, "call": 1200}}
ASSUMPTIONS = [
    "the lattice of a frame is the float64 copy of Trajectory.unitcell_vectors of that frame (its agreement with "
    "lengths/angles is C17's subject)",
    "domain: every molecule's extent <= 0.42 w_min (< w_min/2), so each bond has a unique minimum image",
    "an exception other than guess_anchor_molecules' documented 'Could not find any anchor molecules' is a violation",
]
SYSTEMS = ["single", "few", "solvated", "few", "solvated"]
SPREADS = [0, 1, 1, 2, 3, 10, 50]


def _exh_cases(tier, seed, i0):
    shapes = [k for k, v in c11_mols.EXH_SHAPES.items() if v[0] <= (4 if tier == "quick" else 5)]
    cells = common.CELL_KINDS if tier == "thorough" else [None]
    i = i0
    import math
    for ck in cells:
        for sh in shapes:
            n = c11_mols.EXH_SHAPES[sh][0]
            for p in range(math.factorial(n)):
                rng = common.rng_for("C11exh", seed, i)
                cell = ck or common.CELL_KINDS[(i - i0) % len(common.CELL_KINDS)]
                yield dict(i=i, seed=common.case_seed(seed, "C11", i), op=["whole", "image"][int(rng.random() < 0.25)],
                           system="exh:" + sh, perm=p, relabel="enumerated", global_perm=False, scatter="atom",
                           spread=int(rng.choice([1, 2, 3])), cell=cell, perframe=False, n_frames=2,
                           inplace=bool(rng.random() < 0.5), make_whole=True, anchors="explicit", others="default",
                           sorted_bonds="none")
                i += 1


# thorough tier: every 60-th case also runs in a worker whose extensions are ASan/UBSan-instrumented (vlib/sanitize.py)
ASAN_EVERY = {"quick": 0, "thorough": 60}
GROUPS = {"thorough": [dict(name="asan", flavour="asan", workers=2)]}


def gen_cases(tier, seed):
    from vlib.gen import common as _common
    return _common.with_asan_slice(_gen_cases(tier, seed), ASAN_EVERY[tier])


def _gen_cases(tier, seed):
    n = NCASES[tier]
    for i in range(n):
        rng = common.rng_for("C11", seed, i)
        op = "whole" if i % 5 < 2 else "image"
        system = SYSTEMS[(i // 5) % len(SYSTEMS)] if rng.random() < 0.975 else "ions"
        guess = rng.random() < (0.6 if system == "solvated" else 0.08)
        cell = common.CELL_KINDS[(i // 3) % len(common.CELL_KINDS)]
        yield dict(i=i, seed=common.case_seed(seed, "C11", i), op=op, system=system,
                   relabel=str(rng.choice(c11_mols.RELABEL)), global_perm=bool(rng.random() < 0.3),
                   scatter=str(rng.choice(c11_mols.SCATTER)), spread=int(rng.choice(SPREADS)), cell=cell,
                   perframe=bool(rng.random() < 0.3), n_frames=int(rng.integers(1, 6)), inplace=bool(rng.random() < 0.5),
                   make_whole=bool(rng.random() < 0.65), anchors="guess" if guess else "explicit",
                   others=str(rng.choice(["default", "default", "all", "subset"])),
                   sorted_bonds=str(rng.choice(["none", "none", "none", "topology", "bfs"])),
                   wide=bool(tier == "thorough" and rng.random() < 0.4))
    yield from _exh_cases(tier, seed, n)
    # two calls on ONE Topology object with an in-place edit in between (state remembered from the first call must not
    # survive an edit of the topology through its public API)
    for j in range(60 if tier == "quick" else 1500):
        rng = common.rng_for("C11hist", seed, j)
        yield dict(i=10 ** 7 + j, kind="topology-edit-history", seed=common.case_seed(seed, "C11h", j), cell=common.CELL_KINDS[j % len(common.CELL_KINDS)],
                   order=str(rng.choice(["OHH", "HHO", "HOH"])), n_waters=int(rng.integers(2, 9)), op=str(rng.choice(["whole", "image"])),
                   edit=str(rng.choice(["insert_front", "insert_middle", "insert_end+bond"])), spread=int(rng.choice([1, 2, 5])))
    yield from _wide_cases(tier, seed)


def _wide_cases(tier, seed):
    """Input classes added by the widening round (ids >= 2*10**7; the streams above are unchanged)."""
    quick = tier == "quick"
    base = 2 * 10 ** 7
    # (a) the general stream again, with the option/input dimensions the first stream never varies
    for j in range(1500 if quick else 12000):
        rng = common.rng_for("C11wide", seed, j)
        op = "whole" if j % 5 < 2 else "image"
        system = SYSTEMS[(j // 5) % len(SYSTEMS)] if rng.random() < 0.95 else "ions"
        guess = rng.random() < (0.5 if system == "solvated" else 0.08)
        relabel = str(rng.choice(c11_mols.RELABEL))
        gperm = bool(rng.random() < 0.2)
        resmode = str(rng.choice(["molecule", "split", "split", "merged"]))
        if system == "ions":
            resmode = "molecule"  # several bond-free atoms in one residue: find_molecules refuses (documented)
        yield dict(i=base + j, seed=common.case_seed(seed, "C11w", j), op=op, system=system, relabel=relabel, global_perm=gperm,
                   scatter=str(rng.choice(["atom", "sparse", "sparse", "wrapped", "molecule", "none"])),
                   spread=int(rng.choice(SPREADS)), cell=common.CELL_KINDS[(j // 3) % len(common.CELL_KINDS)],
                   perframe=[False, True, "one-field", "one-field", "class-change", "class-change"][int(rng.integers(6))],
                   n_frames=int(rng.integers(1, 7)), inplace=bool(rng.random() < 0.5), make_whole=bool(rng.random() < 0.65),
                   anchors="guess" if guess else str(rng.choice(["explicit", "many", "all"])),
                   others=str(rng.choice(["default", "all", "subset", "empty"])),
                   sorted_bonds=str(rng.choice(["none", "none", "topology", "bfs", "bfs"])),
                   sb_container=str(rng.choice(["int32", "int64", "strided", "fortran"])),
                   resmode=resmode, dup_bonds=bool(rng.random() < 0.3), view=bool(rng.random() < 0.5), again=bool(rng.random() < 0.5),
                   positional=bool(rng.random() < 0.3),
                   wide=bool(not quick and rng.random() < 0.3), widened=True)
    # (b) long trajectories; the first frames are whole, molecules are scattered only from frame `late` on
    for j in range(24 if quick else 300):
        rng = common.rng_for("C11long", seed, j)
        nf = int(rng.choice([64, 100, 101, 128, 257, 300]))
        yield dict(i=base + 10 ** 5 + j, seed=common.case_seed(seed, "C11l", j), op=["whole", "image"][j % 2],
                   system=str(rng.choice(["few", "solvated"])), relabel=str(rng.choice(c11_mols.RELABEL)),
                   global_perm=bool(rng.random() < 0.3), scatter=str(rng.choice(["atom", "sparse", "wrapped"])),
                   spread=int(rng.choice([1, 2, 3])), cell=common.CELL_KINDS[j % len(common.CELL_KINDS)],
                   perframe=[False, True, "one-field", "class-change"][int(rng.integers(4))], n_frames=nf,
                   late=int(nf - rng.integers(1, 4)) if rng.random() < 0.7 else 0, inplace=bool(rng.random() < 0.5),
                   make_whole=bool(rng.random() < 0.7), anchors=str(rng.choice(["explicit", "guess"])),
                   others="default", sorted_bonds="none", resmode=str(rng.choice(["molecule", "split"])),
                   view=bool(rng.random() < 0.5), widened=True)
    # (c) thousands of atoms (protein-sized solutes in 800-4000 solvent molecules) and unbranched 1200-3000 atom chains
    for j in range(16 if quick else 128):
        rng = common.rng_for("C11large", seed, j)
        system = ["large", "polymer"][j % 2]
        yield dict(i=base + 2 * 10 ** 5 + j, seed=common.case_seed(seed, "C11L", j), op=["whole", "image", "image"][j % 3],
                   system=system, relabel=str(rng.choice(c11_mols.RELABEL)), global_perm=bool(rng.random() < 0.25),
                   scatter=str(rng.choice(["atom", "sparse", "wrapped"])), spread=int(rng.choice([1, 2, 10])),
                   cell=common.CELL_KINDS[(j // 2) % len(common.CELL_KINDS)], perframe=bool(rng.random() < 0.5),
                   n_frames=int(rng.integers(1, 3)), inplace=bool(rng.random() < 0.5), make_whole=bool(rng.random() < 0.75),
                   anchors=str(rng.choice(["explicit", "guess"])) if system == "large" else "explicit", others="default",
                   sorted_bonds="none", resmode=str(rng.choice(["molecule", "split"])), widened=True)
    # (d) more histories on one Topology object / between two Topology objects
    for j in range(40 if quick else 600):
        rng = common.rng_for("C11hist2", seed, j)
        yield dict(i=base + 3 * 10 ** 5 + j, kind="topology-edit-history", seed=common.case_seed(seed, "C11h2", j),
                   cell=common.CELL_KINDS[j % len(common.CELL_KINDS)], order=str(rng.choice(["OHH", "HHO", "HOH"])),
                   n_waters=int(rng.integers(2, 9)), op=str(rng.choice(["whole", "image"])),
                   edit=["insert_then_delete", "second-topology-same-size", "copy-then-edit-copy"][j % 3],
                   spread=int(rng.choice([1, 2, 5])))


# ------------------------------------------------------------------------------------------------------------ helpers
def _sha(t):
    h = hashlib.sha256()
    for a in (t.xyz, t.time, t.unitcell_lengths, t.unitcell_angles):
        a = np.ascontiguousarray(a)
        h.update(str((a.dtype, a.shape)).encode())
        h.update(a.tobytes())
    return h.hexdigest()


def _tau(old, new, Bf, K):
    M = max(float(np.abs(old).max()), float(np.abs(new).max())) if old.size else 0.0
    Lmax = float(np.linalg.norm(Bf, axis=-1).max())
    return 16 * geom.EPS32 * (M + (2 * K + 3) * Lmax) + 1e-6


def _clone(md, s, xyz):
    return md.Trajectory(xyz.copy(), s.traj.topology, time=s.times.copy(), unitcell_lengths=s.L.copy(),
                         unitcell_angles=s.A.copy())


def _paths(bonds, na, rng, length, limit):
    """random simple bonded paths with `length` atoms"""
    nb = [[] for _ in range(na)]
    for a, b in bonds:
        nb[a].append(int(b))
        nb[b].append(int(a))
    out = []
    if not len(bonds):
        return out
    for _ in range(limit * 4):
        a, b = bonds[int(rng.integers(0, len(bonds)))]
        p = [int(a), int(b)] if rng.random() < 0.5 else [int(b), int(a)]
        while len(p) < length:
            c = [x for x in nb[p[-1]] if x not in p]
            if not c:
                break
            p.append(c[int(rng.integers(0, len(c)))])
        if len(p) == length:
            out.append(p)
        if len(out) >= limit:
            break
    return out


def _round_image(raw, B):
    """raw (nf, ..., 3) displacements, B (nf,3,3): the image d - round(d B^-1) B and its length (float64).

    For a displacement whose true minimum image v is shorter than w_min/2 every fractional component of v is below 1/2
    in magnitude (|f_i| = |v . n_i| / w_i <= |v| / w_i), so this rounded image IS v; conversely, if the rounded image
    is >= w_min/2 long the true minimum-image distance is >= w_min/2 as well.  Hence "length < w_min/2" decides
    membership in the domain exactly and, inside it, the value is the minimum image (`oracle.selfcheck` re-derives a
    sample with the 125-image search of vlib.oracle.geom.min_image)."""
    Binv = np.linalg.inv(B)
    shp = raw.shape
    r2 = raw.reshape(shp[0], -1, 3)
    n = np.round(np.einsum("fic,fcd->fid", r2, Binv))
    v = (r2 - np.einsum("fic,fcd->fid", n, B)).reshape(shp)
    return v, np.linalg.norm(v, axis=-1)


def _mic_arms(x64, B, tuples):
    """float64 minimum-image vectors between consecutive atoms of each tuple: (nf, nt, k-1, 3) and their lengths
    (exact wherever the length is < w_min/2, see _round_image)"""
    tuples = np.asarray(tuples)
    raw = x64[:, tuples[:, 1:]] - x64[:, tuples[:, :-1]]
    return _round_image(raw, B)


def _wrap_pi(d):
    return np.abs((d + np.pi) % (2 * np.pi) - np.pi)


# ------------------------------------------------------------------------------------------------------------ the case
def _run_history(case, ctx):
    import mdtraj as md
    from mdtraj.core import element as E
    rng = common.rng_for("C11hcase", case["seed"])
    nw = case["n_waters"]
    l, a = common.random_cell(rng, case["cell"], lo=2.5, hi=4.0)
    top = md.Topology()
    ch = top.add_chain()
    wgeom = {"O": np.zeros(3), "H1": np.array([0.0957, 0, 0]), "H2": np.array([-0.024, 0.0927, 0])}
    names = {"OHH": ["O", "H1", "H2"], "HHO": ["H1", "H2", "O"], "HOH": ["H1", "O", "H2"]}[case["order"]]
    for w in range(nw):
        res = top.add_residue("HOH", ch)
        at = {n: top.add_atom(n, E.oxygen if n == "O" else E.hydrogen, res) for n in names}
        top.add_bond(at["O"], at["H1"])
        top.add_bond(at["O"], at["H2"])

    def coords(topology):
        Bv = common.cell_vectors64(l, a)
        x = np.zeros((1, topology.n_atoms, 3))
        centres = {}
        for at in topology.atoms:
            r = at.residue.index
            if r not in centres:
                centres[r] = rng.uniform(0, 1, 3) @ Bv
                centres[r] = (centres[r], common.random_rotation(rng))
            c, R = centres[r]
            local = wgeom.get(at.name, np.array([0.015, 0.012, 0.0]))  # inserted virtual site sits next to the oxygen
            x[0, at.index] = c + local @ R.T
        return x, Bv

    def scattered(topology):
        x, Bv = coords(topology)
        K = case["spread"]
        shift = rng.integers(-K, K + 1, (topology.n_atoms, 3)).astype(np.float64) @ Bv
        t = md.Trajectory((x + shift[None]).astype(np.float32), topology, unitcell_lengths=l[None].astype(np.float32), unitcell_angles=a[None].astype(np.float32))
        return t

    def judge(t, label):
        B = t.unitcell_vectors[0].astype(np.float64)
        old = t.xyz.astype(np.float64).copy()
        try:
            res = t.make_molecules_whole() if case["op"] == "whole" else t.image_molecules(make_whole=True, anchor_molecules=[set(list(t.topology.atoms)[:3])])
        except Exception as e:
            ctx.violation("history.bonds", f"history:{label}:raises:{type(e).__name__}", f"{label}: {e!r}")
            return False
        new = res.xyz.astype(np.float64)
        tau = 16 * geom_eps * (np.abs(old).max() + np.abs(new).max() + np.linalg.norm(B, axis=1).max() * (case["spread"] + 2)) + 1e-6
        d = new[0] - old[0]
        if case["op"] == "image":
            d = d - d[:1]
        resid = np.abs(d @ np.linalg.inv(B) - np.round(d @ np.linalg.inv(B))).max()
        ctx.check(resid * np.linalg.norm(B, axis=1).max() <= 4 * tau, "history.lattice-move", f"history:{label}:move-is-not-a-lattice-vector",
                  f"{label}: an atom was moved by a non-lattice vector (fractional residual {resid:.3g})")
        bad = []
        for b0, b1 in res.topology.bonds:
            v = new[0, b1.index] - new[0, b0.index]
            plain = np.linalg.norm(v)
            mic = geom.min_image(v, B)[1]
            if abs(plain - mic) > 4 * tau:
                bad.append((b0.index, b1.index, float(plain), float(mic)))
        if bad:
            ctx.violation("history.bonds", f"history:{label}:bond-not-at-minimum-image",
                          f"{label} ({case['order']} waters, edit {case['edit']}): {len(bad)} bonded pair(s) not at their minimum-image separation, e.g. (i,j,plain,mic) {bad[0]}")
            return False
        ctx.ok("history.bonds", len(list(res.topology.bonds)))
        return True

    from vlib.oracle import geom
    geom_eps = geom.EPS32
    ctx.observe("history_edit", case["edit"])
    ctx.observe("history_op", case["op"])
    t1 = scattered(top)
    if not judge(t1, f"{case['op']}:first-call"):
        return
    if case["edit"] == "second-topology-same-size":
        # widened class: ANOTHER Topology object with the same numbers of chains, residues, atoms and bonds but another
        # atom order inside the waters (nothing remembered from the first call may be applied to it)
        other = {"OHH": ["H1", "H2", "O"], "HHO": ["H1", "O", "H2"], "HOH": ["O", "H1", "H2"]}[case["order"]]
        top2 = md.Topology()
        ch2 = top2.add_chain()
        for w in range(nw):
            res = top2.add_residue("HOH", ch2)
            at = {n: top2.add_atom(n, E.oxygen if n == "O" else E.hydrogen, res) for n in other}
            top2.add_bond(at["O"], at["H1"])
            top2.add_bond(at["O"], at["H2"])
        judge(scattered(top2), f"{case['op']}:second-call-on-another-topology-of-same-size")
        judge(scattered(top), f"{case['op']}:third-call-on-the-first-topology-again")
        return
    if case["edit"] == "copy-then-edit-copy":
        # widened class: a copy of a Topology that has been used, edited in place, then the original again
        top2 = top.copy()
        for res in list(top2.residues):
            top2.insert_atom("MW", E.virtual_site, res, index=res.atom(0).index, rindex=0)
        judge(scattered(top2), f"{case['op']}:second-call-on-edited-copy")
        judge(scattered(top), f"{case['op']}:third-call-on-the-original-again")
        return
    if case["edit"] == "insert_then_delete":
        # widened class: insert_atom, a call, then delete_atom_by_index (both renumber the atoms in place), a call
        for res in list(top.residues):
            top.insert_atom("MW", E.virtual_site, res, index=res.atom(0).index, rindex=0)
        if not judge(scattered(top), f"{case['op']}:second-call-after-insert_front"):
            return
        for idx_ in sorted((a.index for a in top.atoms if a.name == "MW"), reverse=True):
            top.delete_atom_by_index(idx_)
        judge(scattered(top), f"{case['op']}:third-call-after-delete_atom_by_index")
        return
    # in-place edit of the same Topology object
    for res in list(top.residues):
        first = res.atom(0).index
        if case["edit"] == "insert_front":
            top.insert_atom("MW", E.virtual_site, res, index=first, rindex=0)
        elif case["edit"] == "insert_middle":
            top.insert_atom("MW", E.virtual_site, res, index=first + 1, rindex=1)
        else:
            mw = top.insert_atom("MW", E.virtual_site, res, index=first + res.n_atoms, rindex=res.n_atoms)
            o = [x for x in res.atoms if x.name == "O"][0]
            top.add_bond(o, mw)
    t2 = scattered(top)
    judge(t2, f"{case['op']}:second-call-after-{case['edit']}")


def run_case(case, ctx):
    import mdtraj as md
    if case.get("kind") == "topology-edit-history":
        return _run_history(case, ctx)
    s = c11_mols.build(case)
    guard = None
    if case.get("view"):
        # widened class: the trajectory's coordinates are a window of a larger buffer (as when a caller hands over part
        # of an array); the frames in front of and behind the window must never be written
        g = np.empty((s.traj.n_frames + 2,) + s.traj.xyz.shape[1:], dtype=np.float32)
        g[0], g[-1] = np.float32(12345.678), np.float32(-9876.5)
        g[1:-1] = s.traj.xyz
        tv = md.Trajectory(g[1:-1], s.traj.topology, time=s.times.copy(), unitcell_lengths=s.L.copy(), unitcell_angles=s.A.copy())
        if np.shares_memory(tv.xyz, g):
            s.traj, guard = tv, g
        ctx.observe("xyz is a window of a larger buffer", bool(guard is not None))
    t, B, rng = s.traj, s.B, s.rng
    nf, na = t.n_frames, t.n_atoms
    op, K = case["op"], case["spread"]
    inplace = case["inplace"]
    mkw = case["make_whole"] if op == "image" else True
    ctx.observe("op", op)
    ctx.observe("cell", case["cell"] + ("/per-frame" + ("" if case["perframe"] is True else ":" + str(case["perframe"])) if case["perframe"] else ""))
    ctx.observe("system", case["system"].split(":")[0])
    ctx.observe("relabel", case["relabel"] + ("+global" if case.get("global_perm") and case["relabel"] == "random" else ""))
    ctx.observe("scatter", case["scatter"])
    ctx.observe("spread_cells", K)
    ctx.observe("n_frames", nf)
    for k in s.kinds:
        ctx.observe("molecule", k.split(":")[0])
    ctx.observe("inplace", inplace)
    if case.get("widened"):
        ctx.observe("arguments passed", "positionally" if case.get("positional") else "by keyword")
        ctx.observe("residues", case.get("resmode", "molecule") + ("" if not (case.get("global_perm") and case["relabel"] == "random") else " (interleaved: one residue per atom)"))
        ctx.observe("duplicate bonds in the topology", bool(case.get("dup_bonds")))
        ctx.observe("scatter starts at", "frame 0" if not case.get("late") else "a late frame")
        ctx.observe("n_atoms", "<100" if na < 100 else ("<1000" if na < 1000 else (">=1000" if na < 5000 else ">=5000")))
        ctx.observe("n_chains", min(t.topology.n_chains, 5))
        ctx.observe("molecules spanning several residues / chains",
                    f"{sum(1 for m in s.mols if len(set(t.topology.atom(int(i)).residue.index for i in m)) > 1) > 0}/"
                    f"{sum(1 for m in s.mols if len(set(t.topology.atom(int(i)).residue.chain.index for i in m)) > 1) > 0}"
                    if na < 1000 else "not counted")

    top = t.topology
    atoms = list(top.atoms)
    wmin = np.array([common.cell_widths(B[f]).min() for f in range(nf)])
    # domain guard (by construction; float32 storage could in principle eat the margin)
    for f in range(nf):
        for m in s.mols:
            if len(m) > 1:
                ext = np.linalg.norm(s.whole[f, m][:, None] - s.whole[f, m][None], axis=-1).max()
                if not ext < 0.45 * wmin[f]:
                    ctx.skip("domain", "molecule extent not safely below w_min/2")
                    return

    # ---- direct monitor of find_molecules
    bondfree_multi = bool(len(s.bonds) == 0 and any(r.n_atoms > 1 for r in top.residues))
    if bondfree_multi:
        ctx.skip("find_molecules.partition", "bond-free topology with multi-atom residues: find_molecules refuses (documented)")
    elif len(s.bonds) or all(len(m) == 1 for m in s.mols):
        got = sorted(tuple(sorted(a.index for a in mol)) for mol in top.find_molecules())
        want = sorted(tuple(int(x) for x in m) for m in s.mols)
        ctx.check(got == want, "find_molecules.partition", "find_molecules:partition-differs-from-bond-graph-components",
                  f"find_molecules gives {len(got)} molecules, the bond graph has {len(want)} components",
                  got=got[:6], want=want[:6])

    # ---- arguments
    order_default = c11_model.default_bond_order(s.bonds)
    sbmode = case["sorted_bonds"] if len(s.bonds) else "none"  # also passed with make_whole=False: must then be ignored
    if sbmode == "topology":
        sb = order_default.astype(np.int32).reshape(-1, 2)
        order = order_default
    elif sbmode == "bfs":
        sb = c11_model.parent_first_bonds(na, s.bonds, rng)
        order = sb
    else:
        sb = None
        order = order_default
    sbc = case.get("sb_container", "int32") if sb is not None else "int32"
    if sbc == "int64":
        sb = np.asarray(sb, dtype=np.int64)
    elif sbc == "strided":  # every second column of a wider int32 array: a non-contiguous view
        wide_ = np.zeros((len(sb), 4), dtype=np.int32)
        wide_[:, ::2] = sb
        wide_[:, 1::2] = -7
        sb = wide_[:, ::2]
    elif sbc == "fortran":
        sb = np.asfortranarray(np.asarray(sb, dtype=np.int32))
    ctx.observe("sorted_bonds", sbmode + ("" if mkw else " (make_whole=False)"))
    if sb is not None:
        ctx.observe("sorted_bonds container", sbc)
    base = "make_molecules_whole" if op == "whole" else "image_molecules"  # object-level guarantees are keyed by this
    entry = "make_molecules_whole" if op == "whole" else f"image_molecules[make_whole={mkw}]"
    if sbmode == "bfs" and mkw:
        entry += "[sorted_bonds=parent-first]"
    elif sbmode == "topology" and mkw:
        entry += "[sorted_bonds=sorted-by-first-atom]"
    kwargs = dict(sorted_bonds=sb)
    anchors_idx = None
    if op == "image":
        kwargs["make_whole"] = mkw
        nm = len(s.mols)
        if case["anchors"] in ("explicit", "many", "all"):
            k = int(rng.integers(1, min(3, nm) + 1))
            if case["anchors"] == "many":  # widened: up to 8 anchors (the nearest-anchor clustering loop runs k-1 times)
                k = int(rng.integers(min(3, nm), min(8, nm) + 1))
            elif case["anchors"] == "all":  # widened: every molecule is an anchor, nothing is left to wrap
                k = nm
            amols = [int(x) for x in rng.permutation(nm)[:k]]
            kwargs["anchor_molecules"] = [set(atoms[i] for i in s.mols[m]) for m in amols]
            anchors_idx = [s.mols[m] for m in amols]
            rest = [m for m in range(nm) if m not in amols]
            if case["others"] == "all":
                kwargs["other_molecules"] = [set(atoms[i] for i in s.mols[m]) for m in rest]
            elif case["others"] == "subset":
                keep = [m for m in rest if rng.random() < 0.6]
                kwargs["other_molecules"] = [set(atoms[i] for i in s.mols[m]) for m in keep]
            elif case["others"] == "empty":  # widened: an explicit empty list (nothing but the anchors is touched)
                kwargs["other_molecules"] = []
            ctx.observe("anchors", f"{case['anchors']}/others={case['others']}")
            ctx.observe("explicit_anchor_count", min(k, 8))
        else:
            try:
                guessed = top.guess_anchor_molecules()  # observation of which molecules the heuristic picks
                anchors_idx = [np.array(sorted(a.index for a in mol)) for mol in guessed]
                ctx.observe("anchors", "guessed")
                ctx.observe("guessed_anchor_count", min(len(guessed), 6))
            except ValueError as e:
                if "anchor" in str(e) or "bonds" in str(e):
                    anchors_idx = None
                else:
                    raise

    # ---- reference values before the call
    old = t.xyz.copy()
    old64 = old.astype(np.float64)
    sha_before = _sha(t)
    cell_before = (t.unitcell_lengths.tobytes(), t.unitcell_angles.tobytes(), t.time.tobytes(), t.unitcell_vectors.tobytes())
    samp = _sample(s, na, rng)
    before = _consequences(md, t, samp)

    def call(tr, inpl):
        if case.get("positional"):
            # widened class: every argument passed by position, in the documented order
            if op == "whole":
                return tr.make_molecules_whole(inpl, kwargs["sorted_bonds"])
            return tr.image_molecules(inpl, kwargs.get("anchor_molecules"), kwargs.get("other_molecules"), kwargs["sorted_bonds"],
                                      kwargs["make_whole"])
        if op == "whole":
            return tr.make_molecules_whole(inplace=inpl, **kwargs)
        return tr.image_molecules(inplace=inpl, **kwargs)

    def call_with(tr, kw):
        if op == "whole":
            return tr.make_molecules_whole(inplace=False, **kw)
        return tr.image_molecules(inplace=False, **kw)

    try:
        res = call(t, inplace)
    except ValueError as e:
        if sbc == "int64" and "dtype mismatch" in str(e):
            ctx.skip("call", "sorted_bonds of dtype int64 is refused with ValueError (the kernel takes int32): refusal, not a wrong result")
            if guard is not None:
                ctx.check(bool((guard[0] == np.float32(12345.678)).all() and (guard[-1] == np.float32(-9876.5)).all()
                               and np.array_equal(t.xyz, old)), "guard-frames", f"{base}:refused-call-modified-coordinates",
                          "the refused call changed coordinates")
            return
        if op == "image" and case["anchors"] == "guess" and "Could not find any anchor" in str(e):
            ctx.skip("call", "guess_anchor_molecules found no anchor (documented refusal of the heuristic)")
            return
        if op == "image" and case["anchors"] == "guess" and "does not include bonds" in str(e):
            ctx.skip("call", "find_molecules refuses a topology without bonds (documented)")
            return
        if bondfree_multi and "does not include bonds" in str(e):
            ctx.skip("call", "find_molecules refuses a bond-free topology with multi-atom residues (documented)")
            return
        nob = ":topology-without-bonds" if len(s.bonds) == 0 else ""
        ctx.violation("call", f"{entry}{nob}:raises:{type(e).__name__}", f"{entry} raised {type(e).__name__}: {e}",
                      n_bonds=len(s.bonds), n_atoms=na)
        return
    ctx.ok("call")
    if guard is not None:
        ctx.check(bool((guard[0] == np.float32(12345.678)).all() and (guard[-1] == np.float32(-9876.5)).all()), "guard-frames",
                  f"{base}:inplace={inplace}:writes-outside-the-trajectory's-own-frames",
                  "frames of the enclosing buffer in front of / behind the trajectory's window were modified")

    # ---- object-level guarantees
    if inplace:
        ctx.check(res is t, "inplace=True.returns-self", f"{base}:inplace=True:does-not-return-self",
                  "inplace=True did not return the trajectory itself")
    else:
        ctx.check(_sha(t) == sha_before and np.array_equal(t.xyz, old), "inplace=False.input-untouched",
                  f"{base}:inplace=False:input-modified", "inplace=False modified the input trajectory")
        shared = [nm_ for nm_, a, b in (("xyz", res.xyz, t.xyz), ("time", res.time, t.time),
                                        ("unitcell_lengths", res.unitcell_lengths, t.unitcell_lengths),
                                        ("unitcell_angles", res.unitcell_angles, t.unitcell_angles)) if np.shares_memory(a, b)]
        ctx.check(not shared and res is not t, "inplace=False.no-shared-memory", f"{base}:inplace=False:result-shares-memory",
                  f"result shares memory with the input: {shared}")
    if res.xyz.shape != old.shape or res.xyz.dtype != np.float32 or not np.isfinite(res.xyz).all():
        ctx.violation("shape", f"{base}:result-shape-or-nonfinite", f"result xyz shape {res.xyz.shape} dtype {res.xyz.dtype}")
        return
    cell_after = (res.unitcell_lengths.tobytes(), res.unitcell_angles.tobytes(), res.time.tobytes(), res.unitcell_vectors.tobytes())
    bad = [n_ for n_, a, b in zip(("unitcell_lengths", "unitcell_angles", "time", "unitcell_vectors"), cell_before, cell_after) if a != b]
    ctx.check(not bad, "untouched.cell-time", f"{base}:changes:{'+'.join(bad)}", f"{bad} of the result differ from the input's")
    new = res.xyz.copy()
    new64 = new.astype(np.float64)
    after = _consequences(md, res, samp)

    # ---- lattice congruence of the moves
    mon = "whole" if op == "whole" else "image"
    taus = np.array([_tau(old[f], new[f], B[f], K) for f in range(nf)])
    labels = np.zeros((nf, na, 3), dtype=np.int64)  # image label of every atom after the call (up to one constant per frame)
    for f in range(nf):
        D = new64[f] - old64[f]
        if op == "image":
            D = D - D[0]
        n = np.round(D @ np.linalg.inv(B[f]))
        labels[f] = s.shifts[f] + n.astype(np.int64)
        resid = np.linalg.norm(D - n @ B[f], axis=1)
        badm = resid > taus[f] * (2 if op == "image" else 1)
        if badm.any():
            j = int(np.argmax(resid))
            what = "move" if op == "whole" else "move relative to atom 0's (common translation removed)"
            ctx.violation(f"{mon}.lattice-move", f"{entry}:move-not-a-lattice-vector",
                          f"{entry}: {what} of atom {j} is {resid[j]:.4g} nm away from the lattice (tau {taus[f]:.2g})",
                          frame=f, atom=j, move=D[j], cell=B[f], nearest_integers=n[j])
        ctx.ok(f"{mon}.lattice-move", int((~badm).sum()))
        if op == "whole":
            ctx.observe("atoms_moved", "some" if n.any() else "none")

    # ---- bonds whole
    if mkw and len(s.bonds):
        sim = c11_model.simulate_traversal(order, s.shifts)
        bi, bj = s.bonds[:, 0], s.bonds[:, 1]
        pred_split = (sim[:, bi] != sim[:, bj]).any(axis=-1)  # (nf, nb)
        mol_of = np.zeros(na, dtype=np.int64)
        for k_, m in enumerate(s.mols):
            mol_of[m] = k_
        ctx.observe("walk-order-model", "predicts-split" if pred_split.any() else "predicts-whole")
        raw_all = new64[:, bj] - new64[:, bi]
        _, mic_all = _round_image(raw_all, B)
        any_split = False
        for f in range(nf):
            if 0.16 * wmin[f] <= 8 * taus[f]:
                # a split bond misses its minimum image by >= w_min - 2*0.42 w_min; demand that to dwarf the rounding
                ctx.skip(f"{mon}.bonds", "float32 rounding at this distance from the origin is comparable to the cell width", len(bi))
                continue
            raw = raw_all[f]
            plain = np.linalg.norm(raw, axis=1)
            mic = mic_all[f]
            far = mic >= wmin[f] / 2  # cannot happen for a bond of the domain; then the rounded image is not decisive
            if far.any():
                mic = mic.copy()
                mic[far] = geom.min_image(raw[far], B[f])[1]
            split = plain - mic > 2 * taus[f]
            # a split bond carries the walk-order key only if the walk order predicts it AND the whole molecule came
            # out exactly as the exact-arithmetic replay of that walk says (same relative image labels for every atom)
            known = np.zeros(len(split), bool)
            for j in np.where(split & pred_split[f])[0][:200]:
                m = s.mols[mol_of[bi[j]]]
                known[j] = bool(((labels[f, m] - labels[f, m[0]]) == (sim[f, m] - sim[f, m[0]])).all())
            other = split & ~known
            if known.any() and sbmode == "topology":
                # the caller (this workload) chose the order; the docstring only says "in sorted order" and does not
                # tell which order the walk needs, so a split explained by the supplied order alone is not decided
                ctx.skip(f"{mon}.bonds", "explicit sorted_bonds (sorted by first atom) is not parent-first: required order undocumented",
                         int(known.sum()))
            elif known.any():
                j = int(np.argmax(known))
                par = c11_model.traversal_forest(order, na)
                ctx.violation(f"{mon}.bonds", f"{entry}:bond-order-dependent:child-before-parent",
                              f"{entry}: bond {int(bi[j])}-{int(bj[j])} stays split (plain {plain[j]:.4g} nm, minimum image "
                              f"{mic[j]:.4g} nm): atom {int(bj[j])} has several lower-indexed neighbours and the walk over bonds "
                              f"sorted by first atom moves it next to each in turn (it ends next to atom {int(par[bj[j]])})",
                              frame=f, bond=[int(bi[j]), int(bj[j])], plain=plain[j], mic=mic[j], n_split=int(known.sum()),
                              walk=np.asarray(order)[:12], cell=B[f])
            if other.any():
                j = int(np.argmax(other))
                ctx.violation(f"{mon}.bonds", f"{entry}:bond-not-at-minimum-image",
                              f"{entry}: bond {int(bi[j])}-{int(bj[j])} has plain distance {plain[j]:.5g} nm but minimum image "
                              f"{mic[j]:.5g} nm although the documented walk order would make it whole",
                              frame=f, bond=[int(bi[j]), int(bj[j])], cell=B[f], x_old=old64[f, [bi[j], bj[j]]],
                              x_new=new64[f, [bi[j], bj[j]]])
            ctx.ok(f"{mon}.bonds", int((~split).sum()))
            any_split = any_split or bool(split.any())
            ctx.observe("bonds after the call", "all whole" if not split.any() else "some split")
        if "perm" in case:
            roots = int((c11_model.traversal_forest(order, na) == -1).sum())
            ctx.observe("enumerated labelling", f"{case['system'][4:]}: walk forest {'spanning' if roots == 1 else 'not spanning'}"
                                                f" -> {'split' if any_split else 'whole'}")

    # ---- non-anchor molecules move as units (make_whole=False)
    if op == "image" and not mkw and anchors_idx is not None:
        aset = set(tuple(int(x) for x in a) for a in anchors_idx)
        for f in range(nf):
            D = new64[f] - old64[f]
            for m in s.mols:
                if tuple(int(x) for x in m) in aset or len(m) < 2:
                    continue
                dev = np.linalg.norm(D[m] - D[m[0]], axis=1).max()
                ctx.check(dev <= 2 * taus[f], "image.rigid-non-anchor", f"{entry}:non-anchor-molecule-not-moved-as-a-unit",
                          f"{entry}: atoms of a non-anchor molecule moved by different vectors (spread {dev:.4g} nm)",
                          frame=f, molecule=m, moves=D[m][:6])

    # ---- consequences
    _judge_consequences(ctx, entry, s, samp, before, after, old64, new64, B, taus, wmin)

    # ---- differentials
    other = call(_clone(md, s, old), not inplace)
    ctx.check(np.array_equal(other.xyz, new), "inplace.agreement", f"{base}:inplace=True-and-False-differ",
              f"{entry}: inplace=True and inplace=False give different coordinates "
              f"(max diff {np.abs(other.xyz.astype(np.float64) - new64).max():.4g})")
    if sbmode == "topology" and mkw:
        kw2 = dict(kwargs)
        kw2["sorted_bonds"] = None
        r2 = call_with(_clone(md, s, old), kw2)
        # not a verdict: the statement does not say the two must coincide (a smarter default may differ)
        ctx.observe("explicit sorted-by-first-atom list vs default", "same result" if np.array_equal(r2.xyz, new) else "different result")
    if case.get("again"):
        # widened class: the same call once more on the OUTPUT of the first call (state carried on the object; input
        # that is already whole / already imaged): again only lattice moves (+ one common translation), bonds stay whole
        res2 = call(res, inplace)
        again = res2.xyz.astype(np.float64)
        n_ok = n_okb = 0
        for f in range(nf):
            tau2 = _tau(new[f], res2.xyz[f], B[f], K)
            D = again[f] - new64[f]
            if op == "image":
                D = D - D[0]
            nn = np.round(D @ np.linalg.inv(B[f]))
            resid = np.linalg.norm(D - nn @ B[f], axis=1)
            badm = resid > tau2 * (2 if op == "image" else 1)
            if badm.any():
                j = int(np.argmax(resid))
                ctx.violation("again.lattice-move", f"{entry}:second-call-on-own-output:move-not-a-lattice-vector",
                              f"{entry} applied to its own output: move of atom {j} is {resid[j]:.4g} nm away from the lattice (tau {tau2:.2g})",
                              frame=f, atom=j)
            n_ok += int((~badm).sum())
            if mkw and len(s.bonds) and 0.16 * wmin[f] > 8 * max(tau2, taus[f]):
                bi_, bj_ = s.bonds[:, 0], s.bonds[:, 1]
                _, mic1 = _round_image((new64[f, bj_] - new64[f, bi_])[None], B[f][None])
                whole1 = np.linalg.norm(new64[f, bj_] - new64[f, bi_], axis=1) - mic1[0] <= 2 * taus[f]
                raw2 = again[f, bj_] - again[f, bi_]
                _, mic2 = _round_image(raw2[None], B[f][None])
                split2 = whole1 & (np.linalg.norm(raw2, axis=1) - mic2[0] > 2 * tau2)
                if split2.any():
                    j = int(np.argmax(split2))
                    ctx.violation("again.bonds", f"{entry}:second-call-on-own-output:splits-a-whole-bond",
                                  f"{entry} applied to its own output: bond {int(bi_[j])}-{int(bj_[j])}, whole after the first call, is "
                                  f"split after the second", frame=f)
                n_okb += int((whole1 & ~split2).sum())
        ctx.ok("again.lattice-move", n_ok)
        if n_okb:
            ctx.ok("again.bonds", n_okb)
        if not inplace:
            ctx.check(np.array_equal(res.xyz, new), "inplace=False.input-untouched", f"{base}:inplace=False:input-modified",
                      "inplace=False modified its input (the output of the first call)")
        res = res2 if inplace else res
    if not inplace:
        # mutate the result: the input must not notice
        res.xyz[...] += 1.0
        res.time[...] = (res.time + 1).astype(res.time.dtype)
        res.unitcell_lengths[...] += 1.0
        res.unitcell_angles[...] -= 1.0
        ctx.check(_sha(t) == sha_before, "inplace=False.input-untouched", f"{base}:inplace=False:result-aliases-input",
                  "modifying the returned trajectory changed the input trajectory")


def _sample(s, na, rng):
    bonds = s.bonds
    pairs = [tuple(int(x) for x in b) for b in bonds[rng.permutation(len(bonds))[:16]]] if len(bonds) else []
    if na >= 2:
        for _ in range(12):
            a, b = rng.choice(na, 2, replace=False)
            pairs.append((int(a), int(b)))
    tri = _paths(bonds, na, rng, 3, 8)
    if na >= 3:
        for _ in range(3):
            tri.append([int(x) for x in rng.choice(na, 3, replace=False)])
    quad = _paths(bonds, na, rng, 4, 8)
    if na >= 4:
        for _ in range(3):
            quad.append([int(x) for x in rng.choice(na, 4, replace=False)])
    return dict(pairs=np.array(pairs, dtype=np.int64).reshape(-1, 2), tri=np.array(tri, dtype=np.int64).reshape(-1, 3),
                quad=np.array(quad, dtype=np.int64).reshape(-1, 4))


def _consequences(md, tr, samp):
    out = {}
    if len(samp["pairs"]):
        out["d"] = md.compute_distances(tr, samp["pairs"], periodic=True).astype(np.float64)
    if len(samp["tri"]):
        out["a"] = md.compute_angles(tr, samp["tri"], periodic=True).astype(np.float64)
    if len(samp["quad"]):
        out["h"] = md.compute_dihedrals(tr, samp["quad"], periodic=True).astype(np.float64)
    return out


def _judge_consequences(ctx, entry, s, samp, before, after, old64, new64, B, taus, wmin):
    """Verdict: the float64 minimum-image distance / angle / dihedral of the sampled tuples is unchanged (monitors
    consequence.*).  md.compute_*(periodic=True) before/after is observed on the same tuples (monitors hook.compute_*):
    agreement is counted; a difference while the float64 value did NOT change means md.compute_* itself is off the
    minimum image on one side (e.g. its orthorhombic shortcut for angles within 9e-4 deg of 90: C05/C06/C07's subject),
    which is not a statement about re-imaging, so it is skipped and listed under observed['md hook off reference']."""
    nf = old64.shape[0]
    tau = taus[:, None]
    lim = (wmin / 2)[:, None] - 4 * tau

    def hook(name, fn, cond, diff, tol, what):
        agree = cond & (diff <= tol)
        off = cond & ~agree
        ctx.ok(f"hook.{fn}", int(agree.sum()))
        if off.any():
            ctx.skip(f"hook.{fn}", f"md.{fn}(periodic=True) differs before/after although the float64 minimum-image {what} "
                     "is unchanged: the deviation is md's own (subject of C05-C07)", int(off.sum()))
            ctx.observe("md hook off reference", f"{fn} on {'near-' if np.abs(s.A - 90).max() < 1e-2 and np.abs(s.A - 90).max() > 0 else ''}"
                                                 f"{'orthorhombic' if np.abs(s.A - 90).max() < 1e-2 else 'skewed'} cell", int(off.sum()))

    # distances
    if len(samp["pairs"]):
        Vb, Db = _mic_arms(old64, B, samp["pairs"])
        f0 = int(s.rng.integers(0, nf))
        raw0 = old64[f0, samp["pairs"][:, 1]] - old64[f0, samp["pairs"][:, 0]]
        _, d125 = geom.min_image(raw0, B[f0])
        inside = d125 < wmin[f0] / 2 - 1e-9
        agree = np.where(inside, np.abs(Db[f0, :, 0] - d125) < 1e-9, Db[f0, :, 0] >= wmin[f0] / 2 - 1e-9)
        if agree.all():
            ctx.ok("oracle.selfcheck", len(agree))
        else:
            ctx.violation("oracle.selfcheck", "oracle:rounded-image-disagrees-with-image-search",
                          "the monitor's own rounded minimum image disagrees with the 125-image search (harness defect)")
        Va, Da = _mic_arms(new64, B, samp["pairs"])
        Db, Da = Db[:, :, 0], Da[:, :, 0]
        dom = (Db < lim) | (Da < lim)
        ref_bad = dom & (np.abs(Db - Da) > 2 * tau)
        if ref_bad.any():
            f, j = np.argwhere(ref_bad)[0]
            ctx.violation("consequence.distance", f"{entry}:minimum-image-distance-changed",
                          f"{entry}: float64 minimum-image distance of atoms {samp['pairs'][j].tolist()} changed "
                          f"{Db[f, j]:.6g} -> {Da[f, j]:.6g} nm", frame=int(f))
        good = dom & ~ref_bad
        ctx.ok("consequence.distance", int(good.sum()))
        hook("d", "compute_distances", good, np.abs(before["d"] - after["d"]), 4 * tau, "distance")
        nd = int((~dom).sum())
        if nd:
            ctx.skip("consequence.distance", "pair separation >= w_min/2: minimum image not unique in a skewed cell", nd)
    # angles
    if len(samp["tri"]):
        Vb, Db = _mic_arms(old64, B, samp["tri"])
        Va, Da = _mic_arms(new64, B, samp["tri"])
        dom = (Db < lim[:, :, None]).all(-1) & (Da < lim[:, :, None]).all(-1)
        thb = geom.angle_vec(-Vb[:, :, 0], Vb[:, :, 1])
        tha = geom.angle_vec(-Va[:, :, 0], Va[:, :, 1])
        arm = np.minimum(Db.min(-1), Da.min(-1))
        cond = dom & (arm > 100 * tau)
        tol_ref = 4 * tau / np.where(cond, arm, 1.0) + 1e-9
        ref_bad = cond & (np.abs(thb - tha) > tol_ref)
        if ref_bad.any():
            f, j = np.argwhere(ref_bad)[0]
            ctx.violation("consequence.angle", f"{entry}:minimum-image-angle-changed",
                          f"{entry}: float64 minimum-image angle of atoms {samp['tri'][j].tolist()} changed {thb[f, j]:.6g} -> "
                          f"{tha[f, j]:.6g} rad", frame=int(f))
        good = cond & ~ref_bad
        ctx.ok("consequence.angle", int(good.sum()))
        sn = np.sin(thb)
        cond2 = good & (sn > 0.1)
        tol = (4 * tau / np.where(cond, arm, 1.0) + 8 * geom.EPS32) / np.where(cond2, sn, 1.0)
        hook("a", "compute_angles", cond2, np.abs(before["a"] - after["a"]), tol, "angle")
        nd = int((~cond).sum())
        if nd:
            ctx.skip("consequence.angle", "an arm >= w_min/2 (minimum image not unique) or shorter than 100 tau", nd)
    # dihedrals
    if len(samp["quad"]):
        Vb, Db = _mic_arms(old64, B, samp["quad"])
        Va, Da = _mic_arms(new64, B, samp["quad"])
        dom = (Db < lim[:, :, None]).all(-1) & (Da < lim[:, :, None]).all(-1)
        phb = geom.dihedral_vec(Vb[:, :, 0], Vb[:, :, 1], Vb[:, :, 2])
        pha = geom.dihedral_vec(Va[:, :, 0], Va[:, :, 1], Va[:, :, 2])
        arm = np.minimum(Db.min(-1), Da.min(-1))
        s1 = np.sin(geom.angle_vec(Vb[:, :, 0], Vb[:, :, 1]))
        s2 = np.sin(geom.angle_vec(Vb[:, :, 1], Vb[:, :, 2]))
        smin = np.minimum(s1, s2)
        cond = dom & (arm > 100 * tau) & (smin > 0.1)
        tol = 8 * tau / np.where(cond, arm * smin, 1.0) + 16 * geom.EPS32
        ref_bad = cond & (_wrap_pi(phb - pha) > tol)
        if ref_bad.any():
            f, j = np.argwhere(ref_bad)[0]
            ctx.violation("consequence.dihedral", f"{entry}:minimum-image-dihedral-changed",
                          f"{entry}: float64 minimum-image dihedral of atoms {samp['quad'][j].tolist()} changed {phb[f, j]:.6g} -> "
                          f"{pha[f, j]:.6g} rad", frame=int(f))
        good = cond & ~ref_bad
        ctx.ok("consequence.dihedral", int(good.sum()))
        hook("h", "compute_dihedrals", good, _wrap_pi(before["h"] - after["h"]), 2 * tol, "dihedral")
        nd = int((~cond).sum())
        if nd:
            ctx.skip("consequence.dihedral", "a bond >= w_min/2, shorter than 100 tau, or nearly collinear bonds", nd)
