"""C14 -- reported hydrogen bonds are exactly those meeting the stated criteria.

Technique: runtime monitoring.  The real `md.baker_hubbard`, `md.wernet_nilsson` and `md.kabsch_sander` run on
protein-like workloads derived from the repository's test structures (2EQQ 20 NMR models, BPTI, villin, an RNA, solvated
peptides, water boxes, a protein + ligand + water system, multi-chain crystal structures) and on small hostile
synthetic clusters; an independent float64 reference (vlib/oracle/c14_hbond.py, written from the docstrings) observes
every call.

Workload transformations (all seeded from the case descriptor): choice/replication of 1..30 frames, Gaussian noise
0..0.05 nm, "tie" trajectories (k copies of a frame + n-k copies blown up by a factor 3, so every bond of the frame
occurs in exactly k/n of the frames: this is what decides `>` against `>=` on freq), spatial subsets of big systems,
topology rebuilt through the public construction API with edits (waters renamed within the VMD water list or to a
non-water name, dropped / reversed N-H and O-H bonds, backbone atoms deleted, residues renamed to/from PRO, hetero
residues -- water / ion / ligand fragments -- prepended, inserted between residues or chains, chains split), unit cells
of every class with w_min >= ~1.1 nm, the structure translated and single atoms shifted by lattice vectors.

Widening round (cases with id >= 10**6, `_wide_cases`; the stream above is unchanged).  Input classes added:
64-257 frame trajectories in which the bonds exist only in the last 1-3 frames (consecutive simulation frames of
frame0.h5 / NMR models at the end of blown-up copies), with freq sitting at (k-1)/n, k/n, (k+1)/n; per-frame cells in
which exactly one of the six parameters changes and cells whose class changes along the trajectory; structures without
any hydrogen (crystal structures 1bpi, 4OH9, or all H stripped), cut down to 1-3 residues, without protein (RNA,
ligand, water boxes), with ACE / NME / NH2 caps (alanine dipeptide, GG, AAQAA) as Kabsch-Sander input; the atoms of a
residue listed in another order (H before its N/O, O before N: bonds then read (H, N) in the topology); numpy scalars
for freq / cutoffs / flags and all arguments passed positionally; for kabsch_sander also non-standard residue names
(DAL, MSE, HYP ...), 3-8 chain cuts, hetero residues CA (calcium, an atom named CA), ACE, NME, NH2 and a ligand that
has all four backbone names; monitor history.in-place-edit: after the calls the SAME Topology object is edited in
place (residue renamed to / from a water name or PRO, atom renamed, element changed, add_bond, insert_atom) and the
next call on it must equal the call on a freshly built equal topology (vlib.gen.common.rebuild_topology).
Not added: freq outside [0, 1], coincident atoms (H on its acceptor: 0/0 in the law of cosines), topologies listing a
bond twice (a duplicated donor pair is reported twice: whether "exactly the triplets" means a set is not documented).

Decisions and bands.  Every elementary decision carries its float64 margin and is three-valued:
  band(distance)  = max(1e-5 nm, 14 * 2^-24 * max|coordinate|)    (1e-5: the statement; second term: float32 rounding
                    of the code under observation, exceeds 1e-5 only for atoms several cells away from the origin)
  band(angle)     = 1e-5 rad, and additionally |cos(theta) - cos(cutoff)| <= first-order propagation of the distance
                    band through the law of cosines in float32 (oracle.cos_band)
  band(W-N cone)  = max(1e-5 nm, band(distance) + 0.635 * cos band)
  band(K-S energy)= 1e-4 kcal/mol + first-order float32 propagation (4 eps M on each distance, 8 roundings per term);
                    the same quantity + 1e-4 |E| is the tolerance on reported energies; band(CA prefilter)=band(distance)
A Baker-Hubbard triplet is decided only when its frequency decision is the same whichever way the frames inside a band
fall.  Under periodic boundaries a frame of a triplet is decided only when |HD|+|HA| (resp. |DH|+|DA|) < w_min/2, where
the minimum-image triangle is unique; anything else is `skip`.  With sidechain_only, atoms whose sidechain status the
documentation does not fix (OXT and other terminal names, non-standard residue names) make a triplet `skip`.
Kabsch-Sander donors without a documented hydrogen position (preceding residue lacks C or O, or lies in another
chain) are excluded from the set/value comparison but stay under the determinism monitors.

Monitors
  bh.present / bh.absent     decided candidate triplets: reported  <=>  criterion met in more than freq of the frames
  bh.reported-are-candidates every reported row is a documented candidate (bonded N-H/O-H donor, N/O acceptor, filters)
  bh.structure               (n,3) integer array, rows unique
  wn.present / wn.absent     per frame, decided candidates: reported <=> inside the cone
  wn.reported-are-candidates, wn.structure
  ks.bond-set                per frame and documented donor: the column of the sparse matrix holds exactly the best two
                             acceptors with E < -0.5 kcal/mol (CA prefilter 0.9 nm, proline never donates)
  ks.energy                  stored values equal the documented formula
  ks.structure               list of n_frames (n_res,n_res) matrices, <= 2 entries per donor column, all values < -0.5,
                             no entries on incomplete residues / diagonal / (i, i+1) peptide pairs
  ks.frame-context           kabsch_sander(t)[i] is bit-identical to kabsch_sander(frame i alone)[0]
  ks.junk-differential       a frame embedded among junk frames (zeros, 1e30, NaN, scrambled structure) gives the
                             bit-identical matrix
  oracle.selfcheck           the rounding minimum image used for bulk screening equals geom.min_image on the candidates

Violation keys (mechanisms): baker_hubbard:{missing,spurious}[periodic|plain][:freq-tie], baker_hubbard:reported-non-candidate:<why>,
wernet_nilsson:..., kabsch_sander:{missing-bond,spurious-bond,wrong-partner,energy-value,...},
kabsch_sander:H-built-from-xyz[-1]-when-preceding-residue-lacks-C-or-O (context dependence confined to donors whose
preceding residue has no C or no O: ks_assign_hydrogens indexed xyz[3*(-1)], i.e. the last atom of the previous frame or
memory in front of the array; repaired in /repo by "fix: kabsch_sander read coordinates outside the frame when the
preceding residue has no C/O" -- the code now puts H on N there; the key stays as the regression monitor and fires again
when that commit is reverted), kabsch_sander:output-depends-on-other-frames (any other context dependence).
Donors of that class (and first residues of later chains) still have no *documented* hydrogen position and stay out
of ks.bond-set / ks.energy.
"""
from __future__ import annotations

import os

import numpy as np

from vlib.gen import common
from vlib.oracle import c14_hbond as ref
from vlib.oracle import geom

PROPERTY = "C14"
LEVEL = "exploration"
NATIVE = ["mdtraj.geometry._geometry"]
RULE = ("cases = (criterion, source structure, frame selection / noise / tie construction, topology edits, options "
        "freq x cutoffs x exclude_water x sidechain_only x periodic, cell class + lattice shifts) from a seeded stream; "
        "a case is non-trivial when at least one candidate triplet / donor column was decided against the float64 "
        "reference; distinct = distinct case descriptors")
WORKERS = {"quick": 8, "thorough": 16}
BUDGET = {"quick": 60, "thorough": 900}
ENV = {"OMP_WAIT_POLICY": "PASSIVE"}
GROUPS = {"quick": [dict(name="asan", flavour="asan", workers=1)],
          "thorough": [dict(name="asan", flavour="asan", workers=2)]}
FLOORS = {"quick": {"history.in-place-edit": 200, "bh.present": 120, "bh.absent": 40000, "wn.present": 600, "wn.absent": 250000, "ks.bond-set": 4500,
                    "ks.energy": 2000, "ks.structure": 140, "ks.frame-context": 40, "ks.junk-differential": 40,
                    "oracle.selfcheck": 900},
          "thorough": {"bh.present": 3000, "bh.absent": 1000000, "wn.present": 15000, "wn.absent": 5000000,
                       "ks.bond-set": 100000, "ks.energy": 50000, "ks.structure": 3500, "ks.frame-context": 1000,
                       "ks.junk-differential": 1000, "oracle.selfcheck": 20000}}
ASSUMPTIONS = [
    "water residues are those named in the VMD list Residue.is_water documents; sidechain atoms are atoms of the 20 "
    "standard residues (and protonation variants) not named N, CA, C, O, H, HA; terminal names (OXT, H1..H3, ...) and "
    "non-standard residue names are undocumented => skipped under sidechain_only",
    "Kabsch-Sander hydrogen placement follows DESIGN C14: N + 0.1 nm * unit(C-O of the preceding residue of the same "
    "chain); the first residue has H = N; E is clamped at -9.9 kcal/mol; the NH of residue i+1 never bonds to the CO "
    "of residue i; a residue takes part only if it has N, CA, C and O",
    "under periodic boundaries the D-H...A angle is the angle between minimum-image vectors; decided only where the "
    "minimum-image triangle is unique",
    "a frame count n with n/n_frames equal to freq in float64 is 'not more than freq'",
]

DATA = os.path.join(os.environ.get("VERIF_REPO", "/repo"), "tests", "data")
if not os.path.isdir(DATA):
    DATA = "/repo/tests/data"

# (file, roles, weight)
SOURCES = {
    "2EQQ.pdb": "bh wn ks", "bpti.pdb": "bh wn ks", "1vii.pdb": "bh wn ks", "2koc.pdb": "bh wn",
    "aaqaa-wat.pdb": "bh wn ks", "ala_ala_ala.pdb": "bh wn ks", "frame0.h5": "bh wn ks", "native.pdb": "bh wn",
    "1am7_protein.pdb": "bh wn ks", "alanine-dipeptide-explicit.pdb": "bh wn", "tip3p_300K_1ATM.pdb": "bh wn",
    "GG-tip4pew.pdb": "bh wn", "1vii_sustiva_water.pdb": "bh wn ks", "2waters_baker_hubbard.pdb": "bh wn",
    "4waters.pdb": "bh wn", "issue_1611.pdb": "bh wn", "imatinib.pdb": "bh wn", "1bpi.pdb": "ks", "4OH9.pdb": "ks",
    "synthetic": "bh wn",
}
BIG_KS = {"4ZUO.pdb": "ks", "1ncw.pdb.gz": "ks"}
NCASES = {"quick": 416, "thorough": 9600}
KINDS = ["bh", "bh", "bh", "wn", "wn", "ks", "ks", "ks"]
FREQS = [0.0, 0.1, 0.5, 0.9, 1.0]
MAX_ATOMS = {"quick": 650, "thorough": 1100}


def _sources_for(kind, tier):
    s = [k for k, v in SOURCES.items() if kind in v.split()]
    if kind == "ks" and tier == "thorough":
        s += list(BIG_KS)
    return s


def gen_cases(tier, seed):
    n = NCASES[tier]
    n_ks = 0
    for i in range(n):
        rng = common.rng_for("C14", seed, i)
        # the kind rotates within every worker's share (i % n_workers) so that the heavier Kabsch-Sander cases spread
        kind = KINDS[(i + i // 16) % len(KINDS)]
        srcs = _sources_for(kind, tier)
        # half stratified (7 i + i//16 = 113 m + 7 w for i = 16 m + w: walks through every source within each worker's
        # share), half random
        src = srcs[(7 * i + i // 16) % len(srcs)] if rng.random() < 0.5 else srcs[int(rng.integers(len(srcs)))]
        c = dict(i=i, seed=common.case_seed(seed, "C14", i), kind=kind, src=src, tier=tier,
                 n_frames=int(rng.choice([1, 1, 2, 3, 4, 5, 8, 10, 10, 16, 20, 30])),
                 noise=float(rng.choice([0.0, 0.0, 0.002, 0.01, 0.02, 0.05])),
                 mode=str(rng.choice(["frames", "frames", "tie", "noisy"])),
                 cell=str(rng.choice(["none", "none", "own"] + common.CELL_KINDS)),
                 shift=int(rng.choice([0, 0, 1, 3])))
        if kind == "bh":
            c["mode"] = str(rng.choice(["frames", "tie", "tie", "noisy", "noisy"]))
            c.update(freq=float(rng.choice(FREQS)) if rng.random() < 0.85 else float(np.round(rng.uniform(0, 1), 3)),
                     dcut=float(rng.choice([0.25, 0.25, 0.2, 0.3, 0.35, 0.22])),
                     acut=float(rng.choice([120, 120, 90, 100, 135, 150, 160, 0, 110.5])))
            if c["mode"] == "tie":
                # frame counts on which k/n == freq has a solution (0.1 and 0.9 need multiples of 10, 0.5 even counts)
                c["n_frames"] = int(rng.choice([10, 20, 30] if c["freq"] in (0.1, 0.9) else [2, 4, 8, 10, 16, 20, 30]))
        if kind in ("bh", "wn"):
            c.update(exclude_water=bool(rng.random() < 0.5), sidechain_only=bool(rng.random() < 0.3),
                     periodic=bool(rng.random() < 0.7))
        if kind == "ks":
            c["cell"] = "none" if rng.random() < 0.8 else c["cell"]
        yield c
        # a thin slice of the Kabsch-Sander cases also rides in the sanitizer build (negative-index reads = leads)
        if kind == "ks":
            n_ks += 1
        if kind == "ks" and n_ks % (8 if tier == "quick" else 16) == 1:
            d = dict(c)
            d["group"] = "asan"
            yield d
    yield from _wide_cases(tier, seed)


# ----- widening round: input classes the stream above never produces (ids >= 10**6; the stream above is unchanged) -----
W_SOURCES = {
    "bh": ["2EQQ.pdb", "ala_ala_ala.pdb", "frame0.h5", "native.pdb", "4waters.pdb", "2waters_baker_hubbard.pdb", "synthetic",
           "1vii.pdb", "bpti.pdb", "1bpi.pdb", "4OH9.pdb", "imatinib.pdb", "aaqaa-wat.pdb", "issue_1611.pdb", "2koc.pdb",
           "alanine-dipeptide-explicit.pdb", "GG-tip4pew.pdb", "tip3p_300K_1ATM.pdb"],
    "ks": ["2EQQ.pdb", "ala_ala_ala.pdb", "frame0.h5", "native.pdb", "1vii.pdb", "bpti.pdb", "1bpi.pdb", "4OH9.pdb",
           "aaqaa-wat.pdb", "alanine-dipeptide-explicit.pdb", "GG-tip4pew.pdb", "tip3p_300K_1ATM.pdb", "2koc.pdb",
           "imatinib.pdb", "1am7_protein.pdb", "1vii_sustiva_water.pdb"],
}
W_SOURCES["wn"] = W_SOURCES["bh"]
W_LONG = {"bh": ["2EQQ.pdb", "ala_ala_ala.pdb", "frame0.h5", "4waters.pdb", "synthetic", "1vii.pdb", "issue_1611.pdb"],
          "ks": ["2EQQ.pdb", "ala_ala_ala.pdb", "frame0.h5", "1vii.pdb", "1bpi.pdb", "aaqaa-wat.pdb"]}
W_LONG["wn"] = W_LONG["bh"]


def _wide_cases(tier, seed):
    n = 360 if tier == "quick" else 4000
    for j in range(n):
        rng = common.rng_for("C14wide", seed, j)
        kind = KINDS[(j + j // 8) % len(KINDS)]
        long_ = bool(j % 5 == 0)
        srcs = (W_LONG if long_ else W_SOURCES)[kind]
        src = srcs[(3 * j + j // 8) % len(srcs)] if rng.random() < 0.6 else srcs[int(rng.integers(len(srcs)))]
        nf = int(rng.choice([64, 100, 101, 257])) if long_ else int(rng.choice([1, 1, 2, 3, 5, 8, 10, 20]))
        w = dict(perm=bool(rng.random() < 0.4), strip=str(rng.choice(["none", "none", "none", "none", "H", "tiny", "tiny"])),
                 pf=str(rng.choice(["default", "one-field", "class-change"])), positional=bool(rng.random() < 0.3),
                 argtypes=str(rng.choice(["python", "python", "numpy"])), late_k=int(rng.integers(1, 4)),
                 derived=str(rng.choice(["none", "none", "slice", "slice-nocopy", "stride", "stride-nocopy", "fancy", "join", "xyz64", "vectors"])))
        c = dict(i=10 ** 6 + j, seed=common.case_seed(seed, "C14w", j), kind=kind, src=src, tier=tier, n_frames=nf,
                 noise=float(rng.choice([0.0, 0.0, 0.002, 0.01])),
                 mode="late" if long_ else str(rng.choice(["frames", "tie", "noisy"])),
                 cell=str(rng.choice(["none", "own"] + common.CELL_KINDS)), shift=int(rng.choice([0, 0, 1, 3])), w=w)
        if kind == "bh":
            k = w["late_k"]
            if long_:
                freq = float(rng.choice([0.0, (k - 1) / nf, k / nf, k / nf, (k + 1) / nf, 0.5]))
            else:
                freq = float(rng.choice(FREQS)) if rng.random() < 0.85 else float(np.round(rng.uniform(0, 1), 3))
            c.update(freq=freq, dcut=float(rng.choice([0.25, 0.25, 0.2, 0.3, 0.35])),
                     acut=float(rng.choice([120, 120, 90, 135, 150, 0, 110.5])))
            if c["mode"] == "tie":
                c["n_frames"] = int(rng.choice([10, 20, 30] if freq in (0.1, 0.9) else [2, 4, 8, 10, 16, 20, 30]))
        if kind in ("bh", "wn"):
            c.update(exclude_water=bool(rng.random() < 0.5), sidechain_only=bool(rng.random() < 0.3),
                     periodic=bool(rng.random() < 0.7))
        if kind == "ks":
            c["cell"] = "none" if rng.random() < 0.6 else c["cell"]
        if kind in ("bh", "wn") and not long_ and j % 20 == 3:
            # thousands of atoms, no spatial subset: whole solvated systems (solvent excluded where it alone would give
            # > 10^6 candidate triplets) and the whole 2504-atom protein
            c.update(src=W_BIG[(j // 20) % len(W_BIG)], n_frames=int(rng.integers(1, 3)), mode="frames")
            c["w"] = dict(w, big=True, strip="none")
            if c["src"] in ("1vii_sustiva_water.pdb", "GG-tip4pew.pdb"):
                c["exclude_water"] = True
        yield c


W_BIG = ["1am7_protein.pdb", "1vii_sustiva_water.pdb", "alanine-dipeptide-explicit.pdb", "GG-tip4pew.pdb", "bpti.pdb"]


# ------------------------------------------------------------------------------------------------ sources / specs
_CACHE = {}


def _load(src):
    if src not in _CACHE:
        import mdtraj as md
        t = md.load(os.path.join(DATA, src))
        top = t.topology
        atoms = [(a.name, a.element, a.residue.index) for a in top.atoms]
        residues = [(r.name, r.chain.index) for r in top.residues]
        bonds = [(b[0].index, b[1].index) for b in top.bonds]
        cell = None
        if t.unitcell_lengths is not None:
            cell = (t.unitcell_lengths.astype(np.float64), t.unitcell_angles.astype(np.float64))
        _CACHE[src] = dict(xyz=t.xyz.astype(np.float64), atoms=atoms, residues=residues, bonds=bonds, cell=cell)
    return _CACHE[src]


class Spec:
    """Editable description of a topology + coordinates; turned into md objects through the public API only."""

    def __init__(self, atoms, residues, bonds, xyz):
        self.atoms = list(atoms)  # (name, element, residue index)
        self.residues = list(residues)  # (name, chain index)
        self.bonds = list(bonds)
        self.xyz = np.array(xyz, dtype=np.float64)  # (nf, na, 3)

    def keep_atoms(self, keep):
        keep = np.asarray(sorted(set(int(k) for k in keep)), dtype=np.int64)
        remap = -np.ones(len(self.atoms), dtype=np.int64)
        remap[keep] = np.arange(len(keep))
        used_res = sorted(set(self.atoms[k][2] for k in keep))
        rmap = {r: n for n, r in enumerate(used_res)}
        self.atoms = [(self.atoms[k][0], self.atoms[k][1], rmap[self.atoms[k][2]]) for k in keep]
        self.residues = [self.residues[r] for r in used_res]
        self.bonds = [(int(remap[a]), int(remap[b])) for a, b in self.bonds if remap[a] >= 0 and remap[b] >= 0]
        self.xyz = self.xyz[:, keep]

    def insert_residue(self, pos, name, chain, atoms, coords):
        """insert a residue before residue index `pos` (pos == n_residues appends); atoms: [(name, element)];
        coords: (nf, len(atoms), 3)"""
        first_atom = len(self.atoms)
        for k, a in enumerate(self.atoms):
            if a[2] >= pos:
                first_atom = k
                break
        na = len(atoms)
        self.atoms = ([a for a in self.atoms[:first_atom]] + [(nm, el, pos) for nm, el in atoms] +
                      [(a[0], a[1], a[2] + 1) for a in self.atoms[first_atom:]])
        self.residues = self.residues[:pos] + [(name, chain)] + self.residues[pos:]
        self.bonds = [(a + na if a >= first_atom else a, b + na if b >= first_atom else b) for a, b in self.bonds]
        self.xyz = np.concatenate([self.xyz[:, :first_atom], coords, self.xyz[:, first_atom:]], axis=1)
        return first_atom

    def permute_within_residues(self, rng, frac):
        """widened class: the atoms of a fraction of the residues are listed in another order (hydrogens before their
        heavy atoms, O before N, ...); residues stay contiguous blocks of the atom list"""
        na = len(self.atoms)
        by_res = {}
        for k, a in enumerate(self.atoms):
            by_res.setdefault(a[2], []).append(k)
        order = []
        for r in sorted(by_res):
            blk = by_res[r]
            if rng.random() < frac:
                blk = [blk[j] for j in (rng.permutation(len(blk)) if rng.random() < 0.7 else np.arange(len(blk))[::-1])]
            order.extend(blk)
        order = np.asarray(order, dtype=np.int64)
        new_of = np.empty(na, dtype=np.int64)
        new_of[order] = np.arange(na)
        self.atoms = [self.atoms[k] for k in order]
        self.bonds = [(int(new_of[a]), int(new_of[b])) for a, b in self.bonds]
        self.xyz = self.xyz[:, order]

    def build(self):
        import mdtraj as md
        top = md.Topology()
        chains = {}
        last_chain = None
        res_objs = []
        # chains must be contiguous runs: a new chain object whenever the chain label changes
        for name, ch in self.residues:
            if ch != last_chain:
                cobj = top.add_chain()
                last_chain = ch
            res_objs.append(top.add_residue(name, cobj))
        atom_objs = [top.add_atom(nm, el, res_objs[r]) for nm, el, r in self.atoms]
        for a, b in self.bonds:
            top.add_bond(atom_objs[a], atom_objs[b])
        return top


def _element(sym):
    from mdtraj.core import element as elem
    return elem.get_by_symbol(sym)


def _synthetic(rng, nf):
    """small hostile cluster: random N/O/H/C/S atoms, H bonded to near heavy atoms of any element, odd bonds, residues of
    mixed kinds with backbone-like and terminal atom names"""
    na = int(rng.integers(4, 60))
    side = (na / 60.0) ** (1 / 3) * 1.1 + 0.3
    pts = []
    while len(pts) < na:
        p = rng.uniform(0, side, 3)
        if all(np.linalg.norm(p - q) > 0.09 for q in pts):
            pts.append(p)
    pts = np.array(pts)
    syms = [str(rng.choice(["H", "H", "H", "N", "O", "O", "C", "S"])) for _ in range(na)]
    names_by = {"H": ["H", "HA", "HZ1", "HW1", "H1", "HG", "HO"], "N": ["N", "NZ", "N1", "NE"], "O": ["O", "OG", "OW", "OXT", "O1"],
                "C": ["C", "CA", "CB", "C1"], "S": ["SG", "S1"]}
    resnames = ["ALA", "SER", "LYS", "HOH", "WAT", "LIG", "TIP3", "NA", "GLY", "SOL", "ACE"]
    residues, atoms = [], []
    i = 0
    chain = 0
    while i < na:
        k = int(rng.integers(1, 6))
        if rng.random() < 0.2:
            chain += 1
        residues.append((str(rng.choice(resnames)), chain))
        for _ in range(min(k, na - i)):
            atoms.append((str(rng.choice(names_by[syms[i]])), _element(syms[i]), len(residues) - 1))
            i += 1
    bonds = set()
    heavy = [k for k in range(na) if syms[k] != "H"]
    for h in range(na):
        if syms[h] != "H" or not heavy:
            continue
        d = np.linalg.norm(pts[heavy] - pts[h], axis=1)
        order = np.argsort(d)
        if rng.random() < 0.85:
            bonds.add((heavy[order[0]], h) if rng.random() < 0.5 else (h, heavy[order[0]]))
        if len(order) > 1 and rng.random() < 0.15:
            bonds.add((heavy[order[1]], h))
    for _ in range(int(rng.integers(0, na))):
        a, b = [int(v) for v in rng.integers(0, na, 2)]
        if a != b and (a, b) not in bonds and (b, a) not in bonds:
            bonds.add((a, b))
    if not bonds:
        bonds.add((0, 1))
    xyz = np.repeat(pts[None], nf, axis=0)
    return Spec(atoms, residues, sorted(bonds), xyz)


def _select_frames(rng, case, base_xyz):
    """(nf, na, 3) float64 according to the frame mode"""
    nf = case["n_frames"]
    nb = base_xyz.shape[0]
    mode = case["mode"]
    if mode == "tie":
        f0 = base_xyz[int(rng.integers(nb))]
        k = int(rng.integers(0, nf + 1))
        if "freq" in case and rng.random() < 0.7:
            # aim at the tie k/nf == freq when it exists
            kk = case["freq"] * nf
            if abs(kk - round(kk)) < 1e-9:
                k = int(round(kk)) + int(rng.choice([0, 0, 1, -1]))
                k = min(max(k, 0), nf)
        centre = f0.mean(axis=0)
        blown = centre + 3.0 * (f0 - centre)
        frames = [f0] * k + [blown] * (nf - k)
        order = rng.permutation(nf)
        return np.array(frames)[order], dict(tie_k=k)
    if mode == "late":
        # widened class: a long trajectory in which the bonds of a frame exist only in the LAST k frames (all earlier
        # frames are the structure blown up by a factor 3); with a real trajectory as source the last k frames are
        # consecutive simulation frames
        k = int(case["w"]["late_k"])
        start = int(rng.integers(0, max(1, nb - k + 1)))
        last = base_xyz[(start + np.arange(k)) % nb]
        f0 = last[0]
        centre = f0.mean(axis=0)
        blown = centre + 3.0 * (f0 - centre)
        return np.concatenate([np.repeat(blown[None], nf - k, axis=0), last], axis=0), (dict(tie_k=k) if nb == 1 else {})
    if nb >= nf and mode == "frames":
        idx = rng.choice(nb, nf, replace=False)
        return base_xyz[idx], {}
    idx = rng.integers(0, nb, nf)
    out = base_xyz[idx].copy()
    if mode == "noisy" or case["noise"] > 0:
        # per-frame noise amplitude varies, so that presence frequencies spread between 0 and 1
        amp = case["noise"] * rng.uniform(0, 1, nf) if mode == "noisy" else np.full(nf, case["noise"])
        out = out + rng.normal(size=out.shape) * amp[:, None, None]
    return out, {}


def _subset(rng, spec, limit):
    na = len(spec.atoms)
    if na <= limit:
        return
    x0 = spec.xyz[0]
    c = x0[int(rng.integers(na))]
    nres = len(spec.residues)
    first = {}
    for k, a in enumerate(spec.atoms):
        first.setdefault(a[2], k)
    rpos = np.array([x0[first[r]] for r in range(nres)])
    order = np.argsort(np.linalg.norm(rpos - c, axis=1))
    counts = np.bincount([a[2] for a in spec.atoms], minlength=nres)
    keep_res, tot = set(), 0
    for r in order:
        if tot + counts[r] > limit:
            break
        keep_res.add(int(r))
        tot += counts[r]
    spec.keep_atoms([k for k, a in enumerate(spec.atoms) if a[2] in keep_res])


def _edit_bh(rng, spec, ctx):
    """topology edits relevant to the donor / acceptor / filter logic"""
    waters = [r for r, (nm, ch) in enumerate(spec.residues) if nm in ref.WATER_NAMES]
    if waters and rng.random() < 0.6:
        for r in rng.choice(waters, min(len(waters), int(rng.integers(1, 6))), replace=False):
            new = str(rng.choice(["WAT", "SOL", "TIP3", "HOH", "LIG", "LIG", "H2O", "TIP"]))
            spec.residues[r] = (new, spec.residues[r][1])
            ctx.observe("edit", "water-renamed-" + ("nonwater" if new == "LIG" else "water"))
    sym = [a[1].symbol for a in spec.atoms]
    xh = [k for k, (a, b) in enumerate(spec.bonds) if {sym[a], sym[b]} in ({"N", "H"}, {"O", "H"})]
    if xh and rng.random() < 0.4:
        drop = set(int(v) for v in rng.choice(xh, min(len(xh), int(rng.integers(1, 4))), replace=False))
        spec.bonds = [b for k, b in enumerate(spec.bonds) if k not in drop]
        ctx.observe("edit", "X-H-bond-dropped")
    if spec.bonds and rng.random() < 0.5:
        flip = rng.random(len(spec.bonds)) < 0.3
        spec.bonds = [(b, a) if f else (a, b) for (a, b), f in zip(spec.bonds, flip)]
        ctx.observe("edit", "bond-order-reversed")


HETERO = {
    "water": ("HOH", [("O", "O"), ("H1", "H"), ("H2", "H")]),
    "ion": ("NA", [("NA", "Na")]),
    "lig-C": ("LIG", [("C", "C"), ("C1", "C"), ("N1", "N")]),
    "lig-CO": ("LIG", [("C", "C"), ("O", "O"), ("C2", "C")]),
    "lig-O": ("LIG", [("O", "O"), ("C5", "C")]),
    "water-TIP3": ("TIP3", [("OH2", "O"), ("H1", "H"), ("H2", "H")]),
}


W_HETERO = dict(HETERO, **{
    "ion-CA": ("CA", [("CA", "Ca")]),                                   # calcium: an atom NAMED CA in a one-atom residue
    "cap-ACE": ("ACE", [("CH3", "C"), ("C", "C"), ("O", "O")]),         # has C and O, lacks N and CA
    "cap-NME": ("NME", [("N", "N"), ("CH3", "C")]),                      # has N only
    "cap-NH2": ("NH2", [("N", "N"), ("HN1", "H"), ("HN2", "H")]),
    "lig-NCACO": ("LIG", [("N", "N"), ("CA", "C"), ("C", "C"), ("O", "O")]),   # a non-protein residue with all four names
})
NONSTANDARD = ["DAL", "MSE", "HYP", "CYX", "HID", "SEP", "UNK"]


def _edit_ks(rng, spec, ctx, wide=False):
    nres = len(spec.residues)
    nf = spec.xyz.shape[0]
    # delete backbone atoms of a few residues
    if rng.random() < 0.35:
        kill = set()
        for _ in range(int(rng.integers(1, 4))):
            r = int(rng.integers(nres))
            nm = str(rng.choice(["N", "CA", "C", "O"]))
            for k, a in enumerate(spec.atoms):
                if a[2] == r and a[0] == nm:
                    kill.add(k)
                    ctx.observe("edit", "backbone-atom-deleted-" + nm)
        if kill and len(kill) < len(spec.atoms) - 4:
            na = len(spec.atoms)
            # deleting every atom of a residue would renumber residues: keep_atoms handles it
            spec.keep_atoms([k for k in range(na) if k not in kill])
            nres = len(spec.residues)
    if rng.random() < 0.25:
        # compressed copy: more CO groups compete for each NH (best-two bookkeeping with three and more candidates)
        sc = float(rng.uniform(0.55, 0.9))
        c0 = spec.xyz.mean(axis=1, keepdims=True)
        spec.xyz = c0 + sc * (spec.xyz - c0)
        ctx.observe("edit", "compressed")
    if rng.random() < 0.3:
        # CA atoms pulled away from their residue: bonded CO/NH groups whose CA-CA distance straddles the 0.9 nm prefilter
        cas = [k for k, a in enumerate(spec.atoms) if a[0] == "CA"]
        if cas:
            for k in rng.choice(cas, max(1, int(len(cas) * rng.uniform(0.1, 0.4))), replace=False):
                v = rng.normal(size=3)
                spec.xyz[:, k] += v / np.linalg.norm(v) * rng.uniform(0.2, 0.7)
            ctx.observe("edit", "CA-displaced")
    if rng.random() < 0.4:
        for _ in range(int(rng.integers(1, 4))):
            r = int(rng.integers(nres))
            nm = spec.residues[r][0]
            spec.residues[r] = ("ALA" if nm == "PRO" else "PRO", spec.residues[r][1])
            ctx.observe("edit", "renamed-from-PRO" if nm == "PRO" else "renamed-to-PRO")
    if wide and rng.random() < 0.4:
        # widened: non-standard residue names (D-amino acids, modified residues): only the name PRO is special
        for _ in range(int(rng.integers(1, 5))):
            r = int(rng.integers(nres))
            if spec.residues[r][0] != "PRO":
                spec.residues[r] = (str(rng.choice(NONSTANDARD)), spec.residues[r][1])
        ctx.observe("edit", "renamed-to-nonstandard")
    if rng.random() < 0.35 and nres > 3:
        # split chains at random residues
        ncut = int(rng.integers(1, 3))
        if wide and rng.random() < 0.4:
            ncut = int(rng.integers(3, 9))  # widened: many short chains
            ctx.observe("edit", "many-chain-cuts")
        cuts = sorted(set(int(v) for v in rng.integers(1, nres, ncut)))
        lab = 0
        newres = []
        base = [ch for _, ch in spec.residues]
        for r, (nm, ch) in enumerate(spec.residues):
            if r in cuts or (r > 0 and base[r] != base[r - 1]):
                lab += 1
            newres.append((nm, lab))
        spec.residues = newres
        ctx.observe("edit", "chain-split")
    if rng.random() < 0.6:
        for _ in range(int(rng.integers(1, 4))):
            nres = len(spec.residues)
            kind = str(rng.choice(list(W_HETERO if wide else HETERO)))
            where = str(rng.choice(["prepend", "prepend", "between", "between-chains", "append"]))
            if where == "prepend":
                pos = 0
            elif where == "append":
                pos = nres
            elif where == "between":
                pos = int(rng.integers(1, nres)) if nres > 1 else 0
            else:
                chs = [ch for _, ch in spec.residues]
                starts = [r for r in range(1, nres) if chs[r] != chs[r - 1]]
                pos = int(rng.choice(starts)) if starts else 0
            own_chain = rng.random() < 0.5 or where == "between-chains"
            if pos < nres and not own_chain:
                chain = spec.residues[pos][1]
            elif pos > 0 and not own_chain:
                chain = spec.residues[pos - 1][1]
            else:
                chain = max(ch for _, ch in spec.residues) + 1 + int(rng.integers(100))
            name, ats = W_HETERO[kind]
            anchor = spec.xyz[:, int(rng.integers(len(spec.atoms)))]  # (nf,3)
            off = rng.normal(size=3)
            off = off / np.linalg.norm(off) * rng.uniform(0.25, 0.6)
            coords = anchor[:, None, :] + off + rng.normal(scale=0.06, size=(nf, len(ats), 3))
            # if the new residue sits inside a chain, the chain labels stay contiguous because Spec.build opens a new
            # chain object at every label change
            spec.insert_residue(pos, name, chain, [(nm, _element(sy)) for nm, sy in ats], coords)
            ctx.observe("edit", f"hetero-{kind}-{where}")


def _cell_for(rng, case, spec, src_cell, need_half):
    """Returns (lengths(nf,3), angles(nf,3)) or None.  need_half: the cell must satisfy w_min/2 > need_half (mostly)."""
    kind = case["cell"]
    nf = spec.xyz.shape[0]
    if kind == "none":
        return None
    if kind == "own":
        if src_cell is None:
            return None
        L, A = src_cell
        idx = rng.integers(0, len(L), nf)
        return L[idx], A[idx]
    small = rng.random() < 0.06  # a few cells below the domain, to see the skips
    for _ in range(200):
        L, A = common.random_cell(rng, kind, lo=1.2 if small else 2.2, hi=2.0 if small else 6.0)
        B = common.cell_vectors64(L, A)
        w = common.cell_widths(B).min()
        if small or w / 2 > need_half + 0.05:
            break
    pf = (case.get("w") or {}).get("pf", "default")
    if pf == "one-field":
        # widened class: exactly one of the six cell parameters changes along the trajectory
        field = int(rng.integers(0, 6))
        Ls, As = np.tile(L, (nf, 1)), np.tile(A, (nf, 1))
        for f in range(nf):
            if field < 3:
                Ls[f, field] = L[field] * rng.uniform(1.0, 1.25)
            else:
                for _ in range(50):
                    a = A.copy()
                    a[field - 3] = A[field - 3] + rng.uniform(-5, 5)
                    if common.cell_valid(a, 0.1) and common.cell_widths(common.cell_vectors64(L, a)).min() / 2 > need_half + 0.05:
                        As[f] = a
                        break
        return Ls, As
    if pf == "class-change":
        # widened class: the cell class changes along the trajectory
        Ls, As = [L], [A]
        for f in range(1, nf):
            for _ in range(200):
                L2, A2 = common.random_cell(rng, str(rng.choice(common.CELL_KINDS)), lo=2.2, hi=6.0)
                if common.cell_widths(common.cell_vectors64(L2, A2)).min() / 2 > need_half + 0.05:
                    break
            Ls.append(L2)
            As.append(A2)
        return np.array(Ls), np.array(As)
    per_frame = rng.random() < 0.25
    if per_frame:
        scale = rng.uniform(0.97, 1.05, nf)
        return np.array([L * s for s in scale]), np.tile(A, (nf, 1))
    return np.tile(L, (nf, 1)), np.tile(A, (nf, 1))


def _make(case, ctx, kind):
    """-> (traj, xyz64 as the code sees it, B per frame or None, tables, info)"""
    import mdtraj as md
    rng = common.rng_for("C14case", case["seed"])
    nf = case["n_frames"]
    src_cell = None
    if case["src"] == "synthetic":
        spec = _synthetic(rng, 1)
        frames, info = _select_frames(rng, case, spec.xyz)
        spec.xyz = frames
    else:
        base = _load(case["src"])
        src_cell = base["cell"]
        frames, info = _select_frames(rng, case, base["xyz"])
        spec = Spec(base["atoms"], base["residues"], base["bonds"], frames)
        limit = MAX_ATOMS[case.get("tier", "quick")]
        if kind == "ks":
            limit = 100000 if nf <= 30 else 1500
        elif (case.get("w") or {}).get("big"):
            limit = 100000
        elif nf > 30:
            limit = 160
        elif nf > 10:
            limit = limit // 2
        _subset(rng, spec, limit)
    w = case.get("w") or {}
    if w.get("strip") == "H":
        # widened class: no hydrogen anywhere (crystal structures): no donor exists
        keep = [k for k, a in enumerate(spec.atoms) if a[1].symbol != "H"]
        if len(keep) >= 2:
            spec.keep_atoms(keep)
        ctx.observe("edit", "all-hydrogens-removed")
    elif w.get("strip") == "tiny":
        # widened class: one to three consecutive residues
        nres = len(spec.residues)
        k = int(rng.integers(1, 4))
        r0 = int(rng.integers(0, max(1, nres - k + 1)))
        keep = [i for i, a in enumerate(spec.atoms) if r0 <= a[2] < r0 + k]
        if len(keep) >= 2:
            spec.keep_atoms(keep)
        ctx.observe("edit", f"cut-down-to-{min(k, nres)}-residues")
    if kind == "ks":
        _edit_ks(rng, spec, ctx, wide=bool(w))
    else:
        _edit_bh(rng, spec, ctx)
    if w.get("perm"):
        spec.permute_within_residues(rng, float(rng.choice([0.2, 0.6, 1.0])))
        ctx.observe("edit", "atoms-reordered-within-residues")
    need_half = 0.6
    cell = _cell_for(rng, case, spec, src_cell, need_half)
    xyz = spec.xyz
    if cell is not None:
        L, A = cell
        Bs = np.array([common.cell_vectors64(L[f], A[f]) for f in range(nf)])
        if case["cell"] != "own" or case["shift"]:
            for f in range(nf):
                xyz[f] = xyz[f] + rng.uniform(-1, 2, 3) @ Bs[f]
        if case["shift"]:
            K = case["shift"]
            sel = rng.random(xyz.shape[1]) < rng.choice([0.05, 0.3, 1.0])
            for f in range(nf):
                sh = rng.integers(-K, K + 1, (xyz.shape[1], 3)).astype(np.float64)
                sh[~sel] = 0
                xyz[f] = xyz[f] + sh @ Bs[f]
    top = spec.build()
    if cell is not None:
        t = md.Trajectory(xyz.astype(np.float32), top, unitcell_lengths=np.asarray(L, np.float32),
                          unitcell_angles=np.asarray(A, np.float32))
        B = t.unitcell_vectors.astype(np.float64)  # the lattice the trajectory reports (C17 judges it)
    else:
        t = md.Trajectory(xyz.astype(np.float32), top)
        B = None
    if w.get("derived", "none") != "none":
        # widened class: the trajectory is obtained the way users obtain one (cut out of / strided from a longer one,
        # with or without copying, joined from pieces, float64 coordinates assigned, cell assigned as box vectors);
        # the reference reads coordinates and lattice from the object that is handed to mdtraj
        t = common.derive_traj(t, w["derived"], common.rng_for("C14derive", case["seed"]))
        if B is not None:
            B = t.unitcell_vectors.astype(np.float64)
        ctx.observe("trajectory obtained by", w["derived"])
    x64 = t.xyz.astype(np.float64)
    tab = ref.Tables(top)
    info["M"] = float(np.abs(x64).max()) if x64.size else 0.0
    return t, x64, B, tab, info, rng


# ------------------------------------------------------------------------------------------------ BH / WN
def _why_not_candidate(tab, row, exclude_water, sidechain_only):
    d, h, a = [int(v) for v in row]
    n = tab.n_atoms
    if not (0 <= d < n and 0 <= h < n and 0 <= a < n):
        return "index-out-of-range"
    sym = tab.symbol
    if d == a:
        return "donor-is-acceptor"
    if sym[h] != "H" or sym[d] not in ("N", "O"):
        return "donor-pair-not-N/O-H"
    bonded = any((x == d and y == h) or (x == h and y == d) for x, y in tab.bonds)
    if not bonded:
        return "donor-pair-not-bonded"
    if sym[a] not in ("N", "O"):
        return "acceptor-not-N/O"
    if exclude_water and (tab.is_water_atom[d] or tab.is_water_atom[h] or tab.is_water_atom[a]):
        return "water-not-excluded"
    if sidechain_only:
        return "non-sidechain-atom"
    return "unknown"


def _rows_ok(arr, ctx, mon, fn):
    ok = isinstance(arr, np.ndarray) and arr.ndim == 2 and arr.shape[1] == 3 and np.issubdtype(arr.dtype, np.integer)
    if not ok and isinstance(arr, np.ndarray) and arr.size == 0 and arr.ndim == 2 and arr.shape[1] == 3:
        ok = True  # an empty result may come back with any dtype
    if not ok:
        ctx.violation(mon, f"{fn}:result-not-(n,3)-integer-array",
                      f"{fn} returned {type(arr).__name__} shape {getattr(arr, 'shape', None)} dtype {getattr(arr, 'dtype', None)}")
        return False
    if len(arr) and len(np.unique(arr, axis=0)) != len(arr):
        ctx.violation(mon, f"{fn}:duplicate-rows", f"{fn} reports a triplet more than once")
        return False
    ctx.ok(mon)
    return True


def _compare_sets(ctx, fn, tag, reported, trip, decision, undocumented, cand_index, tab, case, extra):
    """reported: (n,3) int array; decision: +1/-1/0 per candidate triplet"""
    mon_p, mon_a, mon_c = f"{tag}.present", f"{tag}.absent", f"{tag}.reported-are-candidates"
    rep_idx = []
    for row in reported:
        k = cand_index.get((int(row[0]), int(row[1]), int(row[2])))
        if k is None:
            why = _why_not_candidate(tab, row, case["exclude_water"], case["sidechain_only"])
            if case["sidechain_only"] and why == "non-sidechain-atom":
                # could be an atom whose status is undocumented and that the reference left out: only certain
                # backbone / water atoms are refutations
                sc = ref.sidechain_class(tab)
                if min(sc[int(row[0])], sc[int(row[1])], sc[int(row[2])]) >= 0:
                    ctx.skip(mon_c, "sidechain status undocumented")
                    continue
            ctx.violation(mon_c, f"{fn}:reported-non-candidate:{why}",
                          f"{fn} reports ({row[0]},{row[1]},{row[2]}) which is not a documented candidate: {why}",
                          atoms=[str(tab.name[int(v)]) + "/" + str(tab.resname[tab.resindex[int(v)]]) for v in row], **extra)
        else:
            rep_idx.append(k)
            ctx.ok(mon_c)
    rep = np.zeros(len(trip), bool)
    rep[rep_idx] = True
    decided = (decision != 0) & ~undocumented
    miss = decided & (decision > 0) & ~rep
    spur = decided & (decision < 0) & rep
    ctx.ok(mon_p, int((decided & (decision > 0) & rep).sum()))
    ctx.ok(mon_a, int((decided & (decision < 0) & ~rep).sum()))
    nz = int((decision == 0).sum())
    if nz:
        ctx.skip(tag, "inside an ambiguity band / outside the unique-triangle domain", nz)
    nu = int((undocumented & (decision != 0)).sum())
    if nu:
        ctx.skip(tag, "sidechain status of an atom undocumented", nu)
    return miss, spur


def _run_bh(case, ctx):
    import mdtraj as md
    t, x64, B, tab, info, rng = _make(case, ctx, "bh")
    periodic = case["periodic"]
    Bs = B if (periodic and B is not None) else None
    ctx.observe("bh.cell", (case["cell"] if B is not None else "none") + ("" if periodic else "/periodic=False"))
    ctx.observe("bh.freq", case["freq"])
    ctx.observe("bh.atoms", "<=1100" if t.n_atoms <= 1100 else ">1100")
    ctx.observe("frames", t.n_frames)
    ctx.observe("src", case["src"])
    kw = dict(freq=case["freq"], exclude_water=case["exclude_water"], periodic=periodic,
              sidechain_only=case["sidechain_only"], distance_cutoff=case["dcut"], angle_cutoff=case["acut"])
    trip, undoc = ref.bond_triplets(tab, case["exclude_water"], case["sidechain_only"])
    if len(tab.bonds) == 0:
        ctx.skip("bh", "topology without bonds (documented refusal)")
        return
    w = case.get("w") or {}
    if w:
        ctx.observe("bh.arguments", ("positional" if w["positional"] else "keyword") + "/" + w["argtypes"])
        ctx.observe("bh.cell-along-trajectory", w["pf"] if B is not None else "no cell")
    ckw = dict(kw)
    if w.get("argtypes") == "numpy":
        # widened: numpy scalars where python scalars are documented (they are what array-driven scans pass)
        ckw.update(freq=np.float64(kw["freq"]), exclude_water=np.bool_(kw["exclude_water"]), periodic=np.bool_(kw["periodic"]),
                   sidechain_only=np.bool_(kw["sidechain_only"]), distance_cutoff=np.float64(kw["distance_cutoff"]),
                   angle_cutoff=np.float64(kw["angle_cutoff"]))
        if float(kw["freq"]) in (0.0, 1.0):
            ckw["freq"] = int(kw["freq"])
    if w.get("positional"):
        out = md.baker_hubbard(t, ckw["freq"], ckw["exclude_water"], ckw["periodic"], ckw["sidechain_only"], ckw["distance_cutoff"],
                               ckw["angle_cutoff"])
    else:
        out = md.baker_hubbard(t, **ckw)
    if not _rows_ok(out, ctx, "bh.structure", "baker_hubbard"):
        return
    state, n_angle = ref.baker_hubbard_frames(x64, Bs, trip, case["dcut"], case["acut"], info["M"])
    dec, lo, hi = ref.frequency_decision(state, case["freq"])
    ctx.observe("bh.angle-evaluations", None, n_angle)
    ctx.observe("bh.filters", f"exclude_water={case['exclude_water']},sidechain_only={case['sidechain_only']}")
    cand_index = {(int(a), int(b), int(c)): k for k, (a, b, c) in enumerate(trip)}
    extra = dict(options=kw)
    miss, spur = _compare_sets(ctx, "baker_hubbard", "bh", out, trip, dec, undoc, cand_index, tab, case, extra)
    nf = t.n_frames
    per = "periodic" if Bs is not None else "plain"
    for which, mask in (("missing", miss), ("spurious", spur)):
        for k in np.where(mask)[0][:3]:
            n = int(lo[k])
            tie = abs(n / nf - case["freq"]) <= 4e-16
            ctx.violation("bh.present" if which == "missing" else "bh.absent",
                          f"baker_hubbard:{which}[{per}]" + (":freq-tie" if tie else ""),
                          f"baker_hubbard {which} triplet {tuple(int(v) for v in trip[k])}: criterion met in {n}..{int(hi[k])} of "
                          f"{nf} frames, freq={case['freq']}", options=kw, tie_k=info.get("tie_k"))
    if info.get("tie_k") is not None:
        ctx.observe("bh.tie", f"k/n {'==' if abs(info['tie_k'] / nf - case['freq']) < 1e-12 else '!='} freq")
    _selfcheck(ctx, rng, x64, Bs, trip)
    if w:
        _history_differential(case, ctx, t, rng, "bh", lambda tr: md.baker_hubbard(tr, **kw), _same_rows)


def _selfcheck(ctx, rng, x64, Bs, trip):
    if Bs is None or len(trip) == 0:
        return
    f = int(rng.integers(len(x64)))
    sub = trip[rng.integers(0, len(trip), min(len(trip), 200))]
    v, d, ex = ref.pair_vectors(x64[f], sub[:, 1], sub[:, 2], Bs[f])
    v2, d2 = geom.min_image(v, Bs[f])
    bad = ex & (np.abs(d - d2) > 1e-9)
    if bad.any():
        ctx.violation("oracle.selfcheck", "oracle:rounded-image-differs-from-image-search",
                      f"rounded image {d[bad][0]:.9g} vs image search {d2[bad][0]:.9g} below w_min/2")
    ctx.ok("oracle.selfcheck", int((ex & ~bad).sum()))


def _run_wn(case, ctx):
    import mdtraj as md
    t, x64, B, tab, info, rng = _make(case, ctx, "wn")
    periodic = case["periodic"]
    Bs = B if (periodic and B is not None) else None
    ctx.observe("wn.cell", (case["cell"] if B is not None else "none") + ("" if periodic else "/periodic=False"))
    ctx.observe("wn.atoms", "<=1100" if t.n_atoms <= 1100 else ">1100")
    ctx.observe("frames", t.n_frames)
    ctx.observe("src", case["src"])
    kw = dict(exclude_water=case["exclude_water"], periodic=periodic, sidechain_only=case["sidechain_only"])
    if len(tab.bonds) == 0:
        ctx.skip("wn", "topology without bonds (documented refusal)")
        return
    trip, undoc = ref.bond_triplets(tab, case["exclude_water"], case["sidechain_only"])
    w = case.get("w") or {}
    if w:
        ctx.observe("wn.arguments", ("positional" if w["positional"] else "keyword") + "/" + w["argtypes"])
        ctx.observe("wn.cell-along-trajectory", w["pf"] if B is not None else "no cell")
    ckw = dict(kw)
    if w.get("argtypes") == "numpy":
        ckw = {k: np.bool_(v) for k, v in kw.items()}
    if w.get("positional"):
        out = md.wernet_nilsson(t, ckw["exclude_water"], ckw["periodic"], ckw["sidechain_only"])
    else:
        out = md.wernet_nilsson(t, **ckw)
    if not isinstance(out, list) or len(out) != t.n_frames:
        ctx.violation("wn.structure", "wernet_nilsson:not-one-entry-per-frame",
                      f"wernet_nilsson returned {type(out).__name__} of length {len(out) if hasattr(out, '__len__') else None} "
                      f"for {t.n_frames} frames")
        return
    state, n_angle = ref.wernet_nilsson_frames(x64, Bs, trip, info["M"])
    ctx.observe("wn.angle-evaluations", None, n_angle)
    cand_index = {(int(a), int(b), int(c)): k for k, (a, b, c) in enumerate(trip)}
    per = "periodic" if Bs is not None else "plain"
    for f in range(t.n_frames):
        if not _rows_ok(out[f], ctx, "wn.structure", "wernet_nilsson"):
            continue
        miss, spur = _compare_sets(ctx, "wernet_nilsson", "wn", out[f], trip, state[f], undoc, cand_index, tab, case,
                                   dict(options=kw, frame=f))
        for which, mask in (("missing", miss), ("spurious", spur)):
            for k in np.where(mask)[0][:2]:
                ctx.violation("wn.present" if which == "missing" else "wn.absent", f"wernet_nilsson:{which}[{per}]",
                              f"wernet_nilsson {which} triplet {tuple(int(v) for v in trip[k])} in frame {f}", options=kw, frame=f)
    _selfcheck(ctx, rng, x64, Bs, trip)
    if w:
        _history_differential(case, ctx, t, rng, "wn", lambda tr: md.wernet_nilsson(tr, **kw), _same_rows)


# ------------------------------------------------------------------------------------------------ Kabsch-Sander
def _entries(m):
    c = m.tocoo()
    out = {}
    for i, j, v in zip(c.row, c.col, c.data):
        out.setdefault((int(i), int(j)), []).append(np.float32(v))
    return out


def _same(a, b):
    """bitwise equality of two entry dicts; returns list of differing (acceptor, donor) keys"""
    diff = []
    for k in set(a) | set(b):
        va, vb = a.get(k), b.get(k)
        if va is None or vb is None or len(va) != len(vb) or any(
                np.float32(x).tobytes() != np.float32(y).tobytes() for x, y in zip(va, vb)):
            diff.append(k)
    return sorted(diff)


KEY_XYZ_M1 = "kabsch_sander:H-built-from-xyz[-1]-when-preceding-residue-lacks-C-or-O"


def _context_violation(ctx, mon, what, diff, kst, a, b, **detail):
    donors = sorted(set(j for _, j in diff))
    confined = all(kst.prev_lacks_c_or_o[j] and kst.complete[j] for j in donors)
    key = KEY_XYZ_M1 if confined else "kabsch_sander:output-depends-on-other-frames"
    k0 = diff[0]
    ctx.violation(mon, key, f"{what}: {len(diff)} entries differ, e.g. (CO residue {k0[0]}, NH residue {k0[1]}): "
                  f"{a.get(k0)} vs {b.get(k0)}; donors affected {donors[:6]}"
                  + (" (all have a preceding residue without C or O)" if confined else ""), **detail)


def _run_ks(case, ctx):
    import mdtraj as md
    import scipy.sparse
    t, x64, B, tab, info, rng = _make(case, ctx, "ks")
    kst = ref.KSTables(tab)
    nf, nres = t.n_frames, tab.n_residues
    ctx.observe("src", case["src"])
    ctx.observe("frames", nf)
    ctx.observe("ks.residues", "<=30" if nres <= 30 else ("<=200" if nres <= 200 else ">200"))
    ctx.observe("ks.donors-with-undocumented-H", None, int((kst.complete & ~kst.h_documented).sum()))
    ctx.observe("ks.donors-whose-predecessor-lacks-C-or-O", None, int((kst.complete & kst.prev_lacks_c_or_o).sum()))
    ctx.observe("ks.prolines", None, int((kst.complete & kst.proline).sum()))
    ctx.observe("ks.incomplete-residues", None, int((~kst.complete).sum()))
    mats = md.kabsch_sander(t)
    okstruct = isinstance(mats, list) and len(mats) == nf and all(
        scipy.sparse.issparse(m) and m.shape == (nres, nres) for m in mats)
    if not okstruct:
        ctx.violation("ks.structure", "kabsch_sander:not-n_frames-matrices-of-n_residues",
                      f"kabsch_sander returned {type(mats).__name__} len {len(mats) if hasattr(mats, '__len__') else None}; "
                      f"expected {nf} matrices {(nres, nres)}")
        return
    ents = [_entries(m) for m in mats]
    M = info["M"]
    frames = list(range(nf)) if nres * nf <= 6000 else sorted(rng.choice(nf, max(1, 6000 // nres), replace=False).tolist())
    for f in frames:
        e = ents[f]
        # ---- structure (raw output, no band)
        bad = None
        percol = {}
        for (i, j), vals in e.items():
            percol[j] = percol.get(j, 0) + len(vals)
            if len(vals) > 1:
                bad = ("duplicate-entry", i, j, vals)
            elif not kst.complete[i] or not kst.complete[j]:
                bad = ("entry-on-residue-without-N-CA-C-O", i, j, vals)
            elif i == j:
                bad = ("diagonal-entry", i, j, vals)
            elif not (vals[0] < -0.5):
                bad = ("stored-value-not-below--0.5", i, j, vals)
            elif j == i + 1:
                bad = ("peptide-bond-pair-(i,i+1)-reported", i, j, vals)
            elif kst.proline[j]:
                bad = ("proline-donor", i, j, vals)
        if bad is None and any(v > 2 for v in percol.values()):
            bad = ("more-than-two-bonds-per-donor", -1, max(percol, key=percol.get), [])
        if bad:
            ctx.violation("ks.structure", "kabsch_sander:" + bad[0],
                          f"frame {f}: {bad[0]} at (CO residue {bad[1]}, NH residue {bad[2]}) values {bad[3]}")
        else:
            ctx.ok("ks.structure")
        # ---- reference
        exp, n_pairs, n_supp = ref.ks_reference(x64[f], kst, M)
        ctx.observe("ks.pair-energies-evaluated", None, n_pairs)
        if n_supp:
            ctx.observe("ks.pairs-below--0.5-suppressed-by-CA-prefilter", None, n_supp)
        cols = {}
        for (i, j), vals in e.items():
            cols.setdefault(j, {})[i] = float(vals[0])
        undocumented = [j for j in range(nres) if kst.complete[j] and not kst.h_documented[j] and not kst.proline[j]]
        if undocumented:
            ctx.skip("ks.bond-set", "donor without a documented hydrogen position (preceding residue lacks C/O or other chain)",
                     len(undocumented))
        for j, r in exp.items():
            got = cols.get(j, {})
            if r["expected"] is None:
                ctx.skip("ks.bond-set", r["reason"])
                continue
            want = {a: (e_, tol) for a, e_, tol in r["expected"]}
            if set(got) != set(want):
                if len(got) < len(want):
                    kind = "missing-bond"
                elif len(got) > len(want):
                    kind = "spurious-bond"
                else:
                    kind = "wrong-partner-among-best-two"
                ctx.violation("ks.bond-set", f"kabsch_sander:{kind}",
                              f"frame {f}, NH of residue {j} ({tab.resname[j]}): reported CO partners {sorted(got.items())}, "
                              f"documented formula gives {[(a, round(v[0], 5)) for a, v in want.items()]} "
                              f"({r['n_sure']} acceptors below -0.5)", frame=f, donor=j)
                continue
            ctx.ok("ks.bond-set")
            if want:
                ctx.observe("ks.donor-columns-with-bonds", len(want))
            if r["n_sure"] > 2:
                ctx.observe("ks.best-two-selected-from-more", None)
            for a, (ev, tol) in want.items():
                if abs(got[a] - ev) <= 1e-4 * abs(ev) + tol:
                    ctx.ok("ks.energy")
                else:
                    ctx.violation("ks.energy", "kabsch_sander:energy-value",
                                  f"frame {f}, CO {a} -> NH {j}: stored {got[a]:.6f}, documented formula {ev:.6f} "
                                  f"(tolerance {1e-4 * abs(ev) + tol:.2g})", frame=f)
    # ---- determinism: frame context
    xyz32 = t.xyz
    top = t.topology
    for f in sorted(set(int(v) for v in rng.integers(0, nf, 3))):
        alone = md.kabsch_sander(md.Trajectory(xyz32[f:f + 1].copy(), top))
        diff = _same(ents[f], _entries(alone[0]))
        if diff:
            _context_violation(ctx, "ks.frame-context", f"kabsch_sander(t)[{f}] differs from kabsch_sander(frame {f} alone)[0]",
                               diff, kst, ents[f], _entries(alone[0]), frame=f, n_frames=nf)
        else:
            ctx.ok("ks.frame-context")
    # ---- determinism: junk differential
    for _ in range(2):
        f = int(rng.integers(nf))
        junk_kind = str(rng.choice(["zeros", "1e30", "nan", "scrambled", "negated"]))
        k = int(rng.integers(1, 4))
        fr = xyz32[f]
        if junk_kind == "zeros":
            junk = np.zeros((k,) + fr.shape, np.float32)
        elif junk_kind == "1e30":
            junk = np.full((k,) + fr.shape, 1e30, np.float32)
        elif junk_kind == "nan":
            junk = np.full((k,) + fr.shape, np.nan, np.float32)
        elif junk_kind == "negated":
            junk = np.repeat(-fr[None], k, axis=0) + np.float32(1.5)
        else:
            junk = np.array([fr[rng.permutation(len(fr))] for _ in range(k)], np.float32)
        pos = int(rng.integers(0, k + 1))
        emb = np.concatenate([junk[:pos], fr[None], junk[pos:]], axis=0).astype(np.float32)
        got = md.kabsch_sander(md.Trajectory(emb, top))
        alone = md.kabsch_sander(md.Trajectory(fr[None].copy(), top))
        ctx.observe("ks.junk", f"{junk_kind}@{'first' if pos == 0 else 'after-junk'}")
        diff = _same(_entries(got[pos]), _entries(alone[0]))
        if diff:
            _context_violation(ctx, "ks.junk-differential",
                               f"frame embedded at position {pos} among {k} '{junk_kind}' frames differs from the frame alone",
                               diff, kst, _entries(got[pos]), _entries(alone[0]), junk=junk_kind, position=pos)
        else:
            ctx.ok("ks.junk-differential")
    if case.get("w"):
        _history_differential(case, ctx, t, rng, "ks", lambda tr: md.kabsch_sander(tr), _same_ks)


def _history_differential(case, ctx, t, rng, kind, call, same):
    """widened class: state that may live on the Topology object across calls.  `call(traj)` has already run on `t`;
    its Topology object is now edited IN PLACE through public attributes / the public API, `call` runs again on the same
    object and on a freshly constructed equal topology (vlib.gen.common.rebuild_topology): both must agree exactly
    (`same(a, b)` -> True).  What the functions return for a topology built from scratch is judged by the monitors
    above; this one only asks that nothing remembered from before the edit leaks into the answer."""
    import mdtraj as md
    from mdtraj.core import element as elem
    top = t.topology
    atoms = list(top.atoms)
    residues = list(top.residues)
    if not atoms:
        return
    xyz = t.xyz.copy()
    if kind == "ks":
        edit = str(rng.choice(["residue->PRO", "backbone-atom-renamed", "insert_atom", "residue-from-PRO"]))
    else:
        edit = str(rng.choice(["water<->non-water", "atom-renamed", "element-changed", "add_bond", "insert_atom"]))
    if edit == "residue->PRO":
        r = residues[int(rng.integers(len(residues)))]
        r.name = "ALA" if r.name == "PRO" else "PRO"
    elif edit == "residue-from-PRO":
        pros = [r for r in residues if r.name == "PRO"] or residues
        pros[int(rng.integers(len(pros)))].name = "ALA"
    elif edit == "backbone-atom-renamed":
        bb = [a for a in atoms if a.name in ("N", "CA", "C", "O")] or atoms
        a = bb[int(rng.integers(len(bb)))]
        a.name = a.name + "X"
    elif edit == "water<->non-water":
        wat = [r for r in residues if r.name in ref.WATER_NAMES]
        if wat and rng.random() < 0.6:
            wat[int(rng.integers(len(wat)))].name = "LIG"
        else:
            residues[int(rng.integers(len(residues)))].name = "HOH"
    elif edit == "atom-renamed":
        a = atoms[int(rng.integers(len(atoms)))]
        a.name = "CA" if a.name not in ("N", "CA", "C", "O", "H", "HA") else "XZ"   # flips the sidechain status of the atom
    elif edit == "element-changed":
        pool = [a for a in atoms if a.element.symbol in ("N", "O", "H")] or atoms
        a = pool[int(rng.integers(len(pool)))]
        a.element = elem.carbon if a.element.symbol != "H" else elem.oxygen
    elif edit == "add_bond":
        hs = [a for a in atoms if a.element.symbol == "H"]
        xs = [a for a in atoms if a.element.symbol in ("N", "O")]
        if not hs or not xs:
            edit = "atom-renamed(no H or no N/O to bond)"
            atoms[0].name = "XZ"
        else:
            top.add_bond(xs[int(rng.integers(len(xs)))], hs[int(rng.integers(len(hs)))])
    if edit == "insert_atom":
        r = residues[int(rng.integers(len(residues)))]
        first = r.atom(0).index
        top.insert_atom("XI", elem.nitrogen if rng.random() < 0.5 else elem.oxygen, r, index=first, rindex=0)
        xyz = np.insert(xyz, first, xyz[:, first] + np.float32(0.13), axis=1)
    ctx.observe("in-place topology edit between calls", f"{kind}:{edit}")
    cell = {}
    if t.unitcell_lengths is not None:
        cell = dict(unitcell_lengths=t.unitcell_lengths.copy(), unitcell_angles=t.unitcell_angles.copy())
    fn = {"bh": "baker_hubbard", "wn": "wernet_nilsson", "ks": "kabsch_sander"}[kind]
    try:
        got = call(md.Trajectory(xyz.copy(), top, **cell))                     # the SAME, edited Topology object
    except Exception as e:
        got = e
    try:
        want = call(md.Trajectory(xyz.copy(), common.rebuild_topology(top), **cell))
    except Exception as e:
        want = e
    if isinstance(want, Exception) or isinstance(got, Exception):
        okk = isinstance(want, Exception) and isinstance(got, Exception) and type(want) is type(got)
        ctx.check(okk, "history.in-place-edit", f"{fn}:after-in-place-topology-edit:raises-unlike-fresh-topology",
                  f"after {edit}: edited object gives {got!r:.200}, fresh equal topology gives {want!r:.200}")
        return
    ctx.check(same(got, want), "history.in-place-edit", f"{fn}:result-after-in-place-topology-edit-differs-from-fresh-topology",
              f"{fn} called again after an in-place edit of the Topology ({edit}) differs from the call on a freshly built equal topology",
              edit=edit)


def _same_rows(a, b):
    if isinstance(a, list):
        return isinstance(b, list) and len(a) == len(b) and all(_same_rows(x, y) for x, y in zip(a, b))
    return np.asarray(a).shape == np.asarray(b).shape and bool(np.array_equal(np.asarray(a), np.asarray(b)))


def _same_ks(a, b):
    return len(a) == len(b) and all(not _same(_entries(x), _entries(y)) for x, y in zip(a, b))


def run_case(case, ctx):
    ctx.observe("kind", case["kind"])
    if case["kind"] == "bh":
        _run_bh(case, ctx)
    elif case["kind"] == "wn":
        _run_wn(case, ctx)
    else:
        _run_ks(case, ctx)
