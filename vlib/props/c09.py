"""C09 — observables are invariant under rigid motion (non-periodic) and lattice translation (periodic).

Monitor: metamorphic relations on the REAL functions.  A structure is transformed — proper rotation R and translation T
computed in float64 and cast to float32 (non-periodic), or per-atom integer lattice shifts n.B with |n|<=5 and a
whole-system translation (periodic) — and every observable is recomputed.
Continuous observables must agree within tau propagated through their Lipschitz factor, where
   tau = 16*eps32*(M0 + M1) + 1e-7        (M0, M1: largest |coordinate| before / after the transformation)
is the float32 rounding of coordinates and of differences of them:
   distances tau*4; angles 8*tau/l_min + 4*eps32/sin(theta) (the kernels take acos of a float32 cosine, whose
   conditioning is 1/sin(theta): at theta = 0.0127 rad one float32 ulp of the cosine is 4.7e-6 rad), dihedrals
   16*tau/(l_min*sin) (both skipped when a bond is < 1e-3 nm or a bond angle within 1e-2 rad of 0/pi); rmsd to the co-moved reference 16*tau; rg 4*tau; gyration-tensor eigenvalues 3*(2*R*4tau + (4tau)^2);
   ca-contacts 4*tau; DRID moments through d(1/d) = 4tau/d_min^2 (compared on mu, sigma^2, nu^3).
Discrete observables (hydrogen-bond triplets, DSSP codes, neighbour sets, neighbour lists) must be IDENTICAL except
where the deciding quantity lies within the band of its threshold, evaluated in float64 on the original structure:
   neighbour/neighbour-list pair: | d - cutoff | <= 4*tau (+1e-5);  baker_hubbard triplet: |d(H,A) - 0.25| <= 4tau or
   |angle - 120deg| <= 8tau/l;  DSSP residue: judged only if the kabsch_sander H-bond pattern (E < -0.5) is unchanged by the
   transformation and no bend angle is within 0.5deg of 70 (otherwise skipped: a threshold decision flipped legitimately).
SASA is invariant only up to its quadrature: per atom the bound is (sphere points, in float64 on the documented golden
spiral, whose margin to a neighbour surface is below one mean point spacing R*sqrt(4pi/n) under rotation, or below 4*tau
under pure translation, + 1) * 4*pi*R^2/n.
Periodic: minimum-image distances (w_min/2 domain for skewed cells), displacements, angles, dihedrals, neighbours,
neighbour list, ca-contacts and hydrogen bonds must be unchanged likewise."""
from __future__ import annotations

import os

import numpy as np

from vlib.gen import common
from vlib.oracle import geom

PROPERTY = "C09"
LEVEL = "exploration"
NATIVE = ["mdtraj.geometry._geometry", "mdtraj._rmsd", "mdtraj.geometry.drid", "mdtraj.geometry.neighbors", "mdtraj.geometry.neighborlist"]
RULE = ("case = (structure source, transformation class, magnitude, seed); every case recomputes ~14 observables on the "
        "transformed copy; non-trivial = at least one observable comparison decided; distinct = distinct descriptors")
WORKERS = {"quick": 8, "thorough": 16}
BUDGET = {"quick": 100, "thorough": 1500}
FLOORS = {"quick": {"rigid.distances": 1500, "rigid.angles": 300, "rigid.rmsd": 60, "rigid.sasa": 300, "rigid.hbonds": 10,
                    "rigid.dssp": 10, "lattice.distances": 1500, "lattice.neighbors": 100, "lattice.neighborlist": 20}}
ASSUMPTIONS = ["tolerances assume coordinates and their differences are rounded to float32 (eps32 = 2^-24)"]
EPS = geom.EPS32


# thorough tier: every 10-th case also runs in a worker whose extensions are ASan/UBSan-instrumented (vlib/sanitize.py)
ASAN_EVERY = {"quick": 0, "thorough": 10}
GROUPS = {"thorough": [dict(name="asan", flavour="asan", workers=2)]}


def gen_cases(tier, seed):
    from vlib.gen import common as _common
    return _common.with_asan_slice(_gen_cases(tier, seed), ASAN_EVERY[tier])


def _gen_cases(tier, seed):
    n = 700 if tier == "quick" else 9000
    for i in range(n):
        rng = common.rng_for("C09", seed, i)
        kind = ["rigid", "rigid", "lattice"][i % 3]
        src = ["protein", "lattice", "protein", "cluster"][(i // 3) % 4]
        yield dict(i=i, seed=common.case_seed(seed, "C09", i), kind=kind, source=src,
                   mag=float([0.0, 0.3, 3.0, 30.0, 300.0][int(rng.integers(5))]), rot=bool(rng.random() < 0.75),
                   cell=common.CELL_KINDS[int(rng.integers(len(common.CELL_KINDS)))])


def base_structure(case, rng):
    import mdtraj as md
    repo = os.environ.get("VERIF_REPO", "/repo")
    if case["source"] == "protein":
        t = md.load(os.path.join(repo, "tests/data/2EQQ.pdb"))
        f = int(rng.integers(0, t.n_frames))
        t = t[f]
        t.xyz = (t.xyz + rng.normal(scale=0.003, size=t.xyz.shape)).astype(np.float32)
        t.xyz = (t.xyz - t.xyz.mean(axis=1, keepdims=True)).astype(np.float32)
        return md.Trajectory(t.xyz, t.topology)
    na = int(rng.integers(12, 70))
    top = common.simple_topology(na, per_res=3)
    if case["source"] == "lattice":
        side = int(np.ceil(na ** (1 / 3)))
        g = np.array([(i % side, (i // side) % side, i // (side * side)) for i in range(na)], dtype=np.float64) * 0.3
        xyz = g + rng.uniform(0, 0.12, (na, 3))
    else:
        xyz = rng.normal(scale=0.6, size=(na, 3))
        # keep atoms apart (SASA kernel aborts on coincident atoms)
        for _ in range(50):
            d = np.linalg.norm(xyz[:, None] - xyz[None], axis=-1) + np.eye(na)
            close = np.argwhere(d < 0.08)
            if not len(close):
                break
            xyz[close[:, 0]] += rng.normal(scale=0.1, size=(len(close), 3))
    xyz = xyz - xyz.mean(0)
    return md.Trajectory(xyz[None].astype(np.float32), top)


def tau_of(x0, x1):
    return 16 * EPS * (float(np.abs(x0).max()) + float(np.abs(x1).max())) + 1e-7


def run_case(case, ctx):
    rng = common.rng_for("C09c", case["seed"])
    t0 = base_structure(case, rng)
    ctx.observe("source", case["source"])
    ctx.observe("kind", case["kind"])
    if case["kind"] == "rigid":
        rigid(case, ctx, t0, rng)
    else:
        lattice(case, ctx, t0, rng)


def _indices(t, rng):
    na = t.n_atoms
    pairs = rng.integers(0, na, (60, 2))
    pairs = pairs[pairs[:, 0] != pairs[:, 1]]
    trip = np.array([r for r in rng.integers(0, na, (40, 3)) if len(set(r)) == 3][:20])
    quad = np.array([r for r in rng.integers(0, na, (60, 4)) if len(set(r)) == 4][:20])
    return pairs, trip, quad


def _cmp(ctx, mon, key, a, b, tol, what, mask=None):
    a, b = np.asarray(a, np.float64), np.asarray(b, np.float64)
    if a.shape != b.shape:
        ctx.violation(mon, key + ":shape", f"{what}: shape {a.shape} vs {b.shape}")
        return
    diff = np.abs(a - b)
    tol = np.broadcast_to(np.asarray(tol, np.float64), a.shape)
    ok = diff <= tol
    if mask is not None:
        n_skip = int((~mask).sum())
        if n_skip:
            ctx.skip(mon, "ill-conditioned geometry (degenerate bond / near 0 or pi)", n_skip)
        ok = ok | ~mask
        nd = int(mask.sum())
    else:
        nd = a.size
    if not ok.all():
        j = np.unravel_index(int(np.argmax(np.where(ok, 0, diff / np.maximum(tol, 1e-300)))), a.shape)
        ctx.violation(mon, key, f"{what}: {a[j]:.8g} vs {b[j]:.8g} (|diff| {diff[j]:.3g} > tol {tol[j]:.3g})")
    else:
        ctx.ok(mon, max(nd, 1))


def _angle_conditioning(x64, trip):
    u = x64[trip[:, 0]] - x64[trip[:, 1]]
    v = x64[trip[:, 2]] - x64[trip[:, 1]]
    lu, lv = np.linalg.norm(u, axis=1), np.linalg.norm(v, axis=1)
    ang = geom.angle_vec(u, v)
    good = (np.minimum(lu, lv) > 1e-3) & (ang > 1e-2) & (ang < np.pi - 1e-2)
    return np.minimum(lu, lv), good


def _dihedral_conditioning(x64, quad):
    b1 = x64[quad[:, 1]] - x64[quad[:, 0]]
    b2 = x64[quad[:, 2]] - x64[quad[:, 1]]
    b3 = x64[quad[:, 3]] - x64[quad[:, 2]]
    l = np.minimum.reduce([np.linalg.norm(b, axis=1) for b in (b1, b2, b3)])
    a1 = geom.angle_vec(-b1, b2)
    a2 = geom.angle_vec(-b2, b3)
    s = np.minimum(np.sin(a1), np.sin(a2))
    good = (l > 1e-3) & (s > 0.05)
    return l * np.maximum(s, 1e-9), good


def circ(a, b):
    d = np.abs(np.asarray(a, np.float64) - np.asarray(b, np.float64))
    return np.minimum(d, 2 * np.pi - d)


# ---------------------------------------------------------------------------------------------------- rigid motion
def rigid(case, ctx, t0, rng):
    import mdtraj as md
    x0 = t0.xyz[0].astype(np.float64)
    R = common.random_rotation(rng) if case["rot"] else np.eye(3)
    direction = rng.normal(size=3)
    T = direction / np.linalg.norm(direction) * case["mag"]
    x1 = (x0 @ R.T + T).astype(np.float32)
    t1 = md.Trajectory(x1[None], t0.topology)
    tau = tau_of(t0.xyz, x1)
    ctx.observe("translation_nm", case["mag"])
    ctx.observe("rotation", case["rot"])
    pairs, trip, quad = _indices(t0, rng)
    tag = "rigid"
    _cmp(ctx, "rigid.distances", f"{tag}:compute_distances", md.compute_distances(t0, pairs, periodic=False),
         md.compute_distances(t1, pairs, periodic=False), 4 * tau, "distances before/after rigid motion")
    lmin, good = _angle_conditioning(x0, trip)
    a0, a1 = md.compute_angles(t0, trip, periodic=False)[0], md.compute_angles(t1, trip, periodic=False)[0]
    sin0 = np.maximum(np.sin(np.asarray(a0, np.float64)), 1e-3)
    _cmp(ctx, "rigid.angles", f"{tag}:compute_angles", a0, a1, 8 * tau / lmin + 4 * EPS / sin0 + 1e-6, "angles before/after rigid motion", mask=good)
    lq, goodq = _dihedral_conditioning(x0, quad)
    d0, d1 = md.compute_dihedrals(t0, quad, periodic=False)[0], md.compute_dihedrals(t1, quad, periodic=False)[0]
    dd = circ(d0, d1)
    okq = (dd <= 16 * tau / lq + 1e-5) | ~goodq
    if not okq.all():
        j = int(np.argmax(~okq))
        ctx.violation("rigid.dihedrals", f"{tag}:compute_dihedrals", f"dihedral {d0[j]:.6f} vs {d1[j]:.6f} after rigid motion (tol {16 * tau / lq[j]:.2g})")
    else:
        ctx.ok("rigid.dihedrals", int(goodq.sum()) or 1)
    # rmsd to a co-moved reference
    ref0 = x0 + rng.normal(scale=0.05, size=x0.shape)
    ref1 = (ref0 @ R.T + T).astype(np.float32)
    r0 = md.rmsd(md.Trajectory(t0.xyz.copy(), t0.topology), md.Trajectory(ref0[None].astype(np.float32), t0.topology), 0)
    r1 = md.rmsd(md.Trajectory(x1[None].copy(), t0.topology), md.Trajectory(ref1[None], t0.topology), 0)
    _cmp(ctx, "rigid.rmsd", f"{tag}:rmsd", r0, r1, 16 * tau + 1e-5, "rmsd to co-moved reference")
    _cmp(ctx, "rigid.rg", f"{tag}:compute_rg", md.compute_rg(t0), md.compute_rg(t1), 4 * tau, "radius of gyration")
    Rint = float(np.abs(x0 - x0.mean(0)).max())
    e0 = np.sort(np.linalg.eigvalsh(md.compute_gyration_tensor(t0)[0]))
    e1 = np.sort(np.linalg.eigvalsh(md.compute_gyration_tensor(t1)[0]))
    _cmp(ctx, "rigid.gyration", f"{tag}:gyration-tensor-eigenvalues", e0, e1, 3 * (2 * Rint * 4 * tau + (4 * tau) ** 2) + 1e-7, "gyration tensor eigenvalues")
    # DRID
    sub = np.sort(rng.choice(t0.n_atoms, size=min(t0.n_atoms, 20), replace=False))
    D = np.linalg.norm(x0[sub][:, None] - x0[None], axis=-1)
    D[D == 0] = np.inf
    dmin = float(D.min())
    try:
        g0, g1 = md.compute_drid(t0, atom_indices=sub)[0].reshape(-1, 3), md.compute_drid(t1, atom_indices=sub)[0].reshape(-1, 3)
        dx = 4 * tau / dmin ** 2
        xmax = 1.0 / dmin
        _cmp(ctx, "rigid.drid", f"{tag}:drid:mean", g0[:, 0], g1[:, 0], dx + 1e-6 * xmax, "DRID mean")
        _cmp(ctx, "rigid.drid", f"{tag}:drid:sigma^2", g0[:, 1] ** 2, g1[:, 1] ** 2, 4 * xmax * dx + 1e-5 * xmax ** 2, "DRID second moment")
        _cmp(ctx, "rigid.drid", f"{tag}:drid:nu^3", g0[:, 2] ** 3, g1[:, 2] ** 3, 6 * xmax ** 2 * dx + 1e-5 * xmax ** 3, "DRID third moment")
    except Exception as e:
        ctx.skip("rigid.drid", f"compute_drid raised {type(e).__name__}")
    # neighbours (discrete with margin)
    cutoff = float(rng.uniform(0.3, 0.6))
    q = sub[:5]
    n0 = set(md.compute_neighbors(t0, cutoff, q, periodic=False)[0].tolist())
    n1 = set(md.compute_neighbors(t1, cutoff, q, periodic=False)[0].tolist())
    dq = np.linalg.norm(x0[:, None] - x0[q][None], axis=-1)
    amb = {int(h) for h in range(t0.n_atoms) if np.any(np.abs(dq[h] - cutoff) <= 4 * tau + 1e-5)}
    diff = (n0 ^ n1) - amb
    if diff:
        ctx.violation("rigid.neighbors", f"{tag}:compute_neighbors", f"neighbour set changes under rigid motion for atoms {sorted(diff)[:6]} (cutoff {cutoff:.3f})")
    else:
        ctx.ok("rigid.neighbors", t0.n_atoms - len(amb))
    if case["source"] == "protein":
        c0 = md.compute_contacts(t0, "all", scheme="ca")[0]
        c1 = md.compute_contacts(t1, "all", scheme="ca")[0]
        _cmp(ctx, "rigid.contacts", f"{tag}:compute_contacts(ca)", c0, c1, 4 * tau, "CA contact distances")
        _hbonds(ctx, t0, t1, x0, tau, "rigid", periodic=False)
        _dssp(ctx, t0, t1, x0, tau, "rigid")
    _sasa(ctx, t0, t1, x0, tau, rotation=case["rot"], tag=tag, rng=rng)


def _hbonds(ctx, t0, t1, x0, tau, tag, periodic):
    import mdtraj as md
    try:
        h0 = {tuple(int(v) for v in r) for r in md.baker_hubbard(t0, freq=0.0, periodic=periodic)}
        h1 = {tuple(int(v) for v in r) for r in md.baker_hubbard(t1, freq=0.0, periodic=periodic)}
    except Exception as e:
        ctx.skip(f"{tag}.hbonds", f"baker_hubbard raised {type(e).__name__}")
        return
    bad = []
    B = None if not periodic else t0.unitcell_vectors[0].astype(np.float64)
    for d, h, a in h0 ^ h1:
        vha, vhd = x0[a] - x0[h], x0[d] - x0[h]
        if B is not None:
            vha, vhd = geom.min_image(vha, B)[0], geom.min_image(vhd, B)[0]
        dist = np.linalg.norm(vha)
        ang = geom.angle_vec(vhd, vha)
        l = min(np.linalg.norm(vha), np.linalg.norm(vhd))
        if abs(dist - 0.25) <= 4 * tau + 1e-5 or abs(ang - 2 * np.pi / 3) <= 8 * tau / max(l, 1e-3) + 1e-5:
            continue
        bad.append((d, h, a, float(dist), float(np.degrees(ang))))
    if bad:
        ctx.violation(f"{tag}.hbonds", f"{tag}:baker_hubbard", f"hydrogen-bond set changes under the transformation: (D,H,A,d_HA,angle) {bad[:3]}")
    else:
        ctx.ok(f"{tag}.hbonds", max(len(h0), 1))


def _dssp(ctx, t0, t1, x0, tau, tag):
    import mdtraj as md
    s0, s1 = md.compute_dssp(t0, simplified=False)[0], md.compute_dssp(t1, simplified=False)[0]
    if np.array_equal(s0, s1):
        ctx.ok(f"{tag}.dssp", len(s0))
        return
    k0, k1 = md.kabsch_sander(t0)[0], md.kabsch_sander(t1)[0]
    same_pattern = (k0 != 0).toarray().tolist() == (k1 != 0).toarray().tolist()
    ca = np.array([a.index for a in t0.topology.atoms if a.name == "CA"])
    c = x0[ca]
    v1, v2 = c[2:-2] - c[:-4], c[4:] - c[2:-2]
    kappa = np.degrees(geom.angle_vec(v1, v2))
    near_bend = bool(np.any(np.abs(kappa - 70.0) < 0.5))
    if same_pattern and not near_bend:
        j = int(np.argmax(s0 != s1))
        ctx.violation(f"{tag}.dssp", f"{tag}:compute_dssp", f"DSSP codes change under the transformation although the H-bond pattern is unchanged and no bend is near 70deg: residue {j} {s0[j]!r}->{s1[j]!r}")
    else:
        ctx.skip(f"{tag}.dssp", "an H-bond energy or bend angle sits at its threshold (pattern flipped legitimately)")


def golden_spiral(n):
    i = np.arange(n, dtype=np.float64)
    inc = np.pi * (3.0 - np.sqrt(5.0))
    off = 2.0 / n
    y = i * off - 1.0 + off / 2.0
    r = np.sqrt(1.0 - y * y)
    phi = i * inc
    return np.stack([np.cos(phi) * r, y, np.sin(phi) * r], axis=1)


def _sasa(ctx, t0, t1, x0, tau, rotation, tag, rng):
    import mdtraj as md
    from mdtraj.geometry.sasa import _ATOMIC_RADII
    n = int([24, 60, 120][int(rng.integers(3))])
    try:
        s0 = md.shrake_rupley(t0, n_sphere_points=n)[0].astype(np.float64)
        s1 = md.shrake_rupley(t1, n_sphere_points=n)[0].astype(np.float64)
    except Exception as e:
        ctx.skip(f"{tag}.sasa", f"shrake_rupley raised {type(e).__name__}")
        return
    Rr = np.array([_ATOMIC_RADII[a.element.symbol] for a in t0.topology.atoms]) + 0.14
    P = golden_spiral(n)
    x1 = t1.xyz[0].astype(np.float64)
    bound = np.zeros(len(Rr))
    for X in ((x0,) if not rotation else (x0, x1)):
        D = np.linalg.norm(X[:, None] - X[None], axis=-1)
        for i in range(len(Rr)):
            nb = np.where((D[i] < Rr[i] + Rr + 0.05) & (np.arange(len(Rr)) != i))[0]
            if not len(nb):
                continue
            pts = X[i] + Rr[i] * P
            m = np.linalg.norm(pts[:, None] - X[nb][None], axis=-1) - Rr[nb][None]
            band = (Rr[i] * np.sqrt(4 * np.pi / n)) if rotation else (4 * tau + 1e-5)
            bound[i] += np.sum(np.abs(m).min(axis=1) <= band)
    area_pt = 4 * np.pi * Rr ** 2 / n
    tol = (bound + 1) * area_pt + 1e-6
    ctx.observe("sasa_points", n)
    _cmp(ctx, f"{tag}.sasa", f"{tag}:shrake_rupley:{'rotation' if rotation else 'translation'}", s0, s1, tol, "per-atom SASA before/after")


# ---------------------------------------------------------------------------------------------------- lattice shifts
def lattice(case, ctx, t0, rng):
    import mdtraj as md
    x0 = t0.xyz[0].astype(np.float64)
    ext = float(np.abs(x0).max()) * 2
    l, a = common.random_cell(rng, case["cell"], lo=max(2 * ext + 0.5, 2.0), hi=max(2 * ext + 0.5, 2.0) * 1.3)
    ta = md.Trajectory(t0.xyz.copy(), t0.topology, unitcell_lengths=l[None].astype(np.float32), unitcell_angles=a[None].astype(np.float32))
    B = ta.unitcell_vectors[0].astype(np.float64)
    w = common.cell_widths(B).min()
    K = int(rng.choice([0, 1, 5]))
    sub = np.sort(rng.choice(t0.n_atoms, size=min(t0.n_atoms, 5), replace=False))
    # which atoms move: all of them independently, or only a few (the rest of the system stays where it was — here the
    # structure is first put in the middle of the primary cell, so that the few are the only atoms outside it)
    pattern = "all" if rng.random() < 0.6 else "few"
    if pattern == "few":
        ta.xyz = (ta.xyz.astype(np.float64) + B.sum(axis=0) / 2).astype(np.float32)
        x0 = ta.xyz[0].astype(np.float64)
        K = K or 1
        n = np.zeros((t0.n_atoms, 3))
        movers = sub[: int(rng.integers(1, len(sub) + 1))]
        n[movers] = rng.integers(-K, K + 1, (len(movers), 3))
        whole = np.zeros(3)
        rng.random()
    else:
        n = rng.integers(-K, K + 1, (t0.n_atoms, 3)).astype(np.float64) if K else np.zeros((t0.n_atoms, 3))
        whole = rng.uniform(-1, 1, 3) * case["mag"] if rng.random() < 0.5 else np.zeros(3)
    ctx.observe("lattice_shift_pattern", pattern)
    xb = (x0 + n @ B + whole).astype(np.float32)
    tb = md.Trajectory(xb[None], t0.topology, unitcell_lengths=ta.unitcell_lengths.copy(), unitcell_angles=ta.unitcell_angles.copy())
    tau = tau_of(ta.xyz, xb) + 16 * EPS * np.linalg.norm(B, axis=1).max()
    ctx.observe("cell", case["cell"])
    ctx.observe("lattice_shift_cells", K)
    ctx.observe("whole_translation", bool(np.any(whole)))
    pairs, trip, quad = _indices(t0, rng)
    tag = "lattice"
    orth = bool(np.all(a == 90.0))
    raw = x0[pairs[:, 1]] - x0[pairs[:, 0]]
    _, dmin = geom.min_image(raw, B)
    dom = np.ones(len(pairs), bool) if orth else (dmin < w / 2 - 4 * tau)
    da, db = md.compute_distances(ta, pairs)[0], md.compute_distances(tb, pairs)[0]
    ok = (np.abs(da - db) <= 4 * tau) | ~dom
    if not ok.all():
        j = int(np.argmax(~ok))
        ctx.violation("lattice.distances", f"{tag}:compute_distances", f"minimum-image distance {da[j]:.6g} vs {db[j]:.6g} after lattice shifts (K={K}, cell {case['cell']})")
    else:
        ctx.ok("lattice.distances", int(dom.sum()) or 1)
    if (~dom).any():
        ctx.skip("lattice.distances", "skewed cell and d_min >= w_min/2", int((~dom).sum()))
    va, vb = md.compute_displacements(ta, pairs)[0].astype(np.float64), md.compute_displacements(tb, pairs)[0].astype(np.float64)
    resid = np.linalg.norm(va - vb, axis=1)
    # displacements may legitimately differ by a lattice vector only at exact ties; inside the domain they must agree
    okv = (resid <= 8 * tau) | ~(dmin < w / 2 - 4 * tau)
    if not okv.all():
        j = int(np.argmax(~okv))
        ctx.violation("lattice.displacements", f"{tag}:compute_displacements", f"minimum-image displacement changes by {resid[j]:.4g} after lattice shifts")
    else:
        ctx.ok("lattice.displacements", int(okv.sum()))
    # angles / dihedrals on triplets whose bonds are short (inside the minimum-image domain)
    def mi(i, j):
        return geom.min_image(x0[j] - x0[i], B)
    u, lu = mi(trip[:, 1], trip[:, 0])
    v, lv = mi(trip[:, 1], trip[:, 2])
    ang = geom.angle_vec(u, v)
    good = (np.minimum(lu, lv) > 1e-3) & (np.maximum(lu, lv) < w / 2 - 4 * tau) & (ang > 1e-2) & (ang < np.pi - 1e-2)
    aa, ab = md.compute_angles(ta, trip)[0], md.compute_angles(tb, trip)[0]
    _cmp(ctx, "lattice.angles", f"{tag}:compute_angles", aa, ab, 8 * tau / np.minimum(lu, lv) + 4 * EPS / np.maximum(np.sin(ang), 1e-3) + 1e-6,
         "periodic angles before/after lattice shifts", mask=good)
    b1, l1 = mi(quad[:, 0], quad[:, 1])
    b2, l2 = mi(quad[:, 1], quad[:, 2])
    b3, l3 = mi(quad[:, 2], quad[:, 3])
    s = np.minimum(np.sin(geom.angle_vec(-b1, b2)), np.sin(geom.angle_vec(-b2, b3)))
    lq = np.minimum.reduce([l1, l2, l3])
    goodq = (lq > 1e-3) & (np.maximum.reduce([l1, l2, l3]) < w / 2 - 4 * tau) & (s > 0.05)
    qa, qb = md.compute_dihedrals(ta, quad)[0], md.compute_dihedrals(tb, quad)[0]
    dd = circ(qa, qb)
    okq = (dd <= 16 * tau / (lq * np.maximum(s, 1e-9)) + 1e-5) | ~goodq
    if not okq.all():
        j = int(np.argmax(~okq))
        ctx.violation("lattice.dihedrals", f"{tag}:compute_dihedrals", f"periodic dihedral {qa[j]:.6f} vs {qb[j]:.6f} after lattice shifts")
    else:
        ctx.ok("lattice.dihedrals", int(goodq.sum()) or 1)
    # neighbours and neighbour list
    cutoff = float(rng.uniform(0.25, min(0.6, w / 2 - 0.01)))
    allraw = x0[:, None, :] - x0[sub][None, :, :]
    _, dall = geom.min_image(allraw, B)
    amb = {int(h) for h in range(t0.n_atoms) if np.any(np.abs(dall[h] - cutoff) <= 4 * tau + 1e-5)}
    rest = np.setdiff1d(np.arange(t0.n_atoms), sub)
    for hay, hname in ((None, "all atoms"), (rest, "explicit haystack without the query atoms")):
        if hay is not None and not len(hay):
            continue
        na_ = set(md.compute_neighbors(ta, cutoff, sub, haystack_indices=hay)[0].tolist())
        nb_ = set(md.compute_neighbors(tb, cutoff, sub, haystack_indices=hay)[0].tolist())
        diff = (na_ ^ nb_) - amb
        if diff:
            ctx.violation("lattice.neighbors", f"{tag}:compute_neighbors", f"periodic neighbour set ({hname}) changes after lattice shifts for atoms {sorted(diff)[:6]} (cutoff {cutoff:.3f}, K={K}, moved: {pattern})")
        else:
            ctx.ok("lattice.neighbors", t0.n_atoms - len(amb))
    try:
        la = md.compute_neighborlist(ta, cutoff)
        lb = md.compute_neighborlist(tb, cutoff)
        full = x0[:, None, :] - x0[None, :, :]
        _, dfull = geom.min_image(full, B)
        ambp = np.abs(dfull - cutoff) <= 4 * tau + 1e-5
        bad = []
        for i in range(t0.n_atoms):
            for j in set(int(v) for v in la[i]) ^ set(int(v) for v in lb[i]):
                if not ambp[i, j]:
                    bad.append((i, j, float(dfull[i, j])))
        if bad:
            ctx.violation("lattice.neighborlist", f"{tag}:compute_neighborlist:atoms-outside-primary-cell" if (K or np.any(whole)) else f"{tag}:compute_neighborlist",
                          f"neighbour list changes after lattice shifts: {len(bad)} pair memberships differ, e.g. (i,j,d) {bad[:3]} (cutoff {cutoff:.3f}, K={K}, cell {case['cell']})")
        else:
            ctx.ok("lattice.neighborlist", t0.n_atoms)
    except Exception as e:
        ctx.skip("lattice.neighborlist", f"compute_neighborlist raised {type(e).__name__}")
    if case["source"] == "protein":
        c0 = md.compute_contacts(ta, "all", scheme="ca", periodic=True)[0]
        c1 = md.compute_contacts(tb, "all", scheme="ca", periodic=True)[0]
        _cmp(ctx, "lattice.contacts", f"{tag}:compute_contacts(ca,periodic)", c0, c1, 4 * tau, "periodic CA contacts")
        _hbonds(ctx, ta, tb, x0, tau, "lattice", periodic=True)
