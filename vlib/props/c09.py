"""C09 — observables are invariant under rigid motion (non-periodic) and lattice translation (periodic).

Monitor: metamorphic relations on the REAL functions.  A structure is transformed — proper rotation R and translation T
computed in float64 and cast to float32 (non-periodic), or per-atom integer lattice shifts n.B with |n|<=5 and a
whole-system translation (periodic) — and every observable is recomputed.
Continuous observables must agree within tau propagated through their Lipschitz factor, where
   tau = 16*eps32*(M0 + M1) + 1e-7        (M0, M1: largest |coordinate| before / after the transformation)
is the float32 rounding of coordinates and of differences of them:
   distances tau*4; angles 8*tau/l_min + 4*eps32/sin(theta) (the kernels take acos of a float32 cosine, whose
   conditioning is 1/sin(theta): at theta = 0.0127 rad one float32 ulp of the cosine is 4.7e-6 rad), dihedrals
   16*tau/(l_min*sin) (both skipped when a bond is < 1e-3 nm or a bond angle within 1e-2 rad of 0/pi); rmsd to the co-moved reference 16*tau; rg 4*tau; gyration-tensor eigenvalues 3*(2*R*4tau + (4tau)^2);
   ca-contacts 4*tau; DRID moments through d(1/d) = 4tau/d_min^2 (compared on mu, sigma^2, nu^3).
Discrete observables (hydrogen-bond triplets, DSSP codes, neighbour sets, neighbour lists) must be IDENTICAL except
where the deciding quantity lies within the band of its threshold, evaluated in float64 on the original structure:
   neighbour/neighbour-list pair: | d - cutoff | <= 4*tau (+1e-5);  baker_hubbard triplet: |d(H,A) - 0.25| <= 4tau or
   |angle - 120deg| <= 8tau/l;  DSSP residue: judged only if the kabsch_sander H-bond pattern (E < -0.5) is unchanged by the
   transformation and no bend angle is within 0.5deg of 70 (otherwise skipped: a threshold decision flipped legitimately).
SASA is invariant only up to its quadrature: per atom the bound is (sphere points, in float64 on the documented golden
spiral, whose margin to a neighbour surface is below one mean point spacing R*sqrt(4pi/n) under rotation, or below 4*tau
under pure translation, + 1) * 4*pi*R^2/n.
Periodic: minimum-image distances (w_min/2 domain for skewed cells), displacements, angles, dihedrals, neighbours,
neighbour list, ca-contacts and hydrogen bonds must be unchanged likewise."""
from __future__ import annotations

import os

import numpy as np

from vlib.gen import common
from vlib.oracle import geom

PROPERTY = "C09"
LEVEL = "exploration"
NATIVE = ["mdtraj.geometry._geometry", "mdtraj._rmsd", "mdtraj.geometry.drid", "mdtraj.geometry.neighbors", "mdtraj.geometry.neighborlist"]
RULE = ("case = (structure source, transformation class, magnitude, seed); every case recomputes ~14 observables on the "
        "transformed copy; non-trivial = at least one observable comparison decided; distinct = distinct descriptors; "
        "a second stream (w=1) uses multi-frame trajectories with a different rigid motion (random / exact axis / tiny rotation) "
        "or different lattice shifts and cells in every frame, adds the observables the first stream leaves out, and passes "
        "index tables in every container")
WORKERS = {"quick": 8, "thorough": 16}
BUDGET = {"quick": 100, "thorough": 1500}
FLOORS = {"quick": {"rigid.distances": 1500, "rigid.angles": 300, "rigid.rmsd": 60, "rigid.sasa": 300, "rigid.hbonds": 10,
                    "rigid.dssp": 10, "lattice.distances": 1500, "lattice.neighbors": 100, "lattice.neighborlist": 20}}
ASSUMPTIONS = ["tolerances assume coordinates and their differences are rounded to float32 (eps32 = 2^-24)"]
EPS = geom.EPS32


# thorough tier: every 10-th case also runs in a worker whose extensions are ASan/UBSan-instrumented (vlib/sanitize.py)
ASAN_EVERY = {"quick": 0, "thorough": 10}
GROUPS = {"thorough": [dict(name="asan", flavour="asan", workers=2)]}


def gen_cases(tier, seed):
    from vlib.gen import common as _common
    return _common.with_asan_slice(_gen_cases(tier, seed), ASAN_EVERY[tier])


def _gen_cases(tier, seed):
    n = 700 if tier == "quick" else 9000
    for i in range(n):
        rng = common.rng_for("C09", seed, i)
        kind = ["rigid", "rigid", "lattice"][i % 3]
        src = ["protein", "lattice", "protein", "cluster"][(i // 3) % 4]
        yield dict(i=i, seed=common.case_seed(seed, "C09", i), kind=kind, source=src,
                   mag=float([0.0, 0.3, 3.0, 30.0, 300.0][int(rng.integers(5))]), rot=bool(rng.random() < 0.75),
                   cell=common.CELL_KINDS[int(rng.integers(len(common.CELL_KINDS)))])


def base_structure(case, rng):
    import mdtraj as md
    repo = os.environ.get("VERIF_REPO", "/repo")
    if case["source"] == "protein":
        t = md.load(os.path.join(repo, "tests/data/2EQQ.pdb"))
        f = int(rng.integers(0, t.n_frames))
        t = t[f]
        t.xyz = (t.xyz + rng.normal(scale=0.003, size=t.xyz.shape)).astype(np.float32)
        t.xyz = (t.xyz - t.xyz.mean(axis=1, keepdims=True)).astype(np.float32)
        return md.Trajectory(t.xyz, t.topology)
    na = int(rng.integers(12, 70))
    top = common.simple_topology(na, per_res=3)
    if case["source"] == "lattice":
        side = int(np.ceil(na ** (1 / 3)))
        g = np.array([(i % side, (i // side) % side, i // (side * side)) for i in range(na)], dtype=np.float64) * 0.3
        xyz = g + rng.uniform(0, 0.12, (na, 3))
    else:
        xyz = rng.normal(scale=0.6, size=(na, 3))
        # keep atoms apart (SASA kernel aborts on coincident atoms)
        for _ in range(50):
            d = np.linalg.norm(xyz[:, None] - xyz[None], axis=-1) + np.eye(na)
            close = np.argwhere(d < 0.08)
            if not len(close):
                break
            xyz[close[:, 0]] += rng.normal(scale=0.1, size=(len(close), 3))
    xyz = xyz - xyz.mean(0)
    return md.Trajectory(xyz[None].astype(np.float32), top)


def tau_of(x0, x1):
    return 16 * EPS * (float(np.abs(x0).max()) + float(np.abs(x1).max())) + 1e-7


def run_case(case, ctx):
    rng = common.rng_for("C09c", case["seed"])
    t0 = base_structure(case, rng)
    ctx.observe("source", case["source"])
    ctx.observe("kind", case["kind"])
    if case["kind"] == "rigid":
        rigid(case, ctx, t0, rng)
    else:
        lattice(case, ctx, t0, rng)


def _indices(t, rng):
    na = t.n_atoms
    pairs = rng.integers(0, na, (60, 2))
    pairs = pairs[pairs[:, 0] != pairs[:, 1]]
    trip = np.array([r for r in rng.integers(0, na, (40, 3)) if len(set(r)) == 3][:20])
    quad = np.array([r for r in rng.integers(0, na, (60, 4)) if len(set(r)) == 4][:20])
    return pairs, trip, quad


def _cmp(ctx, mon, key, a, b, tol, what, mask=None):
    a, b = np.asarray(a, np.float64), np.asarray(b, np.float64)
    if a.shape != b.shape:
        ctx.violation(mon, key + ":shape", f"{what}: shape {a.shape} vs {b.shape}")
        return
    diff = np.abs(a - b)
    tol = np.broadcast_to(np.asarray(tol, np.float64), a.shape)
    ok = diff <= tol
    if mask is not None:
        n_skip = int((~mask).sum())
        if n_skip:
            ctx.skip(mon, "ill-conditioned geometry (degenerate bond / near 0 or pi)", n_skip)
        ok = ok | ~mask
        nd = int(mask.sum())
    else:
        nd = a.size
    if not ok.all():
        j = np.unravel_index(int(np.argmax(np.where(ok, 0, diff / np.maximum(tol, 1e-300)))), a.shape)
        ctx.violation(mon, key, f"{what}: {a[j]:.8g} vs {b[j]:.8g} (|diff| {diff[j]:.3g} > tol {tol[j]:.3g})")
    else:
        ctx.ok(mon, max(nd, 1))


def _angle_conditioning(x64, trip):
    u = x64[trip[:, 0]] - x64[trip[:, 1]]
    v = x64[trip[:, 2]] - x64[trip[:, 1]]
    lu, lv = np.linalg.norm(u, axis=1), np.linalg.norm(v, axis=1)
    ang = geom.angle_vec(u, v)
    good = (np.minimum(lu, lv) > 1e-3) & (ang > 1e-2) & (ang < np.pi - 1e-2)
    return np.minimum(lu, lv), good


def _dihedral_conditioning(x64, quad):
    b1 = x64[quad[:, 1]] - x64[quad[:, 0]]
    b2 = x64[quad[:, 2]] - x64[quad[:, 1]]
    b3 = x64[quad[:, 3]] - x64[quad[:, 2]]
    l = np.minimum.reduce([np.linalg.norm(b, axis=1) for b in (b1, b2, b3)])
    a1 = geom.angle_vec(-b1, b2)
    a2 = geom.angle_vec(-b2, b3)
    s = np.minimum(np.sin(a1), np.sin(a2))
    good = (l > 1e-3) & (s > 0.05)
    return l * np.maximum(s, 1e-9), good


def circ(a, b):
    d = np.abs(np.asarray(a, np.float64) - np.asarray(b, np.float64))
    return np.minimum(d, 2 * np.pi - d)


# ---------------------------------------------------------------------------------------------------- rigid motion
def rigid(case, ctx, t0, rng):
    import mdtraj as md
    x0 = t0.xyz[0].astype(np.float64)
    R = common.random_rotation(rng) if case["rot"] else np.eye(3)
    direction = rng.normal(size=3)
    T = direction / np.linalg.norm(direction) * case["mag"]
    x1 = (x0 @ R.T + T).astype(np.float32)
    t1 = md.Trajectory(x1[None], t0.topology)
    tau = tau_of(t0.xyz, x1)
    ctx.observe("translation_nm", case["mag"])
    ctx.observe("rotation", case["rot"])
    pairs, trip, quad = _indices(t0, rng)
    tag = "rigid"
    _cmp(ctx, "rigid.distances", f"{tag}:compute_distances", md.compute_distances(t0, pairs, periodic=False),
         md.compute_distances(t1, pairs, periodic=False), 4 * tau, "distances before/after rigid motion")
    lmin, good = _angle_conditioning(x0, trip)
    a0, a1 = md.compute_angles(t0, trip, periodic=False)[0], md.compute_angles(t1, trip, periodic=False)[0]
    sin0 = np.maximum(np.sin(np.asarray(a0, np.float64)), 1e-3)
    _cmp(ctx, "rigid.angles", f"{tag}:compute_angles", a0, a1, 8 * tau / lmin + 4 * EPS / sin0 + 1e-6, "angles before/after rigid motion", mask=good)
    lq, goodq = _dihedral_conditioning(x0, quad)
    d0, d1 = md.compute_dihedrals(t0, quad, periodic=False)[0], md.compute_dihedrals(t1, quad, periodic=False)[0]
    dd = circ(d0, d1)
    okq = (dd <= 16 * tau / lq + 1e-5) | ~goodq
    if not okq.all():
        j = int(np.argmax(~okq))
        ctx.violation("rigid.dihedrals", f"{tag}:compute_dihedrals", f"dihedral {d0[j]:.6f} vs {d1[j]:.6f} after rigid motion (tol {16 * tau / lq[j]:.2g})")
    else:
        ctx.ok("rigid.dihedrals", int(goodq.sum()) or 1)
    # rmsd to a co-moved reference
    ref0 = x0 + rng.normal(scale=0.05, size=x0.shape)
    ref1 = (ref0 @ R.T + T).astype(np.float32)
    r0 = md.rmsd(md.Trajectory(t0.xyz.copy(), t0.topology), md.Trajectory(ref0[None].astype(np.float32), t0.topology), 0)
    r1 = md.rmsd(md.Trajectory(x1[None].copy(), t0.topology), md.Trajectory(ref1[None], t0.topology), 0)
    _cmp(ctx, "rigid.rmsd", f"{tag}:rmsd", r0, r1, 16 * tau + 1e-5, "rmsd to co-moved reference")
    _cmp(ctx, "rigid.rg", f"{tag}:compute_rg", md.compute_rg(t0), md.compute_rg(t1), 4 * tau, "radius of gyration")
    Rint = float(np.abs(x0 - x0.mean(0)).max())
    e0 = np.sort(np.linalg.eigvalsh(md.compute_gyration_tensor(t0)[0]))
    e1 = np.sort(np.linalg.eigvalsh(md.compute_gyration_tensor(t1)[0]))
    _cmp(ctx, "rigid.gyration", f"{tag}:gyration-tensor-eigenvalues", e0, e1, 3 * (2 * Rint * 4 * tau + (4 * tau) ** 2) + 1e-7, "gyration tensor eigenvalues")
    # DRID
    sub = np.sort(rng.choice(t0.n_atoms, size=min(t0.n_atoms, 20), replace=False))
    D = np.linalg.norm(x0[sub][:, None] - x0[None], axis=-1)
    D[D == 0] = np.inf
    dmin = float(D.min())
    try:
        g0, g1 = md.compute_drid(t0, atom_indices=sub)[0].reshape(-1, 3), md.compute_drid(t1, atom_indices=sub)[0].reshape(-1, 3)
        dx = 4 * tau / dmin ** 2
        xmax = 1.0 / dmin
        _cmp(ctx, "rigid.drid", f"{tag}:drid:mean", g0[:, 0], g1[:, 0], dx + 1e-6 * xmax, "DRID mean")
        _cmp(ctx, "rigid.drid", f"{tag}:drid:sigma^2", g0[:, 1] ** 2, g1[:, 1] ** 2, 4 * xmax * dx + 1e-5 * xmax ** 2, "DRID second moment")
        _cmp(ctx, "rigid.drid", f"{tag}:drid:nu^3", g0[:, 2] ** 3, g1[:, 2] ** 3, 6 * xmax ** 2 * dx + 1e-5 * xmax ** 3, "DRID third moment")
    except Exception as e:
        ctx.skip("rigid.drid", f"compute_drid raised {type(e).__name__}")
    # neighbours (discrete with margin)
    cutoff = float(rng.uniform(0.3, 0.6))
    q = sub[:5]
    n0 = set(md.compute_neighbors(t0, cutoff, q, periodic=False)[0].tolist())
    n1 = set(md.compute_neighbors(t1, cutoff, q, periodic=False)[0].tolist())
    dq = np.linalg.norm(x0[:, None] - x0[q][None], axis=-1)
    amb = {int(h) for h in range(t0.n_atoms) if np.any(np.abs(dq[h] - cutoff) <= 4 * tau + 1e-5)}
    diff = (n0 ^ n1) - amb
    if diff:
        ctx.violation("rigid.neighbors", f"{tag}:compute_neighbors", f"neighbour set changes under rigid motion for atoms {sorted(diff)[:6]} (cutoff {cutoff:.3f})")
    else:
        ctx.ok("rigid.neighbors", t0.n_atoms - len(amb))
    if case["source"] == "protein":
        c0 = md.compute_contacts(t0, "all", scheme="ca")[0]
        c1 = md.compute_contacts(t1, "all", scheme="ca")[0]
        _cmp(ctx, "rigid.contacts", f"{tag}:compute_contacts(ca)", c0, c1, 4 * tau, "CA contact distances")
        _hbonds(ctx, t0, t1, x0, tau, "rigid", periodic=False)
        _dssp(ctx, t0, t1, x0, tau, "rigid")
    _sasa(ctx, t0, t1, x0, tau, rotation=case["rot"], tag=tag, rng=rng)


def _hbonds(ctx, t0, t1, x0, tau, tag, periodic):
    import mdtraj as md
    try:
        h0 = {tuple(int(v) for v in r) for r in md.baker_hubbard(t0, freq=0.0, periodic=periodic)}
        h1 = {tuple(int(v) for v in r) for r in md.baker_hubbard(t1, freq=0.0, periodic=periodic)}
    except Exception as e:
        ctx.skip(f"{tag}.hbonds", f"baker_hubbard raised {type(e).__name__}")
        return
    bad = []
    B = None if not periodic else t0.unitcell_vectors[0].astype(np.float64)
    for d, h, a in h0 ^ h1:
        vha, vhd = x0[a] - x0[h], x0[d] - x0[h]
        if B is not None:
            vha, vhd = geom.min_image(vha, B)[0], geom.min_image(vhd, B)[0]
        dist = np.linalg.norm(vha)
        ang = geom.angle_vec(vhd, vha)
        l = min(np.linalg.norm(vha), np.linalg.norm(vhd))
        if abs(dist - 0.25) <= 4 * tau + 1e-5 or abs(ang - 2 * np.pi / 3) <= 8 * tau / max(l, 1e-3) + 1e-5:
            continue
        bad.append((d, h, a, float(dist), float(np.degrees(ang))))
    if bad:
        ctx.violation(f"{tag}.hbonds", f"{tag}:baker_hubbard", f"hydrogen-bond set changes under the transformation: (D,H,A,d_HA,angle) {bad[:3]}")
    else:
        ctx.ok(f"{tag}.hbonds", max(len(h0), 1))


def _dssp(ctx, t0, t1, x0, tau, tag):
    import mdtraj as md
    s0, s1 = md.compute_dssp(t0, simplified=False)[0], md.compute_dssp(t1, simplified=False)[0]
    if np.array_equal(s0, s1):
        ctx.ok(f"{tag}.dssp", len(s0))
        return
    k0, k1 = md.kabsch_sander(t0)[0], md.kabsch_sander(t1)[0]
    same_pattern = (k0 != 0).toarray().tolist() == (k1 != 0).toarray().tolist()
    ca = np.array([a.index for a in t0.topology.atoms if a.name == "CA"])
    c = x0[ca]
    v1, v2 = c[2:-2] - c[:-4], c[4:] - c[2:-2]
    kappa = np.degrees(geom.angle_vec(v1, v2))
    near_bend = bool(np.any(np.abs(kappa - 70.0) < 0.5))
    if same_pattern and not near_bend:
        j = int(np.argmax(s0 != s1))
        ctx.violation(f"{tag}.dssp", f"{tag}:compute_dssp", f"DSSP codes change under the transformation although the H-bond pattern is unchanged and no bend is near 70deg: residue {j} {s0[j]!r}->{s1[j]!r}")
    else:
        ctx.skip(f"{tag}.dssp", "an H-bond energy or bend angle sits at its threshold (pattern flipped legitimately)")


def golden_spiral(n):
    i = np.arange(n, dtype=np.float64)
    inc = np.pi * (3.0 - np.sqrt(5.0))
    off = 2.0 / n
    y = i * off - 1.0 + off / 2.0
    r = np.sqrt(1.0 - y * y)
    phi = i * inc
    return np.stack([np.cos(phi) * r, y, np.sin(phi) * r], axis=1)


def _sasa(ctx, t0, t1, x0, tau, rotation, tag, rng):
    import mdtraj as md
    from mdtraj.geometry.sasa import _ATOMIC_RADII
    n = int([24, 60, 120][int(rng.integers(3))])
    try:
        s0 = md.shrake_rupley(t0, n_sphere_points=n)[0].astype(np.float64)
        s1 = md.shrake_rupley(t1, n_sphere_points=n)[0].astype(np.float64)
    except Exception as e:
        ctx.skip(f"{tag}.sasa", f"shrake_rupley raised {type(e).__name__}")
        return
    Rr = np.array([_ATOMIC_RADII[a.element.symbol] for a in t0.topology.atoms]) + 0.14
    P = golden_spiral(n)
    x1 = t1.xyz[0].astype(np.float64)
    bound = np.zeros(len(Rr))
    for X in ((x0,) if not rotation else (x0, x1)):
        D = np.linalg.norm(X[:, None] - X[None], axis=-1)
        for i in range(len(Rr)):
            nb = np.where((D[i] < Rr[i] + Rr + 0.05) & (np.arange(len(Rr)) != i))[0]
            if not len(nb):
                continue
            pts = X[i] + Rr[i] * P
            m = np.linalg.norm(pts[:, None] - X[nb][None], axis=-1) - Rr[nb][None]
            band = (Rr[i] * np.sqrt(4 * np.pi / n)) if rotation else (4 * tau + 1e-5)
            bound[i] += np.sum(np.abs(m).min(axis=1) <= band)
    area_pt = 4 * np.pi * Rr ** 2 / n
    tol = (bound + 1) * area_pt + 1e-6
    ctx.observe("sasa_points", n)
    _cmp(ctx, f"{tag}.sasa", f"{tag}:shrake_rupley:{'rotation' if rotation else 'translation'}", s0, s1, tol, "per-atom SASA before/after")


# ---------------------------------------------------------------------------------------------------- lattice shifts
def lattice(case, ctx, t0, rng):
    import mdtraj as md
    x0 = t0.xyz[0].astype(np.float64)
    ext = float(np.abs(x0).max()) * 2
    l, a = common.random_cell(rng, case["cell"], lo=max(2 * ext + 0.5, 2.0), hi=max(2 * ext + 0.5, 2.0) * 1.3)
    ta = md.Trajectory(t0.xyz.copy(), t0.topology, unitcell_lengths=l[None].astype(np.float32), unitcell_angles=a[None].astype(np.float32))
    B = ta.unitcell_vectors[0].astype(np.float64)
    w = common.cell_widths(B).min()
    K = int(rng.choice([0, 1, 5]))
    sub = np.sort(rng.choice(t0.n_atoms, size=min(t0.n_atoms, 5), replace=False))
    # which atoms move: all of them independently, or only a few (the rest of the system stays where it was — here the
    # structure is first put in the middle of the primary cell, so that the few are the only atoms outside it)
    pattern = "all" if rng.random() < 0.6 else "few"
    if pattern == "few":
        ta.xyz = (ta.xyz.astype(np.float64) + B.sum(axis=0) / 2).astype(np.float32)
        x0 = ta.xyz[0].astype(np.float64)
        K = K or 1
        n = np.zeros((t0.n_atoms, 3))
        movers = sub[: int(rng.integers(1, len(sub) + 1))]
        n[movers] = rng.integers(-K, K + 1, (len(movers), 3))
        whole = np.zeros(3)
        rng.random()
    else:
        n = rng.integers(-K, K + 1, (t0.n_atoms, 3)).astype(np.float64) if K else np.zeros((t0.n_atoms, 3))
        whole = rng.uniform(-1, 1, 3) * case["mag"] if rng.random() < 0.5 else np.zeros(3)
    ctx.observe("lattice_shift_pattern", pattern)
    xb = (x0 + n @ B + whole).astype(np.float32)
    tb = md.Trajectory(xb[None], t0.topology, unitcell_lengths=ta.unitcell_lengths.copy(), unitcell_angles=ta.unitcell_angles.copy())
    tau = tau_of(ta.xyz, xb) + 16 * EPS * np.linalg.norm(B, axis=1).max()
    ctx.observe("cell", case["cell"])
    ctx.observe("lattice_shift_cells", K)
    ctx.observe("whole_translation", bool(np.any(whole)))
    pairs, trip, quad = _indices(t0, rng)
    tag = "lattice"
    orth = bool(np.all(a == 90.0))
    raw = x0[pairs[:, 1]] - x0[pairs[:, 0]]
    _, dmin = geom.min_image(raw, B)
    dom = np.ones(len(pairs), bool) if orth else (dmin < w / 2 - 4 * tau)
    da, db = md.compute_distances(ta, pairs)[0], md.compute_distances(tb, pairs)[0]
    ok = (np.abs(da - db) <= 4 * tau) | ~dom
    if not ok.all():
        j = int(np.argmax(~ok))
        ctx.violation("lattice.distances", f"{tag}:compute_distances", f"minimum-image distance {da[j]:.6g} vs {db[j]:.6g} after lattice shifts (K={K}, cell {case['cell']})")
    else:
        ctx.ok("lattice.distances", int(dom.sum()) or 1)
    if (~dom).any():
        ctx.skip("lattice.distances", "skewed cell and d_min >= w_min/2", int((~dom).sum()))
    va, vb = md.compute_displacements(ta, pairs)[0].astype(np.float64), md.compute_displacements(tb, pairs)[0].astype(np.float64)
    resid = np.linalg.norm(va - vb, axis=1)
    # displacements may legitimately differ by a lattice vector only at exact ties; inside the domain they must agree
    okv = (resid <= 8 * tau) | ~(dmin < w / 2 - 4 * tau)
    if not okv.all():
        j = int(np.argmax(~okv))
        ctx.violation("lattice.displacements", f"{tag}:compute_displacements", f"minimum-image displacement changes by {resid[j]:.4g} after lattice shifts")
    else:
        ctx.ok("lattice.displacements", int(okv.sum()))
    # angles / dihedrals on triplets whose bonds are short (inside the minimum-image domain)
    def mi(i, j):
        return geom.min_image(x0[j] - x0[i], B)
    u, lu = mi(trip[:, 1], trip[:, 0])
    v, lv = mi(trip[:, 1], trip[:, 2])
    ang = geom.angle_vec(u, v)
    good = (np.minimum(lu, lv) > 1e-3) & (np.maximum(lu, lv) < w / 2 - 4 * tau) & (ang > 1e-2) & (ang < np.pi - 1e-2)
    aa, ab = md.compute_angles(ta, trip)[0], md.compute_angles(tb, trip)[0]
    _cmp(ctx, "lattice.angles", f"{tag}:compute_angles", aa, ab, 8 * tau / np.minimum(lu, lv) + 4 * EPS / np.maximum(np.sin(ang), 1e-3) + 1e-6,
         "periodic angles before/after lattice shifts", mask=good)
    b1, l1 = mi(quad[:, 0], quad[:, 1])
    b2, l2 = mi(quad[:, 1], quad[:, 2])
    b3, l3 = mi(quad[:, 2], quad[:, 3])
    s = np.minimum(np.sin(geom.angle_vec(-b1, b2)), np.sin(geom.angle_vec(-b2, b3)))
    lq = np.minimum.reduce([l1, l2, l3])
    goodq = (lq > 1e-3) & (np.maximum.reduce([l1, l2, l3]) < w / 2 - 4 * tau) & (s > 0.05)
    qa, qb = md.compute_dihedrals(ta, quad)[0], md.compute_dihedrals(tb, quad)[0]
    dd = circ(qa, qb)
    okq = (dd <= 16 * tau / (lq * np.maximum(s, 1e-9)) + 1e-5) | ~goodq
    if not okq.all():
        j = int(np.argmax(~okq))
        ctx.violation("lattice.dihedrals", f"{tag}:compute_dihedrals", f"periodic dihedral {qa[j]:.6f} vs {qb[j]:.6f} after lattice shifts")
    else:
        ctx.ok("lattice.dihedrals", int(goodq.sum()) or 1)
    # neighbours and neighbour list
    cutoff = float(rng.uniform(0.25, min(0.6, w / 2 - 0.01)))
    allraw = x0[:, None, :] - x0[sub][None, :, :]
    _, dall = geom.min_image(allraw, B)
    amb = {int(h) for h in range(t0.n_atoms) if np.any(np.abs(dall[h] - cutoff) <= 4 * tau + 1e-5)}
    rest = np.setdiff1d(np.arange(t0.n_atoms), sub)
    for hay, hname in ((None, "all atoms"), (rest, "explicit haystack without the query atoms")):
        if hay is not None and not len(hay):
            continue
        na_ = set(md.compute_neighbors(ta, cutoff, sub, haystack_indices=hay)[0].tolist())
        nb_ = set(md.compute_neighbors(tb, cutoff, sub, haystack_indices=hay)[0].tolist())
        diff = (na_ ^ nb_) - amb
        if diff:
            ctx.violation("lattice.neighbors", f"{tag}:compute_neighbors", f"periodic neighbour set ({hname}) changes after lattice shifts for atoms {sorted(diff)[:6]} (cutoff {cutoff:.3f}, K={K}, moved: {pattern})")
        else:
            ctx.ok("lattice.neighbors", t0.n_atoms - len(amb))
    try:
        la = md.compute_neighborlist(ta, cutoff)
        lb = md.compute_neighborlist(tb, cutoff)
        full = x0[:, None, :] - x0[None, :, :]
        _, dfull = geom.min_image(full, B)
        ambp = np.abs(dfull - cutoff) <= 4 * tau + 1e-5
        bad = []
        for i in range(t0.n_atoms):
            for j in set(int(v) for v in la[i]) ^ set(int(v) for v in lb[i]):
                if not ambp[i, j]:
                    bad.append((i, j, float(dfull[i, j])))
        if bad:
            ctx.violation("lattice.neighborlist", f"{tag}:compute_neighborlist:atoms-outside-primary-cell" if (K or np.any(whole)) else f"{tag}:compute_neighborlist",
                          f"neighbour list changes after lattice shifts: {len(bad)} pair memberships differ, e.g. (i,j,d) {bad[:3]} (cutoff {cutoff:.3f}, K={K}, cell {case['cell']})")
        else:
            ctx.ok("lattice.neighborlist", t0.n_atoms)
    except Exception as e:
        ctx.skip("lattice.neighborlist", f"compute_neighborlist raised {type(e).__name__}")
    if case["source"] == "protein":
        c0 = md.compute_contacts(ta, "all", scheme="ca", periodic=True)[0]
        c1 = md.compute_contacts(tb, "all", scheme="ca", periodic=True)[0]
        _cmp(ctx, "lattice.contacts", f"{tag}:compute_contacts(ca,periodic)", c0, c1, 4 * tau, "periodic CA contacts")
        _hbonds(ctx, ta, tb, x0, tau, "lattice", periodic=True)


# =====================================================================================================================
# Widening pass (appended stream; the 700 / 9000 cases above keep their numbers and seeds).  Same relations, same
# tolerance derivations (tau per frame), what is new is the INPUT CLASS:
#   rigid_multi    trajectories of 1..9 frames in which EVERY FRAME gets its own rotation and translation (one frame
#                  stays unmoved): an observable that takes anything from another frame (a centre, a reference, a
#                  buffer) is no longer invariant.  Rotations: random, exact axis permutations (90/180 degrees: matrix
#                  entries exactly 0 and +-1), tiny (1e-4 rad).  Observables added to the list of the first stream:
#                  neighbour list without cell, wernet_nilsson, contacts (closest, closest-heavy, sidechain-heavy),
#                  mass-weighted rg, principal moments / asphericity / acylindricity / relative shape anisotropy,
#                  inertia tensor eigenvalues, rmsd with atom_indices / to another frame of the same object /
#                  parallel=False, DRID with the default atom set, SASA and DSSP frame by frame of one call.
#   lattice_multi  periodic trajectories of 2..6 frames with per-frame cells (constant / all / one field / class change /
#                  late / alternating), per-frame per-atom lattice shifts up to +-20 cells (all atoms, or only a few), a
#                  whole-system translation; cell given as lengths+angles or as vectors; index tables in all containers.
#                  Observables: distances, displacements, angles, dihedrals, neighbours of every frame (default and
#                  explicit descending haystack), neighbour list of every frame, contacts (ca, closest-heavy),
#                  baker_hubbard, wernet_nilsson, find_closest_contact, compute_distances_t (constant cell).
WIDE_N = {"quick": 64, "thorough": 1800}
ROTS = ["random", "random", "axis", "tiny", "none"]
FLOORS["quick"].update({"rigidm.distances": 500, "rigidm.sasa": 1000, "rigidm.rmsd": 30, "latticem.distances": 500, "latticem.neighborlist": 25})


def _gen_wide(tier, seed):
    n0 = 700 if tier == "quick" else 9000
    for k in range(WIDE_N[tier]):
        i = n0 + k
        rng = common.rng_for("C09w", seed, i)
        kind = "rigid_multi" if rng.random() < 0.5 else "lattice_multi"
        yield dict(i=i, seed=common.case_seed(seed, "C09", i), kind=kind, w=1,
                   source=str(rng.choice(["protein", "protein", "lattice", "cluster"])),
                   n_frames=int(rng.choice([1, 2, 3, 3, 5, 9])) if kind == "rigid_multi" else int(rng.choice([2, 3, 4, 6])),
                   rot=str(rng.choice(ROTS)), mag=float(rng.choice([0.3, 3.0, 30.0, 300.0])),
                   cell=common.CELL_KINDS[int(rng.integers(len(common.CELL_KINDS)))], pf=str(rng.choice(["const", "const"] + common.PF_MODES)),
                   K=int(rng.choice([1, 1, 5, 20])), idx=str(rng.choice(common.INDEX_STYLES)), as_vectors=bool(rng.random() < 0.3))


def gen_cases(tier, seed):  # noqa: F811
    import itertools
    return common.with_asan_slice(itertools.chain(_gen_cases(tier, seed), _gen_wide(tier, seed)), ASAN_EVERY[tier])


def base_structure_multi(case, rng):
    """nf frames of one system: consecutive models of the NMR ensemble (jittered), or a jittered cluster / lattice"""
    import mdtraj as md
    nf = case["n_frames"]
    if case["source"] == "protein":
        repo = os.environ.get("VERIF_REPO", "/repo")
        t = md.load(os.path.join(repo, "tests/data/2EQQ.pdb"))
        nf = min(nf, 5)
        f0 = int(rng.integers(0, t.n_frames - nf + 1))
        x = t.xyz[f0:f0 + nf].astype(np.float64) + rng.normal(scale=0.003, size=(nf,) + t.xyz.shape[1:])
        x -= x.mean(axis=1, keepdims=True)
        return md.Trajectory(x.astype(np.float32), t.topology)
    one = base_structure(dict(case), rng)
    x = one.xyz[0].astype(np.float64)[None] + rng.normal(scale=0.01, size=(nf,) + one.xyz.shape[1:])
    return md.Trajectory(x.astype(np.float32), one.topology)


def _rotation(rng, kind):
    if kind == "none":
        return np.eye(3)
    if kind == "axis":  # proper rotations with entries exactly 0 / +-1
        while True:
            P = np.eye(3)[rng.permutation(3)] * rng.choice([-1.0, 1.0], 3)[:, None]
            if np.linalg.det(P) > 0 and not np.array_equal(P, np.eye(3)):
                return P
    if kind == "tiny":
        a = rng.normal(size=3)
        a /= np.linalg.norm(a)
        th = 1e-4
        Kx = np.array([[0, -a[2], a[1]], [a[2], 0, -a[0]], [-a[1], a[0], 0]])
        return np.eye(3) + np.sin(th) * Kx + (1 - np.cos(th)) * Kx @ Kx
    return common.random_rotation(rng)


def _pairsets(nl):
    return {(i, int(j)) for i, a in enumerate(nl) for j in a}


def rigid_multi(case, ctx, rng):
    import mdtraj as md
    t0 = base_structure_multi(case, rng)
    nf, na = t0.n_frames, t0.n_atoms
    x0 = t0.xyz.astype(np.float64)
    still = int(rng.integers(nf))
    Rs, Ts = [], []
    for f in range(nf):
        if f == still and nf > 1:
            Rs.append(np.eye(3))
            Ts.append(np.zeros(3))
            continue
        Rs.append(_rotation(rng, case["rot"]))
        d = rng.normal(size=3)
        Ts.append(d / np.linalg.norm(d) * case["mag"] * float(rng.choice([1.0, 1.0, 0.1, 0.0])))
    Rs, Ts = np.array(Rs), np.array(Ts)
    x1 = (np.einsum("fai,fji->faj", x0, Rs) + Ts[:, None, :]).astype(np.float32)
    t1 = md.Trajectory(x1, t0.topology)
    tau = np.array([tau_of(t0.xyz[f], x1[f]) for f in range(nf)])
    T1, T2 = tau[:, None], tau
    ctx.observe("wide.frames", nf)
    ctx.observe("wide.rotation", case["rot"])
    ctx.observe("translation_nm", case["mag"])
    pairs, trip, quad = _indices(t0, rng)
    tag = "rigid-multi"
    st = case["idx"]
    ctx.observe("wide.index_container", st)
    _cmp(ctx, "rigidm.distances", f"{tag}:compute_distances", md.compute_distances(t0, common.index_arg(pairs, st), periodic=False),
         md.compute_distances(t1, common.index_arg(pairs, st), periodic=False), 4 * T1, "distances before/after per-frame rigid motion")
    cond = [_angle_conditioning(x0[f], trip) for f in range(nf)]
    lmin, good = np.array([c[0] for c in cond]), np.array([c[1] for c in cond])
    a0, a1 = md.compute_angles(t0, common.index_arg(trip, st), periodic=False), md.compute_angles(t1, common.index_arg(trip, st), periodic=False)
    sin0 = np.maximum(np.sin(np.asarray(a0, np.float64)), 1e-3)
    _cmp(ctx, "rigidm.angles", f"{tag}:compute_angles", a0, a1, 8 * T1 / lmin + 4 * EPS / sin0 + 1e-6, "angles before/after per-frame rigid motion", mask=good)
    cq = [_dihedral_conditioning(x0[f], quad) for f in range(nf)]
    lq, goodq = np.array([c[0] for c in cq]), np.array([c[1] for c in cq])
    d0, d1 = md.compute_dihedrals(t0, common.index_arg(quad, st), periodic=False), md.compute_dihedrals(t1, common.index_arg(quad, st), periodic=False)
    okq = (circ(d0, d1) <= 16 * T1 / lq + 1e-5) | ~goodq
    if not okq.all():
        f, j = np.argwhere(~okq)[0]
        ctx.violation("rigidm.dihedrals", f"{tag}:compute_dihedrals", f"dihedral {d0[f, j]:.6f} vs {d1[f, j]:.6f} after per-frame rigid motion (frame {f})")
    else:
        ctx.ok("rigidm.dihedrals", int(goodq.sum()) or 1)
    # rmsd: invariant under independent rigid motions of target frames and reference
    ref0 = x0[0] + rng.normal(scale=0.05, size=x0[0].shape)
    Rr = _rotation(rng, "random")
    ref1 = (ref0 @ Rr.T + Ts[-1]).astype(np.float32)
    taur = max(tau.max(), tau_of(ref0.astype(np.float32), ref1))
    sub = np.sort(rng.choice(na, size=min(na, 20), replace=False))
    for label, kw in (("all-atoms", {}), ("atom_indices", dict(atom_indices=sub)), ("parallel=False", dict(parallel=False))):
        r0 = md.rmsd(md.Trajectory(t0.xyz.copy(), t0.topology), md.Trajectory(ref0[None].astype(np.float32), t0.topology), 0, **kw)
        r1 = md.rmsd(md.Trajectory(x1.copy(), t0.topology), md.Trajectory(ref1[None], t0.topology), 0, **kw)
        _cmp(ctx, "rigidm.rmsd", f"{tag}:rmsd({label})", r0, r1, 16 * taur + 1e-5, f"rmsd ({label}) to an independently moved reference")
    k = int(rng.integers(nf))
    ta, tb = md.Trajectory(t0.xyz.copy(), t0.topology), md.Trajectory(x1.copy(), t0.topology)
    ra, rb = md.rmsd(ta, ta, k), md.rmsd(tb, tb, k)
    # near RMSD = 0 (frame k against itself) the float32 kernel's error is one of the MEAN SQUARE deviation, eps32-relative to
    # the structures' own size G/N (C06's bound); in RMSD that is min(sqrt(e), e / rmsd), not a term linear in the coordinates
    xc = x0 - x0.mean(axis=1, keepdims=True)
    G = (xc ** 2).sum(axis=(1, 2))
    e_msd = 64 * EPS * (4 + na / 512.0) * (G + G[k]) / na
    tol_self = 16 * tau.max() + 1e-5 + np.minimum(np.sqrt(e_msd), e_msd / np.maximum(np.asarray(ra, np.float64), 1e-12))
    _cmp(ctx, "rigidm.rmsd", f"{tag}:rmsd(reference=self)", ra, rb, tol_self, "rmsd to a frame of the same object")
    _cmp(ctx, "rigidm.rg", f"{tag}:compute_rg", md.compute_rg(t0), md.compute_rg(t1), 4 * T2, "radius of gyration")
    masses = rng.uniform(1.0, 32.0, na)
    _cmp(ctx, "rigidm.rg", f"{tag}:compute_rg(masses)", md.compute_rg(t0, masses=masses), md.compute_rg(t1, masses=masses), 4 * T2, "mass-weighted radius of gyration")
    Rint = np.abs(x0 - x0.mean(axis=1, keepdims=True)).max(axis=(1, 2))
    etol = 3 * (2 * Rint * 4 * tau + (4 * tau) ** 2) + 1e-7
    e0 = np.sort(np.linalg.eigvalsh(md.compute_gyration_tensor(t0)), axis=1)
    e1 = np.sort(np.linalg.eigvalsh(md.compute_gyration_tensor(t1)), axis=1)
    _cmp(ctx, "rigidm.gyration", f"{tag}:gyration-tensor-eigenvalues", e0, e1, etol[:, None], "gyration tensor eigenvalues")
    _cmp(ctx, "rigidm.gyration", f"{tag}:principal_moments", np.sort(md.principal_moments(t0), axis=1), np.sort(md.principal_moments(t1), axis=1), etol[:, None], "principal moments")
    _cmp(ctx, "rigidm.gyration", f"{tag}:asphericity", md.asphericity(t0), md.asphericity(t1), 2 * etol, "asphericity")
    _cmp(ctx, "rigidm.gyration", f"{tag}:acylindricity", md.acylindricity(t0), md.acylindricity(t1), 2 * etol, "acylindricity")
    S = e0.sum(axis=1)
    _cmp(ctx, "rigidm.gyration", f"{tag}:relative_shape_anisotropy", md.relative_shape_antisotropy(t0), md.relative_shape_antisotropy(t1), 40 * etol / S, "relative shape anisotropy")
    m_el = np.array([a.element.mass for a in t0.topology.atoms])
    i0 = np.sort(np.linalg.eigvalsh(md.compute_inertia_tensor(t0)), axis=1)
    i1 = np.sort(np.linalg.eigvalsh(md.compute_inertia_tensor(t1)), axis=1)
    _cmp(ctx, "rigidm.inertia", f"{tag}:inertia-tensor-eigenvalues", i0, i1, (6 * m_el.sum() * (2 * Rint * 4 * tau + (4 * tau) ** 2) + 1e-6 * i0.max(axis=1))[:, None], "inertia tensor eigenvalues")
    # DRID (explicit subset and default atom set), frame by frame tolerances
    for label, ai in (("subset", sub), ("default", None)):
        rows = sub if ai is not None else np.arange(na)
        if ai is None and na > 80:
            continue
        dmin = np.empty(nf)
        for f in range(nf):
            D = np.linalg.norm(x0[f][rows][:, None] - x0[f][None], axis=-1)
            D[D == 0] = np.inf
            dmin[f] = D.min()
        try:
            g0 = md.compute_drid(t0, atom_indices=ai).reshape(nf, -1, 3)
            g1 = md.compute_drid(t1, atom_indices=ai).reshape(nf, -1, 3)
        except Exception as e:
            ctx.skip("rigidm.drid", f"compute_drid raised {type(e).__name__}")
            continue
        dx = (4 * tau / dmin ** 2)[:, None]
        xm = (1.0 / dmin)[:, None]
        _cmp(ctx, "rigidm.drid", f"{tag}:drid({label}):mean", g0[..., 0], g1[..., 0], dx + 1e-6 * xm, "DRID mean")
        _cmp(ctx, "rigidm.drid", f"{tag}:drid({label}):sigma^2", g0[..., 1] ** 2, g1[..., 1] ** 2, 4 * xm * dx + 1e-5 * xm ** 2, "DRID second moment")
        _cmp(ctx, "rigidm.drid", f"{tag}:drid({label}):nu^3", g0[..., 2] ** 3, g1[..., 2] ** 3, 6 * xm ** 2 * dx + 1e-5 * xm ** 3, "DRID third moment")
    # neighbours of every frame, neighbour list of every frame (no cell)
    cutoff = float(rng.uniform(0.3, 0.6))
    q = sub[:5]
    hay = np.sort(rng.choice(na, size=max(1, na // 2), replace=False))[::-1].copy()
    for hname, h in (("all atoms", None), ("explicit descending haystack", hay)):
        n0 = md.compute_neighbors(t0, cutoff, common.index_arg(q, st), haystack_indices=None if h is None else common.index_arg(h, st), periodic=False)
        n1 = md.compute_neighbors(t1, cutoff, common.index_arg(q, st), haystack_indices=None if h is None else common.index_arg(h, st), periodic=False)
        for f in range(nf):
            dq = np.linalg.norm(x0[f][:, None] - x0[f][q][None], axis=-1)
            amb = {int(a) for a in range(na) if np.any(np.abs(dq[a] - cutoff) <= 4 * tau[f] + 1e-5)}
            diff = (set(n0[f].tolist()) ^ set(n1[f].tolist())) - amb
            if diff:
                ctx.violation("rigidm.neighbors", f"{tag}:compute_neighbors", f"neighbour set ({hname}) of frame {f} changes under per-frame rigid motion for atoms {sorted(diff)[:6]} (cutoff {cutoff:.3f})")
            else:
                ctx.ok("rigidm.neighbors", na - len(amb))
            if not amb and not np.array_equal(n0[f], n1[f]):
                ctx.violation("rigidm.neighbors", f"{tag}:compute_neighbors:order", f"neighbours ({hname}) of frame {f} are reported in another order after the motion")
    for f in range(nf):
        try:
            la, lb = md.compute_neighborlist(t0, cutoff, frame=f, periodic=False), md.compute_neighborlist(t1, cutoff, frame=f, periodic=False)
        except Exception as e:
            ctx.skip("rigidm.neighborlist", f"compute_neighborlist raised {type(e).__name__}")
            break
        D = np.linalg.norm(x0[f][:, None] - x0[f][None], axis=-1)
        ambp = np.abs(D - cutoff) <= 4 * tau[f] + 1e-5
        bad = [(i, j, float(D[i, j])) for (i, j) in _pairsets(la) ^ _pairsets(lb) if not ambp[i, j]]
        if bad:
            ctx.violation("rigidm.neighborlist", f"{tag}:compute_neighborlist(no cell)", f"neighbour list of frame {f} changes under rigid motion: {len(bad)} memberships, e.g. (i,j,d) {bad[:3]} (cutoff {cutoff:.3f})")
        else:
            ctx.ok("rigidm.neighborlist", na)
    if case["source"] == "protein":
        nres = t0.topology.n_residues
        rp = np.array([p for p in rng.integers(0, nres, (80, 2)) if abs(p[0] - p[1]) >= 3][:40])
        for scheme in ("ca", "closest", "closest-heavy", "sidechain-heavy"):
            try:
                c0 = md.compute_contacts(t0, rp, scheme=scheme, periodic=False)[0]
                c1 = md.compute_contacts(t1, rp, scheme=scheme, periodic=False)[0]
            except Exception as e:
                ctx.skip("rigidm.contacts", f"compute_contacts({scheme}) raised {type(e).__name__}")
                continue
            _cmp(ctx, "rigidm.contacts", f"{tag}:compute_contacts({scheme})", c0, c1, 4 * T1, f"{scheme} contact distances")
        _hbonds_multi(ctx, t0, t1, x0, tau, "rigidm", None, tag)
        _dssp_multi(ctx, t0, t1, x0, tag)
    _sasa_multi(ctx, t0, t1, x0, x1.astype(np.float64), tau, [not np.array_equal(R, np.eye(3)) for R in Rs], tag, rng)


def _hb_geometry(x, d, h, a, Bf):
    vha, vhd, vda, vdh = x[a] - x[h], x[d] - x[h], x[a] - x[d], x[h] - x[d]
    if Bf is not None:
        vha, vhd, vda, vdh = (geom.min_image(v, Bf)[0] for v in (vha, vhd, vda, vdh))
    return vha, vhd, vda, vdh


def _hbonds_multi(ctx, t0, t1, x0, tau, mon, B, tag):
    """baker_hubbard(freq=0) over the whole trajectory and wernet_nilsson frame by frame; B None or (nf,3,3)"""
    import mdtraj as md
    periodic = B is not None
    nf = t0.n_frames
    try:
        h0 = {tuple(int(v) for v in r) for r in md.baker_hubbard(t0, freq=0.0, periodic=periodic)}
        h1 = {tuple(int(v) for v in r) for r in md.baker_hubbard(t1, freq=0.0, periodic=periodic)}
        bad = []
        for d, h, a in h0 ^ h1:
            excused = False
            for f in range(nf):
                vha, vhd, _, _ = _hb_geometry(x0[f], d, h, a, None if B is None else B[f])
                dist, ang = np.linalg.norm(vha), geom.angle_vec(vhd, vha)
                l = min(np.linalg.norm(vha), np.linalg.norm(vhd))
                if abs(dist - 0.25) <= 4 * tau[f] + 1e-5 or abs(ang - 2 * np.pi / 3) <= 8 * tau[f] / max(l, 1e-3) + 1e-5:
                    excused = True
            if not excused:
                bad.append((d, h, a))
        if bad:
            ctx.violation(f"{mon}.hbonds", f"{tag}:baker_hubbard", f"hydrogen-bond set of the trajectory changes under the per-frame transformation: (D,H,A) {bad[:3]}")
        else:
            ctx.ok(f"{mon}.hbonds", max(len(h0), 1))
    except Exception as e:
        ctx.skip(f"{mon}.hbonds", f"baker_hubbard raised {type(e).__name__}")
    try:
        w0, w1 = md.wernet_nilsson(t0, periodic=periodic), md.wernet_nilsson(t1, periodic=periodic)
    except Exception as e:
        ctx.skip(f"{mon}.hbonds", f"wernet_nilsson raised {type(e).__name__}")
        return
    for f in range(nf):
        s0 = {tuple(int(v) for v in r) for r in w0[f]}
        s1 = {tuple(int(v) for v in r) for r in w1[f]}
        bad = []
        for d, h, a in s0 ^ s1:
            _, _, vda, vdh = _hb_geometry(x0[f], d, h, a, None if B is None else B[f])
            rda = np.linalg.norm(vda)
            l = min(rda, np.linalg.norm(vdh))
            deg = np.degrees(geom.angle_vec(vda, vdh))
            ddeg = np.degrees(8 * tau[f] / max(l, 1e-3))
            if abs(rda - (0.33 - 0.000044 * deg ** 2)) <= 4 * tau[f] + 2 * 0.000044 * (deg + ddeg) * ddeg + 1e-5:
                continue
            bad.append((d, h, a, float(rda), float(deg)))
        if bad:
            ctx.violation(f"{mon}.hbonds", f"{tag}:wernet_nilsson", f"wernet_nilsson bonds of frame {f} change under the transformation: (D,H,A,r_DA,delta) {bad[:3]}")
        else:
            ctx.ok(f"{mon}.hbonds", max(len(s0), 1))


def _dssp_multi(ctx, t0, t1, x0, tag):
    import mdtraj as md
    s0, s1 = md.compute_dssp(t0, simplified=False), md.compute_dssp(t1, simplified=False)
    k0 = k1 = None
    ca = np.array([a.index for a in t0.topology.atoms if a.name == "CA"])
    for f in range(t0.n_frames):
        if np.array_equal(s0[f], s1[f]):
            ctx.ok("rigidm.dssp", len(s0[f]))
            continue
        if k0 is None:
            k0, k1 = md.kabsch_sander(t0), md.kabsch_sander(t1)
        same_pattern = (k0[f] != 0).toarray().tolist() == (k1[f] != 0).toarray().tolist()
        c = x0[f][ca]
        kappa = np.degrees(geom.angle_vec(c[2:-2] - c[:-4], c[4:] - c[2:-2]))
        if same_pattern and not bool(np.any(np.abs(kappa - 70.0) < 0.5)):
            j = int(np.argmax(s0[f] != s1[f]))
            ctx.violation("rigidm.dssp", f"{tag}:compute_dssp", f"DSSP codes of frame {f} change under the per-frame motion although the H-bond pattern is unchanged and no bend is near 70deg: residue {j} {s0[f][j]!r}->{s1[f][j]!r}")
        else:
            ctx.skip("rigidm.dssp", "an H-bond energy or bend angle sits at its threshold (pattern flipped legitimately)")


def _sasa_multi(ctx, t0, t1, x0, x1, tau, rotated, tag, rng):
    import mdtraj as md
    from mdtraj.geometry.sasa import _ATOMIC_RADII
    n = int([24, 60, 120][int(rng.integers(3))])
    try:
        s0 = md.shrake_rupley(t0, n_sphere_points=n).astype(np.float64)
        s1 = md.shrake_rupley(t1, n_sphere_points=n).astype(np.float64)
    except Exception as e:
        ctx.skip("rigidm.sasa", f"shrake_rupley raised {type(e).__name__}")
        return
    Rr = np.array([_ATOMIC_RADII[a.element.symbol] for a in t0.topology.atoms]) + 0.14
    P = golden_spiral(n)
    ctx.observe("sasa_points", n)
    for f in range(t0.n_frames):
        bound = np.zeros(len(Rr))
        for X in ((x0[f],) if not rotated[f] else (x0[f], x1[f])):
            D = np.linalg.norm(X[:, None] - X[None], axis=-1)
            for i in range(len(Rr)):
                nb = np.where((D[i] < Rr[i] + Rr + 0.05) & (np.arange(len(Rr)) != i))[0]
                if not len(nb):
                    continue
                pts = X[i] + Rr[i] * P
                m = np.linalg.norm(pts[:, None] - X[nb][None], axis=-1) - Rr[nb][None]
                band = (Rr[i] * np.sqrt(4 * np.pi / n)) if rotated[f] else (4 * tau[f] + 1e-5)
                bound[i] += np.sum(np.abs(m).min(axis=1) <= band)
        tol = (bound + 1) * (4 * np.pi * Rr ** 2 / n) + 1e-6
        _cmp(ctx, "rigidm.sasa", f"{tag}:shrake_rupley:{'rotation' if rotated[f] else 'translation'}", s0[f], s1[f], tol, f"per-atom SASA of frame {f} before/after")


def lattice_multi(case, ctx, rng):
    import mdtraj as md
    t0 = base_structure_multi(case, rng)
    nf, na = t0.n_frames, t0.n_atoms
    x0 = t0.xyz.astype(np.float64)
    ext = float(np.abs(x0).max()) * 2
    need = max(2 * ext + 0.5, 2.0)
    cells = [common.random_cell(rng, case["cell"])] * nf if case["pf"] == "const" else common.perframe_cells(rng, case["cell"], nf, case["pf"])
    wmin = min(common.cell_widths(common.cell_vectors64(l, a)).min() for l, a in cells)
    s = max(1.0, need / wmin) * float(rng.uniform(1.0, 1.3))
    L = np.array([c[0] * s for c in cells], dtype=np.float32)
    A = np.array([c[1] for c in cells], dtype=np.float32)
    ta = md.Trajectory(t0.xyz.copy(), t0.topology, unitcell_lengths=L, unitcell_angles=A)
    if case["as_vectors"]:
        ta.unitcell_vectors = ta.unitcell_vectors.astype(np.float64)
    ctx.observe("wide.cell_given_as", "vectors" if case["as_vectors"] else "lengths+angles")
    B = ta.unitcell_vectors.astype(np.float64)
    orth = np.all(ta.unitcell_angles == 90.0, axis=1)
    w = np.array([common.cell_widths(B[f]).min() for f in range(nf)])
    K = case["K"]
    sub = np.sort(rng.choice(na, size=min(na, 5), replace=False))
    pattern = "all" if rng.random() < 0.6 else "few"
    if pattern == "few":
        ta.xyz = (ta.xyz.astype(np.float64) + (B.sum(axis=1) / 2)[:, None, :]).astype(np.float32)
        x0 = ta.xyz.astype(np.float64)
        n = np.zeros((nf, na, 3))
        for f in range(nf):
            movers = sub[: int(rng.integers(1, len(sub) + 1))]
            n[f, movers] = rng.integers(-K, K + 1, (len(movers), 3))
        whole = np.zeros(3)
    else:
        n = rng.integers(-K, K + 1, (nf, na, 3)).astype(np.float64)
        whole = rng.uniform(-1, 1, 3) * case["mag"] if rng.random() < 0.5 else np.zeros(3)
    xb = (x0 + np.einsum("fai,fij->faj", n, B) + whole).astype(np.float32)
    tb = md.Trajectory(xb, t0.topology, unitcell_lengths=ta.unitcell_lengths.copy(), unitcell_angles=ta.unitcell_angles.copy())
    tau = np.array([tau_of(ta.xyz[f], xb[f]) + 16 * EPS * np.linalg.norm(B[f], axis=1).max() for f in range(nf)])
    T1 = tau[:, None]
    for k_, v_ in (("cell", case["cell"]), ("wide.per_frame_cells", case["pf"]), ("wide.frames", nf), ("lattice_shift_cells", K), ("lattice_shift_pattern", pattern),
                   ("whole_translation", bool(np.any(whole))), ("wide.index_container", case["idx"]),
                   ("wide.kernel", "ortho" if orth.all() else ("mixed" if orth.any() else "triclinic"))):
        ctx.observe(k_, v_)
    st = case["idx"]
    pairs, trip, quad = _indices(t0, rng)
    tag = "lattice-multi"
    raw = x0[:, pairs[:, 1]] - x0[:, pairs[:, 0]]
    dmin = geom.min_image_batch(raw, B)[1]
    indom = dmin < (w / 2 - 4 * tau)[:, None]
    dom = np.where(orth[:, None], True, indom)
    da, db = md.compute_distances(ta, common.index_arg(pairs, st)), md.compute_distances(tb, common.index_arg(pairs, st))
    ok = (np.abs(da - db) <= 4 * T1) | ~dom
    if not ok.all():
        f, j = np.argwhere(~ok)[0]
        ctx.violation("latticem.distances", f"{tag}:compute_distances", f"minimum-image distance {da[f, j]:.6g} vs {db[f, j]:.6g} after lattice shifts (frame {f}, K={K}, cells {case['cell']}/{case['pf']})")
    else:
        ctx.ok("latticem.distances", int(dom.sum()) or 1)
    if (~dom).any():
        ctx.skip("latticem.distances", "skewed cell and d_min >= w_min/2", int((~dom).sum()))
    va, vb = md.compute_displacements(ta, common.index_arg(pairs, st)).astype(np.float64), md.compute_displacements(tb, common.index_arg(pairs, st)).astype(np.float64)
    resid = np.linalg.norm(va - vb, axis=-1)
    okv = (resid <= 8 * T1) | ~indom
    if not okv.all():
        f, j = np.argwhere(~okv)[0]
        ctx.violation("latticem.displacements", f"{tag}:compute_displacements", f"minimum-image displacement of frame {f} changes by {resid[f, j]:.4g} after lattice shifts")
    else:
        ctx.ok("latticem.displacements", int(indom.sum()) or 1)

    def mi(i, j):
        return geom.min_image_batch(x0[:, j] - x0[:, i], B)
    u, lu = mi(trip[:, 1], trip[:, 0])
    v, lv = mi(trip[:, 1], trip[:, 2])
    ang = geom.angle_vec(u, v)
    lim = (w / 2 - 4 * tau)[:, None]
    good = (np.minimum(lu, lv) > 1e-3) & (np.maximum(lu, lv) < lim) & (ang > 1e-2) & (ang < np.pi - 1e-2)
    aa, ab = md.compute_angles(ta, common.index_arg(trip, st)), md.compute_angles(tb, common.index_arg(trip, st))
    _cmp(ctx, "latticem.angles", f"{tag}:compute_angles", aa, ab, 8 * T1 / np.minimum(lu, lv) + 4 * EPS / np.maximum(np.sin(ang), 1e-3) + 1e-6,
         "periodic angles before/after lattice shifts", mask=good)
    b1, l1 = mi(quad[:, 0], quad[:, 1])
    b2, l2 = mi(quad[:, 1], quad[:, 2])
    b3, l3 = mi(quad[:, 2], quad[:, 3])
    sn = np.minimum(np.sin(geom.angle_vec(-b1, b2)), np.sin(geom.angle_vec(-b2, b3)))
    lq = np.minimum.reduce([l1, l2, l3])
    goodq = (lq > 1e-3) & (np.maximum.reduce([l1, l2, l3]) < lim) & (sn > 0.05)
    qa, qb = md.compute_dihedrals(ta, common.index_arg(quad, st)), md.compute_dihedrals(tb, common.index_arg(quad, st))
    okq = (circ(qa, qb) <= 16 * T1 / (lq * np.maximum(sn, 1e-9)) + 1e-5) | ~goodq
    if not okq.all():
        f, j = np.argwhere(~okq)[0]
        ctx.violation("latticem.dihedrals", f"{tag}:compute_dihedrals", f"periodic dihedral {qa[f, j]:.6f} vs {qb[f, j]:.6f} after lattice shifts (frame {f})")
    else:
        ctx.ok("latticem.dihedrals", int(goodq.sum()) or 1)
    # neighbours of every frame / neighbour list of every frame
    cutoff = float(rng.uniform(0.4, 0.95) * min(0.6, w.min() / 2 - 0.01))
    rest = np.setdiff1d(np.arange(na), sub)[::-1].copy()
    dall = geom.min_image_batch(x0[:, :, None, :].reshape(nf, -1, 1, 3)[:, :, 0, :].repeat(len(sub), axis=1) - np.tile(x0[:, sub], (1, na, 1)), B)[1].reshape(nf, na, len(sub))
    for hay, hname in ((None, "all atoms"), (rest, "explicit descending haystack without the query atoms")):
        if hay is not None and not len(hay):
            continue
        na_ = md.compute_neighbors(ta, cutoff, common.index_arg(sub, st), haystack_indices=None if hay is None else common.index_arg(hay, st))
        nb_ = md.compute_neighbors(tb, cutoff, common.index_arg(sub, st), haystack_indices=None if hay is None else common.index_arg(hay, st))
        for f in range(nf):
            amb = {int(h) for h in range(na) if np.any(np.abs(dall[f, h] - cutoff) <= 4 * tau[f] + 1e-5)}
            diff = (set(na_[f].tolist()) ^ set(nb_[f].tolist())) - amb
            if diff:
                ctx.violation("latticem.neighbors", f"{tag}:compute_neighbors", f"periodic neighbour set ({hname}) of frame {f} changes after lattice shifts for atoms {sorted(diff)[:6]} (cutoff {cutoff:.3f}, K={K}, moved: {pattern})")
            else:
                ctx.ok("latticem.neighbors", na - len(amb))
    for f in range(nf):
        try:
            la, lb = md.compute_neighborlist(ta, cutoff, frame=f), md.compute_neighborlist(tb, cutoff, frame=f)
        except Exception as e:
            ctx.skip("latticem.neighborlist", f"compute_neighborlist raised {type(e).__name__}")
            break
        dfull = geom.min_image(x0[f][:, None, :] - x0[f][None, :, :], B[f])[1]
        ambp = np.abs(dfull - cutoff) <= 4 * tau[f] + 1e-5
        bad = [(i, j, float(dfull[i, j])) for (i, j) in _pairsets(la) ^ _pairsets(lb) if not ambp[i, j]]
        if bad:
            ctx.violation("latticem.neighborlist", f"{tag}:compute_neighborlist(frame=f)", f"neighbour list of frame {f} changes after lattice shifts: {len(bad)} memberships, e.g. (i,j,d) {bad[:3]} (cutoff {cutoff:.3f}, K={K}, cell {case['cell']}/{case['pf']})")
        else:
            ctx.ok("latticem.neighborlist", na)
    # closest contact between two groups, frame by frame (the distance; the pair may tie)
    perm = rng.permutation(na)
    g1, g2 = perm[: max(1, na // 3)], perm[max(1, na // 3): max(2, 2 * na // 3)]
    for f in range(nf):
        ca_, cb_ = md.find_closest_contact(ta, common.index_arg(g1, st), common.index_arg(g2, st), frame=f), md.find_closest_contact(tb, common.index_arg(g1, st), common.index_arg(g2, st), frame=f)
        if not orth[f] and not min(ca_[2], cb_[2]) < w[f] / 2 - 4 * tau[f]:
            ctx.skip("latticem.closest_contact", "skewed cell and closest distance >= w_min/2")
            continue
        ctx.check(abs(ca_[2] - cb_[2]) <= 4 * tau[f], "latticem.closest_contact", f"{tag}:find_closest_contact", f"closest-contact distance of frame {f}: {ca_[2]:.6g} vs {cb_[2]:.6g} after lattice shifts")
    if case["pf"] == "const" and nf > 1:
        times = rng.integers(0, nf, (6, 2))
        rawt = x0[times[:, 1]][:, pairs[:, 1]] - x0[times[:, 0]][:, pairs[:, 0]]
        dmt = geom.min_image_batch(rawt, B[times[:, 0]])[1]
        domt = np.ones_like(dmt, bool) if orth.all() else dmt < (w.min() / 2 - 8 * tau.max())
        xa, xb_ = md.compute_distances_t(ta, pairs, times), md.compute_distances_t(tb, pairs, times)
        okt = (np.abs(xa - xb_) <= 8 * tau.max()) | ~domt
        if not okt.all():
            k, j = np.argwhere(~okt)[0]
            ctx.violation("latticem.distances_t", f"{tag}:compute_distances_t", f"time-pair distance {xa[k, j]:.6g} vs {xb_[k, j]:.6g} after lattice shifts (times {times[k].tolist()})")
        else:
            ctx.ok("latticem.distances_t", int(domt.sum()) or 1)
    if case["source"] == "protein":
        nres = t0.topology.n_residues
        rp = np.array([p for p in rng.integers(0, nres, (80, 2)) if abs(p[0] - p[1]) >= 3][:40])
        for scheme in ("ca", "closest-heavy"):
            c0 = md.compute_contacts(ta, rp, scheme=scheme, periodic=True)[0]
            c1 = md.compute_contacts(tb, rp, scheme=scheme, periodic=True)[0]
            _cmp(ctx, "latticem.contacts", f"{tag}:compute_contacts({scheme},periodic)", c0, c1, 4 * T1, f"periodic {scheme} contacts")
        _hbonds_multi(ctx, ta, tb, x0, tau, "latticem", B, tag)


_run_case_original = run_case


def run_case(case, ctx):  # noqa: F811
    if case.get("w"):
        rng = common.rng_for("C09w", case["seed"])
        ctx.observe("source", case["source"])
        ctx.observe("kind", case["kind"])
        return rigid_multi(case, ctx, rng) if case["kind"] == "rigid_multi" else lattice_multi(case, ctx, rng)
    return _run_case_original(case, ctx)
