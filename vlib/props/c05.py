"""C05 — periodic distances and displacements are true minimum-image values.

Monitor: differential oracle (float64 reduced-basis brute force over lattice images) observing the real
compute_distances / compute_displacements / compute_distances_t / compute_distances_core / find_closest_contact."""
from __future__ import annotations

import numpy as np

from vlib.gen import common
from vlib.oracle import geom

PROPERTY = "C05"
LEVEL = "exploration"
NATIVE = ["mdtraj.geometry._geometry"]
RULE = ("cases = (entry point, cell class, placement, pair list) drawn from a seeded stream; positions are generated as "
        "near neighbours then scattered by per-atom lattice shifts of up to +-K cells; a case is non-trivial when at "
        "least one monitor decided (compared against the float64 image search); distinct = distinct case descriptors; "
        "a second stream (kind=wide) varies what the first holds fixed: index containers/dtypes/layouts, pair-list shapes "
        "and sizes at SIMD widths, truthy periodic flags, trajectories derived from longer ones, 100-300 frames with "
        "five per-frame cell patterns, cell scales 2^-6..2^8, compute_distances_core argument types, time-pair list "
        "shapes, group shapes of find_closest_contact, edit histories on one Trajectory object")
WORKERS = {"quick": 8, "thorough": 16}
BUDGET = {"quick": 60, "thorough": 900}
FLOORS = {"quick": {"mic.min-image": 500, "mic.lattice-congruence": 500, "opt-vs-ref": 100, "distances_t": 50,
                    "closest_contact": 20, "plain": 50}}
KINDS = ["mic", "mic", "mic", "t", "closest", "plain", "core"]
NCASES = {"quick": 7000, "thorough": 24000}


ASAN_EVERY = {"quick": 25, "thorough": 6}
GROUPS = {"quick": [dict(name="asan", flavour="asan", workers=1)], "thorough": [dict(name="asan", flavour="asan", workers=3)]}


def gen_cases(tier, seed):
    return common.with_asan_slice(_gen_cases(tier, seed), ASAN_EVERY[tier])


def _gen_cases(tier, seed):
    n = NCASES[tier]
    for i in range(n):
        rng = common.rng_for("C05", seed, i)
        kind = KINDS[i % len(KINDS)]
        kinds_ = common.CELL_KINDS + ["near_ortho"]
        cell = kinds_[(i // len(KINDS)) % len(kinds_)]
        c = dict(i=i, seed=common.case_seed(seed, "C05", i), kind=kind, cell=cell,
                 spread=int(rng.choice([0, 0, 1, 3, 10, 50])), perframe=bool(rng.random() < 0.3),
                 n_frames=int(rng.integers(1, 6)), n_atoms=int(rng.integers(2, 40)))
        if i % 280 == 279:
            # large requests: thousands of pairs over tens of frames (block / chunk / vector-width boundaries of the kernels)
            c.update(n_frames=int(rng.choice([9, 17, 33])), n_atoms=int(rng.choice([257, 600, 1500])),
                     n_pairs=int(rng.choice([1023, 4096, 4099])))
        yield c


def _build(case):
    import mdtraj as md
    rng = common.rng_for("C05case", case["seed"])
    nf, na = case["n_frames"], case["n_atoms"]
    perframe = case["perframe"]
    def one_cell():
        if case["cell"] == "near_ortho":
            # a skewed cell whose angles differ from 90 by less than a thousandth of a degree (e.g. the first steps of a
            # continuous box deformation): still a triclinic lattice, the skew adds up over many cells
            l, a = common.random_cell(rng, "ortho")
            a = a.copy()
            for k in rng.choice(3, size=int(rng.integers(1, 4)), replace=False):
                a[k] = 90.0 + float(rng.choice([-1, 1])) * float(rng.uniform(1e-4, 8e-4))
            return l, a
        return common.random_cell(rng, case["cell"])
    # per-frame variation comes in three flavours: everything changes; only ONE length or angle changes from frame to
    # frame (semi-isotropic / constant-area pressure coupling: kernels that cache per-frame work must not key it on a
    # part of the cell); or the cell CLASS changes along the trajectory (orthorhombic first, skewed later: joined runs)
    pf_mode = int(rng.integers(0, 3)) if perframe else 0
    if not perframe:
        cells = [one_cell()]
    elif pf_mode == 0:
        cells = [one_cell() for _ in range(nf)]
    elif pf_mode == 1:
        l0, a0 = one_cell()
        cells = []
        which = int(rng.integers(0, 6))
        for f in range(nf):
            l, a = l0.copy(), a0.copy()
            if which < 3:
                l[which] = l0[which] * (1 + 0.05 * f)
            elif not np.all(a0 == 90.0):
                k = which - 3
                if a0[k] != 90.0:
                    a[k] = a0[k] + 0.7 * f if common.cell_valid(np.where(np.arange(3) == k, a0[k] + 0.7 * f, a0)) else a0[k]
                else:
                    l[k] = l0[k] * (1 + 0.05 * f)
            else:
                l[which - 3] = l0[which - 3] * (1 + 0.03 * f)
            cells.append((l, a))
    else:
        first = common.random_cell(rng, "ortho" if rng.random() < 0.7 else case["cell"])
        cells = [first] + [one_cell() if rng.random() < 0.7 else common.random_cell(rng, "ortho") for _ in range(nf - 1)]
    if not perframe:
        cells = cells * nf
    L = np.array([c[0] for c in cells], dtype=np.float32)
    A = np.array([c[1] for c in cells], dtype=np.float32)
    top = common.simple_topology(na)
    t = md.Trajectory(np.zeros((nf, na, 3), np.float32), top, unitcell_lengths=L, unitcell_angles=A)
    B = t.unitcell_vectors.astype(np.float64)  # the lattice the trajectory reports (C17 checks it against L/A)
    xyz = np.zeros((nf, na, 3))
    K = case["spread"]
    for f in range(nf):
        w = common.cell_widths(B[f])
        frac = rng.uniform(0, 1, (na, 3))
        placement = rng.integers(0, 4)
        if placement == 1:  # clustered: neighbours well inside w_min/2
            centre = rng.uniform(0, 1, 3) @ B[f]
            pos = centre + rng.normal(scale=w.min() * 0.12, size=(na, 3))
        elif placement == 2:  # on faces / exact fractions
            frac = np.round(frac * 4) / 4
            pos = frac @ B[f]
        else:
            pos = frac @ B[f]
        if K:
            pos = pos + rng.integers(-K, K + 1, (na, 3)).astype(np.float64) @ B[f]
        xyz[f] = pos
    t.xyz = xyz.astype(np.float32)
    # pair list: random, repeated, i==j
    npairs = case.get("n_pairs") or int(rng.integers(1, 40))
    pairs = rng.integers(0, na, (npairs, 2))
    if rng.random() < 0.3:
        pairs = np.vstack([pairs, pairs[:2], [[0, 0]]])
    return t, B, pairs.astype(np.int64), rng


def _tau(x32, B, K):
    M = float(np.abs(x32).max()) if x32.size else 0.0
    Lmax = float(np.linalg.norm(B, axis=-1).max())
    return 16 * geom.EPS32 * (M + K * Lmax + Lmax) + 1e-7


def _orth(t):
    return bool(np.all(t.unitcell_angles == 90.0))


def run_case(case, ctx):
    import mdtraj as md
    from mdtraj.geometry import distance as mdist
    t, B, pairs, rng = _build(case)
    kind = case["kind"]
    x64 = t.xyz.astype(np.float64)
    nf = t.n_frames
    orth = _orth(t)
    ctx.observe("cell", case["cell"])
    ctx.observe("kind", kind)
    ctx.observe("spread_cells", case["spread"])
    ctx.observe("per_frame_cells", bool(case["perframe"]))
    if case.get("n_pairs"):
        ctx.observe("large_request", "%d frames x %d pairs" % (case["n_frames"], case["n_pairs"]))
    tau = _tau(t.xyz, B, case["spread"])

    def judge_dist(name, d, f_idx, raw, Bf, label):
        """d: reported distances for raw displacement vectors raw (float64) in lattice Bf"""
        vmin, dmin = geom.min_image(raw, Bf)
        w = common.cell_widths(Bf).min()
        below = d < dmin - tau
        if below.any():
            j = int(np.argmax(below))
            ctx.violation(name, f"{label}:distance-below-minimum-image", f"{label}: reported {d[j]:.6g} < minimum image {dmin[j]:.6g}",
                          frame=f_idx, raw=raw[j], cell=Bf, tau=tau)
        else:
            ctx.ok(name + ".never-below", len(d))
        dom = np.ones(len(d), bool) if orth else (dmin < w / 2 - tau)
        bad = dom & (np.abs(d - dmin) > tau)
        if bad.any():
            j = int(np.argmax(bad))
            ctx.violation(name, f"{label}:not-minimum-image{'-ortho' if orth else '-triclinic'}",
                          f"{label}: reported {d[j]:.6g}, minimum image {dmin[j]:.6g} (tau {tau:.2g}, w_min/2 {w/2:.4g})",
                          frame=f_idx, raw=raw[j], cell=Bf, tau=tau)
        ctx.ok("mic.min-image", int(dom.sum() - bad.sum()))
        if (~dom).any():
            ctx.skip("mic.min-image", "skewed cell and d_min >= w_min/2 (outside the stated domain)", int((~dom).sum()))
        return dmin, dom

    if kind in ("mic", "core"):
        if kind == "core":
            # unreduced (but valid lower-triangular) description of the same lattice
            Bu = B.copy()
            for f in range(nf):
                k1, k2, k3 = rng.integers(-2, 3, 3)
                Bu[f, 2] = Bu[f, 2] + k1 * Bu[f, 1] + k2 * Bu[f, 0]
                Bu[f, 1] = Bu[f, 1] + k3 * Bu[f, 0]
            Bu32 = Bu.astype(np.float32)
            d = mdist.compute_distances_core(t.xyz, pairs, unitcell_vectors=Bu32, periodic=True, opt=True)
            disp = None
            Bl = Bu32.astype(np.float64)
            ctx.observe("entry", "compute_distances_core(unreduced vectors)")
            orth = bool(np.allclose(Bu32[:, [0, 0, 1, 1, 2, 2], [1, 2, 0, 2, 0, 1]], 0))
        else:
            d = md.compute_distances(t, pairs, periodic=True, opt=True)
            disp = md.compute_displacements(t, pairs, periodic=True, opt=True)
            Bl = B
            ctx.observe("entry", "compute_distances+compute_displacements(opt)")
        if d.shape != (nf, len(pairs)):
            ctx.violation("shape", "distances:shape", f"shape {d.shape} expected {(nf, len(pairs))}")
            return
        for f in range(nf):
            raw = x64[f, pairs[:, 1]] - x64[f, pairs[:, 0]]
            dmin, dom = judge_dist("mic", d[f].astype(np.float64), f, raw, Bl[f], kind)
            if disp is not None:
                v = disp[f].astype(np.float64)
                r = v - raw
                n = np.round(r @ np.linalg.inv(Bl[f]))
                resid = np.linalg.norm(r - n @ Bl[f], axis=1)
                bad = resid > tau
                if bad.any():
                    j = int(np.argmax(bad))
                    ctx.violation("mic.lattice-congruence", "displacement:not-lattice-shift",
                                  f"displacement differs from x2-x1 by a non-lattice vector (residual {resid[j]:.3g} > {tau:.2g})",
                                  frame=f, raw=raw[j], disp=v[j], cell=Bl[f])
                ctx.ok("mic.lattice-congruence", int((~bad).sum()))
                bad = np.abs(np.linalg.norm(v, axis=1) - d[f]) > tau
                if bad.any():
                    j = int(np.argmax(bad))
                    ctx.violation("mic.dist-is-norm", "distance-not-norm-of-displacement",
                                  f"|displacement| {np.linalg.norm(v[j]):.6g} != distance {d[f, j]:.6g}", frame=f)
                ctx.ok("mic.dist-is-norm", int((~bad).sum()))
                same = pairs[:, 0] == pairs[:, 1]
                if same.any():
                    ctx.check(bool(np.all(np.abs(d[f][same]) <= tau)), "mic.self-pair", "self-pair-nonzero",
                              "distance of an atom to itself is not 0")
        if kind == "mic":
            # reference path on a small sub-list (pure python, slow)
            sub = pairs[: min(len(pairs), 12)]
            dref = md.compute_distances(t, sub, periodic=True, opt=False)
            vref = md.compute_displacements(t, sub, periodic=True, opt=False)
            dopt = d[:, : len(sub)]
            for f in range(nf):
                raw = x64[f, sub[:, 1]] - x64[f, sub[:, 0]]
                dmin, dom = judge_dist("ref", dref[f].astype(np.float64), f, raw, B[f], "opt=False")
                bad = dom & (np.abs(dref[f] - dopt[f]) > 2 * tau)
                if bad.any():
                    j = int(np.argmax(bad))
                    ctx.violation("opt-vs-ref", "opt-vs-ref:distance", f"opt {dopt[f, j]:.6g} vs ref {dref[f, j]:.6g}", frame=f)
                ctx.ok("opt-vs-ref", int((dom & ~bad).sum()))
                r = vref[f].astype(np.float64) - raw
                n = np.round(r @ np.linalg.inv(B[f]))
                resid = np.linalg.norm(r - n @ B[f], axis=1)
                if (resid > tau).any():
                    ctx.violation("ref.lattice-congruence", "opt=False:displacement:not-lattice-shift",
                                  f"reference-path displacement is not a lattice shift of x2-x1 (residual {resid.max():.3g})", frame=f)
                else:
                    ctx.ok("ref.lattice-congruence", len(sub))
        # empty pair list
        e = md.compute_distances(t, np.zeros((0, 2), int))
        ctx.check(e.shape == (nf, 0), "empty-pairs", "empty-pairs:shape", f"empty pair list gives shape {e.shape}")

    elif kind == "t":
        ntp = int(rng.integers(1, 8))
        times = rng.integers(0, nf, (ntp, 2))
        by_opt = {}
        for opt in (True, False):
            sub = pairs if opt else pairs[:8]
            d = md.compute_distances_t(t, sub, times, periodic=True, opt=opt)
            if d.shape != (ntp, len(sub)):
                ctx.violation("distances_t", "distances_t:shape", f"shape {d.shape}")
                continue
            by_opt[opt] = d
            for k, (a, b) in enumerate(times):
                raw = x64[b, sub[:, 1]] - x64[a, sub[:, 0]]
                # The documentation does not say which frame's cell a time pair uses (the code comments say: the first);
                # a value is accepted if it is the minimum image under the cell of either frame of the pair.
                okk = np.zeros(len(sub), bool)
                domk = np.ones(len(sub), bool)
                for fr in {int(a), int(b)}:
                    vmin, dmin = geom.min_image(raw, B[fr])
                    w = common.cell_widths(B[fr]).min()
                    dom = np.ones(len(sub), bool) if orth else (dmin < w / 2 - tau)
                    domk &= dom
                    okk |= np.abs(d[k] - dmin) <= tau
                bad = domk & ~okk
                if bad.any():
                    j = int(np.argmax(bad))
                    ctx.violation("distances_t", f"distances_t:opt={opt}:not-minimum-image-in-either-frames-cell",
                                  f"distances_t(opt={opt}) {d[k, j]:.6g} for time pair ({a},{b}) is not the minimum image under the cell of frame {a} or {b}",
                                  times=[int(a), int(b)], perframe_cells=bool(case["perframe"]))
                ctx.ok("distances_t", int((domk & ~bad).sum()))
                if (~domk).any():
                    ctx.skip("distances_t", "skewed cell and d_min >= w_min/2", int((~domk).sum()))
            # non periodic variant
            d0 = md.compute_distances_t(t, sub, times, periodic=False, opt=opt)
            for k, (a, b) in enumerate(times):
                ref = np.linalg.norm(x64[b, sub[:, 1]] - x64[a, sub[:, 0]], axis=1)
                bad = np.abs(d0[k] - ref) > tau
                if bad.any():
                    ctx.violation("distances_t.plain", f"distances_t:opt={opt}:plain", f"non-periodic distances_t {d0[k][bad][0]:.6g} vs {ref[bad][0]:.6g}")
                ctx.ok("distances_t.plain", int((~bad).sum()))

        if True in by_opt and False in by_opt:
            n8 = by_opt[False].shape[1]
            bad = np.abs(by_opt[True][:, :n8] - by_opt[False]) > 2 * tau
            if orth and bad.any():
                k, j = np.argwhere(bad)[0]
                ctx.violation("distances_t.opt-vs-ref", "distances_t:opt-vs-ref", f"distances_t opt {by_opt[True][k, j]:.6g} vs reference path {by_opt[False][k, j]:.6g} "
                              f"for time pair {times[k].tolist()}", perframe_cells=bool(case["perframe"]))
            elif orth:
                ctx.ok("distances_t.opt-vs-ref", int(bad.size))

    elif kind == "closest":
        na = t.n_atoms
        if na < 2:
            ctx.skip("closest_contact", "fewer than two atoms")
            return
        perm = rng.permutation(na)
        k = int(rng.integers(1, na))
        g1, g2 = np.sort(perm[:k]), np.sort(perm[k:])
        f = int(rng.integers(0, nf))
        for periodic in (True, False):
            a1, a2, dist = md.find_closest_contact(t, g1, g2, frame=f, periodic=periodic)
            P = np.array([(i, j) for i in g1 for j in g2])
            raw = x64[f, P[:, 1]] - x64[f, P[:, 0]]
            if periodic:
                _, dall = geom.min_image(raw, B[f])
                w = common.cell_widths(B[f]).min()
                if not orth and not dall.min() < w / 2 - tau:
                    ctx.skip("closest_contact", "skewed cell and closest distance >= w_min/2")
                    continue
            else:
                dall = np.linalg.norm(raw, axis=1)
            okd = abs(dist - dall.min()) <= tau
            idx = np.where((P[:, 0] == a1) & (P[:, 1] == a2))[0]
            okp = len(idx) == 1 and dall[idx[0]] <= dall.min() + 2 * tau
            ctx.check(okd and okp, "closest_contact", f"closest_contact:periodic={periodic}:not-argmin",
                      f"find_closest_contact -> ({a1},{a2},{dist:.6g}); true minimum {dall.min():.6g}", frame=f)

    elif kind == "plain":
        tn = md.Trajectory(t.xyz, t.topology)  # no cell
        for label, tr, periodic in (("no-cell", tn, True), ("periodic=False", t, False)):
            for opt in (True, False):
                d = md.compute_distances(tr, pairs, periodic=periodic, opt=opt)
                v = md.compute_displacements(tr, pairs, periodic=periodic, opt=opt)
                raw = x64[:, pairs[:, 1]] - x64[:, pairs[:, 0]]
                ref = np.linalg.norm(raw, axis=-1)
                bad = np.abs(d - ref) > tau
                badv = np.abs(v - raw).max(axis=-1) > tau
                if bad.any() or badv.any():
                    ctx.violation("plain", f"plain:{label}:opt={opt}", f"{label} opt={opt}: distance/displacement is not the plain Euclidean value "
                                  f"(max err {np.abs(d - ref).max():.3g})")
                else:
                    ctx.ok("plain", d.size)


# =====================================================================================================================
# Widening pass: input classes the stream above never produced.  Same oracle (float64 image search of geom.min_image),
# same tolerance tau.  Cases are appended AFTER the original stream (descriptor kind "wide"), the original cases keep
# their numbers and seeds.
#   args     index tables as int32 / list / tuple / strided view / Fortran order / int16, pair lists of one row, SIMD-width
#            sizes, thousands of rows, descending, chained, repeated, self pairs only; periodic given as np.True_ / 1 /
#            np.False_ / 0; trajectory cut out of a longer one (copy or view), every other frame, atom subset, joined,
#            float64 coordinates assigned, cell assigned as vectors; 1 atom; cells of 0.02 nm and of 1500 nm
#   core     compute_distances_core with float64 / strided / Fortran positions, float64 vectors, vectors=None,
#            periodic=False with vectors, opt=False, reduced and unreduced vectors
#   long     100..300 frames with per-frame cells (all / one field / class change / only the last frames / alternating)
#            for distances, displacements, distances_t and find_closest_contact(frame=late)
#   tvar     compute_distances_t: time pairs a==b, a>b, repeated, thousands, int32 / list / tuple / view, empty lists
#   closest  find_closest_contact: unsorted, overlapping, one-atom and large groups, containers, periodic truthy
#   history  the same Trajectory object across calls: compute, edit xyz / cell (setter or in place), compute again
#   big      (thorough) more than 2^24 distances behind one call
# A frame whose own cell is rectangular is judged for every separation even when other frames of the trajectory are
# skewed (the statement's domain is per cell).
WIDE_SUBS = ["args", "args", "args", "core", "long", "tvar", "closest", "history", "args", "core", "tvar", "closest"]
NWIDE = {"quick": 960, "thorough": 7200}
PAIR_SHAPES = ["random", "one", "simd", "desc", "chain", "repeat", "self", "allpairs", "thousands"]
PERIODIC_TRUE = [True, "np.True_", 1]
PERIODIC_FALSE = [False, "np.False_", 0]
FLOORS["quick"].update({"wide.min-image": 20000, "wide.lattice-congruence": 8000, "wide.plain": 3000, "wide.distances_t": 3000,
                        "wide.closest_contact": 100, "wide.opt-vs-ref": 1500, "wide.shape": 300})


def _flag(v):
    return {"np.True_": np.True_, "np.False_": np.False_}.get(v, v) if isinstance(v, str) else v


def _gen_wide(tier, seed):
    n0 = NCASES[tier]
    cells_ = common.CELL_KINDS + ["near_ortho"]
    for k in range(NWIDE[tier]):
        i = n0 + k
        rng = common.rng_for("C05w", seed, i)
        sub = WIDE_SUBS[k % len(WIDE_SUBS)]
        c = dict(i=i, seed=common.case_seed(seed, "C05", i), kind="wide", sub=sub,
                 cell=cells_[(k // len(WIDE_SUBS)) % len(cells_)],
                 spread=int(rng.choice([0, 0, 1, 3, 10, 50])),
                 pf=str(rng.choice(["const", "const"] + common.PF_MODES)),
                 n_frames=int(rng.integers(1, 6)),
                 n_atoms=int(rng.choice(common.SIMD_COUNTS)) if rng.random() < 0.35 else int(rng.integers(2, 40)),
                 scale_log2=int(rng.choice([0, 0, 0, 0, -6, 8])),
                 idx=str(rng.choice(common.INDEX_STYLES)), pairs=str(rng.choice(PAIR_SHAPES)),
                 derived=str(rng.choice(common.DERIVED)),
                 ptrue=int(rng.integers(len(PERIODIC_TRUE))), pfalse=int(rng.integers(len(PERIODIC_FALSE))))
        if sub == "long":
            c.update(n_frames=int(rng.choice([100, 129, 257, 300])), n_atoms=int(rng.integers(2, 13)),
                     pf=str(rng.choice(common.PF_MODES)), pairs="random", derived=str(rng.choice(["none", "none", "stride-nocopy", "join"])))
        if sub == "history":
            c.update(n_frames=int(rng.integers(2, 6)), derived="none")
        if tier == "thorough" and sub == "closest" and rng.random() < 0.08:
            c.update(n_atoms=int(rng.integers(300, 700)), n_frames=int(rng.integers(1, 4)))  # groups of hundreds of atoms
        if tier == "thorough" and k % 3600 == 7:
            c.update(sub="big", n_frames=130, n_atoms=600, pf="one-field", derived="none", scale_log2=0, pairs="random")
        if tier == "quick" and k in (11, 12, 13):
            # millions of frame x pair evaluations behind one call, the cell different in every frame (rectangular twice,
            # this case's own class once): large enough for any size-dependent code path, several threads in the team
            c.update(sub="big", n_frames=24, n_atoms=600, pf=("all", "one-field", "all")[k - 11], derived="none", scale_log2=0,
                     pairs="random", cell=("ortho", "ortho", c["cell"])[k - 11])
        yield c


def gen_cases(tier, seed):  # noqa: F811  (extends the stream defined at the top of the module)
    import itertools
    return common.with_asan_slice(itertools.chain(_gen_cases(tier, seed), _gen_wide(tier, seed)), ASAN_EVERY[tier])


def _build_wide(case):
    import mdtraj as md
    rng = common.rng_for("C05wide", case["seed"])
    nf, na = case["n_frames"], case["n_atoms"]

    def one_cell():
        if case["cell"] == "near_ortho":
            l, a = common.random_cell(rng, "ortho")
            a = a.copy()
            for k in rng.choice(3, size=int(rng.integers(1, 4)), replace=False):
                a[k] = 90.0 + float(rng.choice([-1, 1])) * float(rng.uniform(1e-4, 8e-4))
            return l, a
        return common.random_cell(rng, case["cell"])
    if case["pf"] == "const":
        c0 = one_cell()
        cells = [c0] * nf
    else:
        cells = common.perframe_cells(rng, case["cell"], nf, case["pf"], one_cell)
    sc = 2.0 ** case["scale_log2"]
    L = (np.array([c[0] for c in cells]) * sc).astype(np.float32)
    A = np.array([c[1] for c in cells], dtype=np.float32)
    top = common.simple_topology(na)
    t = md.Trajectory(np.zeros((nf, na, 3), np.float32), top, unitcell_lengths=L, unitcell_angles=A)
    B = t.unitcell_vectors.astype(np.float64)
    xyz = np.zeros((nf, na, 3))
    K = case["spread"]
    for f in range(nf):
        w = common.cell_widths(B[f])
        frac = rng.uniform(0, 1, (na, 3))
        placement = rng.integers(0, 4)
        if placement == 1:
            pos = rng.uniform(0, 1, 3) @ B[f] + rng.normal(scale=w.min() * 0.12, size=(na, 3))
        elif placement == 2:
            pos = (np.round(frac * 4) / 4) @ B[f]
        else:
            pos = frac @ B[f]
        if K:
            pos = pos + rng.integers(-K, K + 1, (na, 3)).astype(np.float64) @ B[f]
        xyz[f] = pos
    t.xyz = xyz.astype(np.float32)
    return t, rng


def _pairs_wide(rng, na, shape, big=False):
    if na == 1:
        return np.zeros((int(rng.integers(1, 4)), 2), np.int64)
    if shape == "one":
        return rng.integers(0, na, (1, 2)).astype(np.int64)
    if shape == "simd":
        return rng.integers(0, na, (int(rng.choice(common.SIMD_COUNTS)), 2)).astype(np.int64)
    if shape == "desc":
        p = rng.integers(0, na, (int(rng.integers(2, 40)), 2))
        p = np.stack([p.max(axis=1), p.min(axis=1)], axis=1)
        return p[np.lexsort((p[:, 1], p[:, 0]))[::-1]].astype(np.int64)
    if shape == "chain":
        s = np.arange(na - 1)
        p = np.stack([s, s + 1], axis=1)
        return (p if rng.random() < 0.5 else p[::-1, ::-1]).astype(np.int64)
    if shape == "repeat":
        return np.tile(rng.integers(0, na, (int(rng.integers(1, 3)), 2)), (int(rng.integers(2, 20)), 1)).astype(np.int64)
    if shape == "self":
        s = rng.integers(0, na, int(rng.integers(1, 12)))
        return np.stack([s, s], axis=1).astype(np.int64)
    if shape == "allpairs":
        ii, jj = np.triu_indices(min(na, 24), 1)
        return np.stack([ii, jj], axis=1).astype(np.int64)
    if shape == "thousands":
        return rng.integers(0, na, (int(rng.choice([1023, 2048, 4099, 6000])), 2)).astype(np.int64)
    return rng.integers(0, na, (int(rng.integers(1, 40)), 2)).astype(np.int64)


def _orth_frames(A):
    return np.all(np.asarray(A) == 90.0, axis=1)


def _judge_w(ctx, mon, key_prefix, d, raw, Bf, tau, orth_f, frame, what="", dmin=None):
    """module-level twin of run_case.judge_dist: never below the minimum image; equal to it inside the domain"""
    d = np.asarray(d, np.float64)
    if dmin is None:
        _, dmin = geom.min_image(raw, Bf)
    w = common.cell_widths(Bf).min()
    below = d < dmin - tau
    if below.any():
        j = int(np.argmax(below))
        ctx.violation(mon, f"{key_prefix}:distance-below-minimum-image", f"{key_prefix}{what}: reported {d[j]:.6g} < minimum image {dmin[j]:.6g}",
                      frame=frame, raw=raw[j], cell=Bf, tau=tau)
    dom = np.ones(len(d), bool) if orth_f else (dmin < w / 2 - tau)
    bad = dom & ~(np.abs(d - dmin) <= tau)
    if bad.any():
        j = int(np.argmax(bad))
        ctx.violation(mon, f"{key_prefix}:not-minimum-image{'-ortho' if orth_f else '-triclinic'}",
                      f"{key_prefix}{what}: reported {d[j]:.6g}, minimum image {dmin[j]:.6g} (tau {tau:.2g}, w_min/2 {w / 2:.4g})",
                      frame=frame, raw=raw[j], cell=Bf, tau=tau)
    ctx.ok(mon, int(dom.sum() - bad.sum()))
    if (~dom).any():
        ctx.skip(mon, "skewed cell and d_min >= w_min/2 (outside the stated domain)", int((~dom).sum()))
    return dmin, dom


def _judge_disp(ctx, key_prefix, v, d, raw, Bf, tau, frame, what=""):
    v = np.asarray(v, np.float64)
    r = v - raw
    n = np.round(r @ np.linalg.inv(Bf))
    resid = np.linalg.norm(r - n @ Bf, axis=1)
    bad = ~(resid <= tau)
    if bad.any():
        j = int(np.argmax(bad))
        ctx.violation("wide.lattice-congruence", f"{key_prefix}:displacement:not-lattice-shift",
                      f"{key_prefix}{what}: displacement differs from x2-x1 by a non-lattice vector (residual {resid[j]:.3g} > {tau:.2g})",
                      frame=frame, raw=raw[j], disp=v[j], cell=Bf)
    ctx.ok("wide.lattice-congruence", int((~bad).sum()))
    bad = ~(np.abs(np.linalg.norm(v, axis=1) - d) <= tau)
    if bad.any():
        j = int(np.argmax(bad))
        ctx.violation("wide.dist-is-norm", f"{key_prefix}:distance-not-norm-of-displacement",
                      f"{key_prefix}{what}: |displacement| {np.linalg.norm(v[j]):.6g} != distance {d[j]:.6g}", frame=frame)
    ctx.ok("wide.dist-is-norm", int((~bad).sum()))


def _judge_plain(ctx, key, d, v, x64, pairs, tau, what):
    raw = x64[:, pairs[:, 1]] - x64[:, pairs[:, 0]]
    ref = np.linalg.norm(raw, axis=-1)
    bad = ~(np.abs(d - ref) <= tau)
    badv = np.zeros_like(bad) if v is None else ~(np.abs(v - raw).max(axis=-1) <= tau)
    if bad.any() or badv.any():
        ctx.violation("wide.plain", key, f"{what}: distance/displacement is not the plain Euclidean value (max err {np.abs(d - ref).max():.3g})")
    else:
        ctx.ok("wide.plain", int(d.size))


def _shape_ok(ctx, key, got, want, what):
    if tuple(got) != tuple(want):
        ctx.violation("wide.shape", key, f"{what}: shape {tuple(got)}, documented {tuple(want)}")
        return False
    ctx.ok("wide.shape")
    return True


def _judge_t(ctx, key_prefix, d, x64, B, orth_f, sub, times, tau, what):
    """time-pair variant: accepted when it is the minimum image under the cell of either frame of the pair (see above)"""
    for k, (a, b) in enumerate(times):
        a, b = int(a), int(b)
        raw = x64[b, sub[:, 1]] - x64[a, sub[:, 0]]
        okk = np.zeros(len(sub), bool)
        domk = np.ones(len(sub), bool)
        for fr in {a, b}:
            _, dmin = geom.min_image(raw, B[fr])
            w = common.cell_widths(B[fr]).min()
            domk &= np.ones(len(sub), bool) if (orth_f[a] and orth_f[b]) else (dmin < w / 2 - tau)
            okk |= np.abs(d[k] - dmin) <= tau
        bad = domk & ~okk
        if bad.any():
            j = int(np.argmax(bad))
            ctx.violation("wide.distances_t", f"{key_prefix}:not-minimum-image-in-either-frames-cell",
                          f"{key_prefix}{what}: {d[k, j]:.6g} for time pair ({a},{b}) is not the minimum image under the cell of frame {a} or {b}",
                          times=[a, b])
        ctx.ok("wide.distances_t", int((domk & ~bad).sum()))
        if (~domk).any():
            ctx.skip("wide.distances_t", "skewed cell and d_min >= w_min/2", int((~domk).sum()))


def _times_wide(rng, nf, shape):
    if shape == "same":
        s = rng.integers(0, nf, int(rng.integers(1, 6)))
        return np.stack([s, s], axis=1)
    if shape == "desc":
        p = rng.integers(0, nf, (int(rng.integers(1, 8)), 2))
        return np.stack([p.max(axis=1), p.min(axis=1)], axis=1)
    if shape == "repeat":
        return np.tile(rng.integers(0, nf, (1, 2)), (int(rng.integers(2, 9)), 1))
    if shape == "many":
        return rng.integers(0, nf, (int(rng.choice([257, 1000, 2049])), 2))
    if shape == "all":
        a, b = np.meshgrid(np.arange(min(nf, 12)), np.arange(min(nf, 12)), indexing="ij")
        return np.stack([a.ravel(), b.ravel()], axis=1)
    return rng.integers(0, nf, (int(rng.integers(1, 8)), 2))


def _run_wide(case, ctx):
    import mdtraj as md
    from mdtraj.geometry import distance as mdist
    sub_ = case["sub"]
    t, rng = _build_wide(case)
    t = common.derive_traj(t, case["derived"], rng)
    nf, na = t.n_frames, t.n_atoms
    B = t.unitcell_vectors.astype(np.float64)
    x64 = t.xyz.astype(np.float64)
    orth_f = _orth_frames(t.unitcell_angles)
    K = case["spread"]
    tau = _tau(t.xyz, B, K)
    pairs = _pairs_wide(rng, na, case["pairs"])
    P = common.index_arg(pairs, case["idx"])
    ptrue, pfalse = _flag(PERIODIC_TRUE[case["ptrue"]]), _flag(PERIODIC_FALSE[case["pfalse"]])
    desc = f" [pairs={case['pairs']}/{case['idx']}, traj={case['derived']}, cells={case['pf']}, scale=2^{case['scale_log2']}]"
    ctx.observe("wide.sub", sub_)
    ctx.observe("wide.cell", case["cell"])
    ctx.observe("wide.index_container", case["idx"])
    ctx.observe("wide.pair_list_shape", case["pairs"])
    ctx.observe("wide.trajectory_origin", case["derived"])
    ctx.observe("wide.per_frame_cells", case["pf"])
    ctx.observe("wide.cell_scale", f"2^{case['scale_log2']}")
    ctx.observe("wide.n_atoms", na if na in common.SIMD_COUNTS else "other")
    ctx.observe("wide.n_pairs", len(pairs) if len(pairs) in common.SIMD_COUNTS else ("thousands" if len(pairs) > 1000 else "other"))
    ctx.observe("wide.n_frames", "1" if nf == 1 else ("2-5" if nf <= 5 else ">=100"))
    ctx.observe("wide.kernel", "ortho" if orth_f.all() else ("mixed" if orth_f.any() else "triclinic"))

    def mic_all(entry, d, disp, prs, frames=None):
        frames = range(nf) if frames is None else frames
        dm = geom.min_image_batch(x64[:, prs[:, 1]] - x64[:, prs[:, 0]], B)[1] if nf >= 50 else None
        for f in frames:
            raw = x64[f, prs[:, 1]] - x64[f, prs[:, 0]]
            _judge_w(ctx, "wide.min-image", entry, d[f], raw, B[f], tau, bool(orth_f[f]), f, desc, dmin=None if dm is None else dm[f])
            if disp is not None:
                _judge_disp(ctx, entry, disp[f], np.asarray(d[f], np.float64), raw, B[f], tau, f, desc)

    if sub_ in ("args", "big"):
        if sub_ == "big":
            pairs = rng.integers(0, na, (130000, 2)).astype(np.int64)
            P = pairs.astype(np.int32)
            ctx.observe("wide.big_request", f"{nf} frames x {len(pairs)} pairs = {nf * len(pairs)} distances" + (" (> 2^24)" if nf * len(pairs) > 2 ** 24 else " (> 10^6)"))
        ctx.observe("wide.periodic_flag", repr(PERIODIC_TRUE[case["ptrue"]]))
        d = md.compute_distances(t, P, periodic=ptrue, opt=True)
        disp = md.compute_displacements(t, P, periodic=ptrue, opt=True)
        if not (_shape_ok(ctx, "compute_distances:shape", d.shape, (nf, len(pairs)), "compute_distances" + desc)
                and _shape_ok(ctx, "compute_displacements:shape", disp.shape, (nf, len(pairs), 3), "compute_displacements" + desc)):
            return
        if sub_ == "big":
            # judged on a sample: whole pair columns at the chunk edges of 2^24 values, and scattered entries
            edge = (2 ** 24) // len(pairs)
            for f in sorted(x for x in ({0, 1, edge - 1, edge, edge + 1, nf - 1} | set(rng.integers(0, nf, 4).tolist())) if 0 <= x < nf):
                cols = np.unique(np.concatenate([rng.integers(0, len(pairs), 3000), np.arange(0, 64), np.arange(len(pairs) - 64, len(pairs))]))
                raw = x64[f, pairs[cols, 1]] - x64[f, pairs[cols, 0]]
                _judge_w(ctx, "wide.min-image", "compute_distances(opt)", d[f, cols], raw, B[f], tau, bool(orth_f[f]), f, desc)
                _judge_disp(ctx, "compute_displacements(opt)", disp[f, cols], d[f, cols].astype(np.float64), raw, B[f], tau, f, desc)
            return
        mic_all("compute_distances(opt)", d, disp, pairs)
        same = pairs[:, 0] == pairs[:, 1]
        if same.any():
            ctx.check(bool(np.all(np.abs(d[:, same]) <= tau)), "wide.self-pair", "compute_distances(opt):self-pair-nonzero", "distance of an atom to itself is not 0" + desc)
        ns = min(len(pairs), 10)
        subp = pairs[:ns]
        dref = md.compute_distances(t, common.index_arg(subp, case["idx"]), periodic=ptrue, opt=False)
        vref = md.compute_displacements(t, common.index_arg(subp, case["idx"]), periodic=ptrue, opt=False)
        if _shape_ok(ctx, "compute_distances(opt=False):shape", dref.shape, (nf, ns), "compute_distances(opt=False)" + desc):
            mic_all("compute_distances(opt=False)", dref, vref, subp)
            for f in range(nf):
                raw = x64[f, subp[:, 1]] - x64[f, subp[:, 0]]
                _, dmin = geom.min_image(raw, B[f])
                dom = np.ones(ns, bool) if orth_f[f] else (dmin < common.cell_widths(B[f]).min() / 2 - tau)
                bad = dom & ~(np.abs(dref[f] - d[f, :ns]) <= 2 * tau)
                if bad.any():
                    j = int(np.argmax(bad))
                    ctx.violation("wide.opt-vs-ref", "compute_distances:opt-vs-ref", f"opt {d[f, j]:.6g} vs ref {dref[f, j]:.6g}" + desc, frame=f)
                ctx.ok("wide.opt-vs-ref", int((dom & ~bad).sum()))
        # empty list through every entry point and both paths
        e = common.index_arg(np.zeros((0, 2), np.int64), case["idx"] if case["idx"] not in ("list", "tuple") else "int64")
        for opt in (True, False):
            _shape_ok(ctx, f"compute_distances(opt={opt}):empty-pairs:shape", md.compute_distances(t, e, opt=opt).shape, (nf, 0), "compute_distances(empty)")
            _shape_ok(ctx, f"compute_displacements(opt={opt}):empty-pairs:shape", md.compute_displacements(t, e, opt=opt).shape, (nf, 0, 3), "compute_displacements(empty)")
        # plain values: periodic false-like flags on the periodic trajectory, and a trajectory without cell
        ctx.observe("wide.nonperiodic_flag", repr(PERIODIC_FALSE[case["pfalse"]]))
        tn = md.Trajectory(t.xyz, t.topology)
        for label, tr, flag in ((f"periodic={PERIODIC_FALSE[case['pfalse']]!r}", t, pfalse), ("no-cell", tn, ptrue)):
            for opt in (True, False):
                prs = pairs if opt else subp
                Pp = common.index_arg(prs, case["idx"])
                dd = md.compute_distances(tr, Pp, periodic=flag, opt=opt)
                vv = md.compute_displacements(tr, Pp, periodic=flag, opt=opt)
                _judge_plain(ctx, f"plain:{label}:opt={opt}", dd, vv, x64, prs, tau, f"{label} opt={opt}" + desc)

    elif sub_ == "core":
        posmode = str(rng.choice(["f32", "f64", "strided", "fortran", "list-of-frames"]))
        vecmode = str(rng.choice(["f32", "f64", "unreduced", "unreduced64", "none", "periodic-false"]))
        ctx.observe("wide.core_positions", posmode)
        ctx.observe("wide.core_vectors", vecmode)
        if posmode == "f32":
            pos = t.xyz.copy()
        elif posmode == "f64":
            pos = t.xyz.astype(np.float64)
        elif posmode == "strided":
            bigx = np.full((nf, 2 * na + 1, 3), 1e3, np.float32)
            bigx[:, 1::2] = t.xyz
            pos = bigx[:, 1::2]
        elif posmode == "fortran":
            pos = np.asfortranarray(t.xyz)
        else:
            pos = np.stack([fr for fr in t.xyz.astype(np.float64)])
        Bv = B.copy()
        if vecmode.startswith("unreduced"):
            for f in range(nf):
                k1, k2, k3 = rng.integers(-2, 3, 3)
                Bv[f, 2] = Bv[f, 2] + k1 * Bv[f, 1] + k2 * Bv[f, 0]
                Bv[f, 1] = Bv[f, 1] + k3 * Bv[f, 0]
        vec = None if vecmode == "none" else (Bv.astype(np.float32) if vecmode in ("f32", "unreduced") else Bv.astype(np.float32).astype(np.float64))
        per = pfalse if vecmode == "periodic-false" else ptrue
        for opt in (True, False):
            prs = pairs if opt else pairs[: min(len(pairs), 8)]
            d = mdist.compute_distances_core(pos, common.index_arg(prs, case["idx"]), unitcell_vectors=None if vec is None else vec.copy(), periodic=per, opt=opt)
            entry = f"compute_distances_core(opt={opt})"
            if not _shape_ok(ctx, entry + ":shape", d.shape, (nf, len(prs)), entry + desc):
                continue
            if vecmode in ("none", "periodic-false"):
                _judge_plain(ctx, f"{entry}:plain:vectors={vecmode}", d, None, x64, prs, tau, entry + f" vectors={vecmode}" + desc)
                continue
            Bl = vec.astype(np.float64)
            # the cell is rectangular when the vectors handed over are: off-diagonal components exactly zero
            for f in range(nf):
                rect = bool(np.all(Bl[f][~np.eye(3, dtype=bool)] == 0))
                raw = x64[f, prs[:, 1]] - x64[f, prs[:, 0]]
                _judge_w(ctx, "wide.min-image", entry, d[f], raw, Bl[f], tau + 16 * geom.EPS32 * float(np.abs(Bl[f]).max()) * (2 + K), rect and bool(orth_f[f]), f,
                         f" positions={posmode} vectors={vecmode}" + desc)

    elif sub_ == "long":
        d = md.compute_distances(t, P, periodic=True, opt=True)
        disp = md.compute_displacements(t, P, periodic=True, opt=True)
        if not (_shape_ok(ctx, "compute_distances:shape", d.shape, (nf, len(pairs)), "compute_distances" + desc)
                and _shape_ok(ctx, "compute_displacements:shape", disp.shape, (nf, len(pairs), 3), "compute_displacements" + desc)):
            return
        mic_all("compute_distances(opt,long)", d, disp, pairs)
        sp = pairs[:2]
        dref = md.compute_distances(t, sp, periodic=True, opt=False)
        mic_all("compute_distances(opt=False,long)", dref, None, sp)
        edges = [0, 1, 63, 64, 99, 100, 127, 128, 129, 199, 200, 255, 256, 257, 299]
        fr = np.array([e for e in edges if e < nf] + [nf - 1])
        times = np.concatenate([rng.integers(0, nf, (12, 2)), np.stack([rng.choice(fr, 10), rng.choice(fr, 10)], axis=1)])
        for opt in (True, False):
            prs = pairs if opt else sp
            tm = times if opt else times[-6:]
            dt = md.compute_distances_t(t, prs, tm, periodic=True, opt=opt)
            if _shape_ok(ctx, f"compute_distances_t(opt={opt}):shape", dt.shape, (len(tm), len(prs)), "compute_distances_t" + desc):
                _judge_t(ctx, f"compute_distances_t(opt={opt},long)", dt, x64, B, orth_f, prs, tm, tau, desc)
        if na >= 2:
            perm = rng.permutation(na)
            k = int(rng.integers(1, na))
            _closest(ctx, md, t, x64, B, orth_f, perm[:k], perm[k:], [int(fr[-1]), int(rng.choice(fr))], [True], tau, "int64", desc, "long")

    elif sub_ == "tvar":
        tshape = str(rng.choice(["random", "same", "desc", "repeat", "many", "all"]))
        tstyle = str(rng.choice(common.INDEX_STYLES))
        ctx.observe("wide.time_pairs_shape", tshape)
        ctx.observe("wide.time_pairs_container", tstyle)
        times = _times_wide(rng, nf, tshape).astype(np.int64)
        if tshape == "many":
            pairs = pairs[:6]
            P = common.index_arg(pairs, case["idx"])
        for opt in (True, False):
            prs = pairs if opt else pairs[:6]
            tm = times if opt else times[:10]
            for per, lab in ((ptrue, "periodic"), (pfalse, "plain")):
                dt = md.compute_distances_t(t, common.index_arg(prs, case["idx"]), common.index_arg(tm, tstyle), periodic=per, opt=opt)
                entry = f"compute_distances_t(opt={opt})"
                if not _shape_ok(ctx, f"{entry}:shape", dt.shape, (len(tm), len(prs)), entry + desc):
                    continue
                if lab == "periodic":
                    rows = np.arange(len(tm)) if len(tm) <= 160 else np.unique(np.concatenate([np.arange(8), np.arange(len(tm) - 8, len(tm)), rng.integers(0, len(tm), 120)]))
                    _judge_t(ctx, entry, dt[rows], x64, B, orth_f, prs, tm[rows], tau, desc + f" times={tshape}/{tstyle}")
                else:
                    ref = np.linalg.norm(x64[tm[:, 1]][:, prs[:, 1]] - x64[tm[:, 0]][:, prs[:, 0]], axis=-1)
                    bad = ~(np.abs(dt - ref) <= tau)
                    if bad.any():
                        ctx.violation("wide.plain", f"{entry}:plain", f"non-periodic distances_t {dt[bad][0]:.6g} vs {ref[bad][0]:.6g}" + desc)
                    else:
                        ctx.ok("wide.plain", int(dt.size))
            # empty lists: documented shape is (num_times, num_atom_pairs)
            # (the empty-list return precedes the opt / periodic dispatch: one mechanism, one key)
            e = md.compute_distances_t(t, np.zeros((0, 2), np.int64), tm, opt=opt)
            _shape_ok(ctx, "compute_distances_t:empty-pairs:shape-is-not-(num_times,0)", e.shape, (len(tm), 0), "compute_distances_t(empty atom_pairs)")
            e = md.compute_distances_t(t, prs, np.zeros((0, 2), np.int64), opt=opt)
            _shape_ok(ctx, f"compute_distances_t(opt={opt}):empty-times:shape", e.shape, (0, len(prs)), "compute_distances_t(empty time_pairs)")

    elif sub_ == "closest":
        if na < 2:
            ctx.skip("wide.closest_contact", "fewer than two atoms")
            return
        gmode = str(rng.choice(["partition", "unsorted", "overlap", "one-vs-rest", "one-vs-one", "same-group", "repeated"]))
        ctx.observe("wide.closest_groups", gmode)
        perm = rng.permutation(na)
        k = int(rng.integers(1, na))
        g1, g2 = perm[:k], perm[k:]
        if gmode == "partition":
            g1, g2 = np.sort(g1), np.sort(g2)
        elif gmode == "overlap":
            g2 = np.concatenate([g2, g1[: int(rng.integers(1, len(g1) + 1))]])
        elif gmode == "one-vs-rest":
            g1, g2 = perm[:1], perm[1:]
        elif gmode == "one-vs-one":
            g1, g2 = perm[:1], perm[1:2]
        elif gmode == "same-group":
            g2 = g1.copy()
        elif gmode == "repeated":
            g1 = np.concatenate([g1, g1[:1]])
        frames = sorted({int(rng.integers(0, nf)), nf - 1})
        _closest(ctx, md, t, x64, B, orth_f, g1, g2, frames, [ptrue, pfalse], tau, case["idx"], desc + f" groups={gmode}", "args")

    elif sub_ == "history":
        ops = ["xyz-inplace", "xyz-setter", "lengths-setter", "lengths-inplace", "angles-setter", "vectors-setter", "cell-removed", "lattice-shift-inplace"]
        seq = [str(o) for o in rng.choice(ops, int(rng.integers(1, 4)))]
        sp = pairs[: min(len(pairs), 6)]

        def observe_all(stage):
            # after an edit the lattice is built independently from the lengths and angles the object holds now
            Bc = None if t.unitcell_lengths is None else _lattice_now(ctx, t, stage)
            xc = t.xyz.astype(np.float64)
            tc = tau if Bc is None else _tau(t.xyz, Bc, K + 3)
            of = None if Bc is None else _orth_frames(t.unitcell_angles)
            for opt in (True, False):
                prs = pairs if opt else sp
                dd = md.compute_distances(t, prs, periodic=True, opt=opt)
                vv = md.compute_displacements(t, prs, periodic=True, opt=opt)
                entry = f"history:compute_distances(opt={opt})"
                if Bc is None:
                    _judge_plain(ctx, f"{entry}:after-cell-removed:plain", dd, vv, xc, prs, tc, entry + " after the cell was removed")
                    continue
                for f in range(nf):
                    raw = xc[f, prs[:, 1]] - xc[f, prs[:, 0]]
                    _judge_w(ctx, "wide.min-image", entry, dd[f], raw, Bc[f], tc, bool(of[f]), f, f" {stage}" + desc)
                    _judge_disp(ctx, entry, vv[f], np.asarray(dd[f], np.float64), raw, Bc[f], tc, f, f" {stage}" + desc)
            if Bc is not None:
                tm = rng.integers(0, nf, (4, 2))
                dt = md.compute_distances_t(t, pairs, tm, periodic=True, opt=True)
                _judge_t(ctx, "history:compute_distances_t(opt=True)", dt, xc, Bc, of, pairs, tm, tc, f" {stage}" + desc)
                if na >= 2:
                    perm = rng.permutation(na)
                    _closest(ctx, md, t, xc, Bc, of, perm[: na // 2], perm[na // 2:], [int(rng.integers(0, nf))], [True], tc, "int64", f" {stage}" + desc, "history")
        observe_all("first call")
        for o in seq:
            ctx.observe("wide.history_edit", o)
            if t.unitcell_lengths is None and o not in ("xyz-inplace", "xyz-setter"):
                continue
            f = int(rng.integers(0, nf))
            if o == "xyz-inplace":
                t.xyz[f, int(rng.integers(0, na))] += np.float32(rng.normal(scale=0.3, size=3) * 2.0 ** case["scale_log2"])
            elif o == "xyz-setter":
                t.xyz = (t.xyz[::-1] + np.float32(0.25 * 2.0 ** case["scale_log2"])).astype(np.float32)
            elif o == "lattice-shift-inplace":
                a = int(rng.integers(0, na))
                t.xyz[f, a] = (t.xyz[f, a].astype(np.float64) + rng.integers(-3, 4, 3) @ t.unitcell_vectors[f].astype(np.float64)).astype(np.float32)
            elif o == "lengths-setter":
                L = t.unitcell_lengths.copy()
                L[f] *= np.float32(rng.uniform(0.7, 1.4))
                t.unitcell_lengths = L
            elif o == "lengths-inplace":
                t.unitcell_lengths[f, int(rng.integers(3))] *= np.float32(rng.uniform(0.7, 1.4))
            elif o == "angles-setter":
                A = t.unitcell_angles.copy()
                A[f] = common.random_cell(rng, str(rng.choice(["ortho", "monoclinic", "mono_alpha", "hex120", "triclinic"])))[1]
                t.unitcell_angles = A
            elif o == "vectors-setter":
                l, a = common.random_cell(rng, case["cell"] if case["cell"] != "near_ortho" else "triclinic")
                V = t.unitcell_vectors.copy()
                V[f] = common.cell_vectors64(l * 2.0 ** case["scale_log2"], a)
                t.unitcell_vectors = V
            elif o == "cell-removed":
                t.unitcell_vectors = None
            observe_all("after " + "+".join(seq[: seq.index(o) + 1]))


def _lattice_now(ctx, t, stage):
    """float64 lattice from the lengths / angles the Trajectory holds at this moment (vlib.gen.common.cell_vectors64), checked
    against what unitcell_vectors reports (mdtraj zeroes components below 1e-6 nm and computes in float32: allowance
    2e-6 + 1e-5 * longest edge).  Returns the lattice to judge by."""
    Bi = np.array([common.cell_vectors64(l, a) for l, a in zip(t.unitcell_lengths, t.unitcell_angles)])
    Br = np.asarray(t.unitcell_vectors, np.float64)
    dev = np.abs(Bi - Br).max(axis=(1, 2))
    lim = 2e-6 + 1e-5 * np.linalg.norm(Bi, axis=2).max(axis=1)
    if (dev > lim).any():
        f = int(np.argmax(dev - lim))
        ctx.violation("wide.history-lattice", "history:unitcell_vectors-differ-from-current-lengths-and-angles",
                      f"{stage}: unitcell_vectors of frame {f} deviate by {dev[f]:.3g} nm from the lattice of the lengths/angles the object holds", frame=f)
    else:
        ctx.ok("wide.history-lattice", len(dev))
    # frames whose reported lattice is the current one (within the allowance) are judged by the reported lattice, which is
    # what the tolerance tau is derived for; frames with a stale lattice by the independent one
    return np.where((dev > lim)[:, None, None], Bi, Br)


def _closest(ctx, md, t, x64, B, orth_f, g1, g2, frames, flags, tau, style, desc, tag):
    g1, g2 = np.asarray(g1, np.int64), np.asarray(g2, np.int64)
    P = np.array([(i, j) for i in g1 for j in g2])
    for f in frames:
        for flag in flags:
            periodic = bool(flag)
            a1, a2, dist = md.find_closest_contact(t, common.index_arg(g1, style), common.index_arg(g2, style), frame=f, periodic=flag)
            raw = x64[f, P[:, 1]] - x64[f, P[:, 0]]
            if periodic:
                _, dall = geom.min_image(raw, B[f])
                w = common.cell_widths(B[f]).min()
                if not orth_f[f] and not dall.min() < w / 2 - tau:
                    ctx.skip("wide.closest_contact", "skewed cell and closest distance >= w_min/2")
                    continue
            else:
                dall = np.linalg.norm(raw, axis=1)
            okd = abs(dist - dall.min()) <= tau
            idx = np.where((P[:, 0] == a1) & (P[:, 1] == a2))[0]
            okp = len(idx) >= 1 and dall[idx[0]] <= dall.min() + 2 * tau
            ctx.check(bool(okd and okp), "wide.closest_contact", f"closest_contact[{tag}]:periodic={periodic}:not-argmin",
                      f"find_closest_contact(frame={f}, periodic={flag!r}) -> ({a1},{a2},{dist:.6g}); true minimum {dall.min():.6g}" + desc, frame=f)


_run_case_original = run_case


def run_case(case, ctx):  # noqa: F811
    if case.get("kind") == "wide":
        return _run_wide(case, ctx)
    return _run_case_original(case, ctx)
