"""C05 — periodic distances and displacements are true minimum-image values.

Monitor: differential oracle (float64 reduced-basis brute force over lattice images) observing the real
compute_distances / compute_displacements / compute_distances_t / compute_distances_core / find_closest_contact."""
from __future__ import annotations

import numpy as np

from vlib.gen import common
from vlib.oracle import geom

PROPERTY = "C05"
LEVEL = "exploration"
NATIVE = ["mdtraj.geometry._geometry"]
RULE = ("cases = (entry point, cell class, placement, pair list) drawn from a seeded stream; positions are generated as "
        "near neighbours then scattered by per-atom lattice shifts of up to +-K cells; a case is non-trivial when at "
        "least one monitor decided (compared against the float64 image search); distinct = distinct case descriptors")
WORKERS = {"quick": 8, "thorough": 16}
BUDGET = {"quick": 60, "thorough": 900}
FLOORS = {"quick": {"mic.min-image": 500, "mic.lattice-congruence": 500, "opt-vs-ref": 100, "distances_t": 50,
                    "closest_contact": 20, "plain": 50}}
KINDS = ["mic", "mic", "mic", "t", "closest", "plain", "core"]
NCASES = {"quick": 7000, "thorough": 24000}


ASAN_EVERY = {"quick": 25, "thorough": 6}
GROUPS = {"quick": [dict(name="asan", flavour="asan", workers=1)], "thorough": [dict(name="asan", flavour="asan", workers=3)]}


def gen_cases(tier, seed):
    return common.with_asan_slice(_gen_cases(tier, seed), ASAN_EVERY[tier])


def _gen_cases(tier, seed):
    n = NCASES[tier]
    for i in range(n):
        rng = common.rng_for("C05", seed, i)
        kind = KINDS[i % len(KINDS)]
        kinds_ = common.CELL_KINDS + ["near_ortho"]
        cell = kinds_[(i // len(KINDS)) % len(kinds_)]
        c = dict(i=i, seed=common.case_seed(seed, "C05", i), kind=kind, cell=cell,
                 spread=int(rng.choice([0, 0, 1, 3, 10, 50])), perframe=bool(rng.random() < 0.3),
                 n_frames=int(rng.integers(1, 6)), n_atoms=int(rng.integers(2, 40)))
        if i % 280 == 279:
            # large requests: thousands of pairs over tens of frames (block / chunk / vector-width boundaries of the kernels)
            c.update(n_frames=int(rng.choice([9, 17, 33])), n_atoms=int(rng.choice([257, 600, 1500])),
                     n_pairs=int(rng.choice([1023, 4096, 4099])))
        yield c


def _build(case):
    import mdtraj as md
    rng = common.rng_for("C05case", case["seed"])
    nf, na = case["n_frames"], case["n_atoms"]
    perframe = case["perframe"]
    def one_cell():
        if case["cell"] == "near_ortho":
            # a skewed cell whose angles differ from 90 by less than a thousandth of a degree (e.g. the first steps of a
            # continuous box deformation): still a triclinic lattice, the skew adds up over many cells
            l, a = common.random_cell(rng, "ortho")
            a = a.copy()
            for k in rng.choice(3, size=int(rng.integers(1, 4)), replace=False):
                a[k] = 90.0 + float(rng.choice([-1, 1])) * float(rng.uniform(1e-4, 8e-4))
            return l, a
        return common.random_cell(rng, case["cell"])
    # per-frame variation comes in three flavours: everything changes; only ONE length or angle changes from frame to
    # frame (semi-isotropic / constant-area pressure coupling: kernels that cache per-frame work must not key it on a
    # part of the cell); or the cell CLASS changes along the trajectory (orthorhombic first, skewed later: joined runs)
    pf_mode = int(rng.integers(0, 3)) if perframe else 0
    if not perframe:
        cells = [one_cell()]
    elif pf_mode == 0:
        cells = [one_cell() for _ in range(nf)]
    elif pf_mode == 1:
        l0, a0 = one_cell()
        cells = []
        which = int(rng.integers(0, 6))
        for f in range(nf):
            l, a = l0.copy(), a0.copy()
            if which < 3:
                l[which] = l0[which] * (1 + 0.05 * f)
            elif not np.all(a0 == 90.0):
                k = which - 3
                if a0[k] != 90.0:
                    a[k] = a0[k] + 0.7 * f if common.cell_valid(np.where(np.arange(3) == k, a0[k] + 0.7 * f, a0)) else a0[k]
                else:
                    l[k] = l0[k] * (1 + 0.05 * f)
            else:
                l[which - 3] = l0[which - 3] * (1 + 0.03 * f)
            cells.append((l, a))
    else:
        first = common.random_cell(rng, "ortho" if rng.random() < 0.7 else case["cell"])
        cells = [first] + [one_cell() if rng.random() < 0.7 else common.random_cell(rng, "ortho") for _ in range(nf - 1)]
    if not perframe:
        cells = cells * nf
    L = np.array([c[0] for c in cells], dtype=np.float32)
    A = np.array([c[1] for c in cells], dtype=np.float32)
    top = common.simple_topology(na)
    t = md.Trajectory(np.zeros((nf, na, 3), np.float32), top, unitcell_lengths=L, unitcell_angles=A)
    B = t.unitcell_vectors.astype(np.float64)  # the lattice the trajectory reports (C17 checks it against L/A)
    xyz = np.zeros((nf, na, 3))
    K = case["spread"]
    for f in range(nf):
        w = common.cell_widths(B[f])
        frac = rng.uniform(0, 1, (na, 3))
        placement = rng.integers(0, 4)
        if placement == 1:  # clustered: neighbours well inside w_min/2
            centre = rng.uniform(0, 1, 3) @ B[f]
            pos = centre + rng.normal(scale=w.min() * 0.12, size=(na, 3))
        elif placement == 2:  # on faces / exact fractions
            frac = np.round(frac * 4) / 4
            pos = frac @ B[f]
        else:
            pos = frac @ B[f]
        if K:
            pos = pos + rng.integers(-K, K + 1, (na, 3)).astype(np.float64) @ B[f]
        xyz[f] = pos
    t.xyz = xyz.astype(np.float32)
    # pair list: random, repeated, i==j
    npairs = case.get("n_pairs") or int(rng.integers(1, 40))
    pairs = rng.integers(0, na, (npairs, 2))
    if rng.random() < 0.3:
        pairs = np.vstack([pairs, pairs[:2], [[0, 0]]])
    return t, B, pairs.astype(np.int64), rng


def _tau(x32, B, K):
    M = float(np.abs(x32).max()) if x32.size else 0.0
    Lmax = float(np.linalg.norm(B, axis=-1).max())
    return 16 * geom.EPS32 * (M + K * Lmax + Lmax) + 1e-7


def _orth(t):
    return bool(np.all(t.unitcell_angles == 90.0))


def run_case(case, ctx):
    import mdtraj as md
    from mdtraj.geometry import distance as mdist
    t, B, pairs, rng = _build(case)
    kind = case["kind"]
    x64 = t.xyz.astype(np.float64)
    nf = t.n_frames
    orth = _orth(t)
    ctx.observe("cell", case["cell"])
    ctx.observe("kind", kind)
    ctx.observe("spread_cells", case["spread"])
    ctx.observe("per_frame_cells", bool(case["perframe"]))
    if case.get("n_pairs"):
        ctx.observe("large_request", "%d frames x %d pairs" % (case["n_frames"], case["n_pairs"]))
    tau = _tau(t.xyz, B, case["spread"])

    def judge_dist(name, d, f_idx, raw, Bf, label):
        """d: reported distances for raw displacement vectors raw (float64) in lattice Bf"""
        vmin, dmin = geom.min_image(raw, Bf)
        w = common.cell_widths(Bf).min()
        below = d < dmin - tau
        if below.any():
            j = int(np.argmax(below))
            ctx.violation(name, f"{label}:distance-below-minimum-image", f"{label}: reported {d[j]:.6g} < minimum image {dmin[j]:.6g}",
                          frame=f_idx, raw=raw[j], cell=Bf, tau=tau)
        else:
            ctx.ok(name + ".never-below", len(d))
        dom = np.ones(len(d), bool) if orth else (dmin < w / 2 - tau)
        bad = dom & (np.abs(d - dmin) > tau)
        if bad.any():
            j = int(np.argmax(bad))
            ctx.violation(name, f"{label}:not-minimum-image{'-ortho' if orth else '-triclinic'}",
                          f"{label}: reported {d[j]:.6g}, minimum image {dmin[j]:.6g} (tau {tau:.2g}, w_min/2 {w/2:.4g})",
                          frame=f_idx, raw=raw[j], cell=Bf, tau=tau)
        ctx.ok("mic.min-image", int(dom.sum() - bad.sum()))
        if (~dom).any():
            ctx.skip("mic.min-image", "skewed cell and d_min >= w_min/2 (outside the stated domain)", int((~dom).sum()))
        return dmin, dom

    if kind in ("mic", "core"):
        if kind == "core":
            # unreduced (but valid lower-triangular) description of the same lattice
            Bu = B.copy()
            for f in range(nf):
                k1, k2, k3 = rng.integers(-2, 3, 3)
                Bu[f, 2] = Bu[f, 2] + k1 * Bu[f, 1] + k2 * Bu[f, 0]
                Bu[f, 1] = Bu[f, 1] + k3 * Bu[f, 0]
            Bu32 = Bu.astype(np.float32)
            d = mdist.compute_distances_core(t.xyz, pairs, unitcell_vectors=Bu32, periodic=True, opt=True)
            disp = None
            Bl = Bu32.astype(np.float64)
            ctx.observe("entry", "compute_distances_core(unreduced vectors)")
            orth = bool(np.allclose(Bu32[:, [0, 0, 1, 1, 2, 2], [1, 2, 0, 2, 0, 1]], 0))
        else:
            d = md.compute_distances(t, pairs, periodic=True, opt=True)
            disp = md.compute_displacements(t, pairs, periodic=True, opt=True)
            Bl = B
            ctx.observe("entry", "compute_distances+compute_displacements(opt)")
        if d.shape != (nf, len(pairs)):
            ctx.violation("shape", "distances:shape", f"shape {d.shape} expected {(nf, len(pairs))}")
            return
        for f in range(nf):
            raw = x64[f, pairs[:, 1]] - x64[f, pairs[:, 0]]
            dmin, dom = judge_dist("mic", d[f].astype(np.float64), f, raw, Bl[f], kind)
            if disp is not None:
                v = disp[f].astype(np.float64)
                r = v - raw
                n = np.round(r @ np.linalg.inv(Bl[f]))
                resid = np.linalg.norm(r - n @ Bl[f], axis=1)
                bad = resid > tau
                if bad.any():
                    j = int(np.argmax(bad))
                    ctx.violation("mic.lattice-congruence", "displacement:not-lattice-shift",
                                  f"displacement differs from x2-x1 by a non-lattice vector (residual {resid[j]:.3g} > {tau:.2g})",
                                  frame=f, raw=raw[j], disp=v[j], cell=Bl[f])
                ctx.ok("mic.lattice-congruence", int((~bad).sum()))
                bad = np.abs(np.linalg.norm(v, axis=1) - d[f]) > tau
                if bad.any():
                    j = int(np.argmax(bad))
                    ctx.violation("mic.dist-is-norm", "distance-not-norm-of-displacement",
                                  f"|displacement| {np.linalg.norm(v[j]):.6g} != distance {d[f, j]:.6g}", frame=f)
                ctx.ok("mic.dist-is-norm", int((~bad).sum()))
                same = pairs[:, 0] == pairs[:, 1]
                if same.any():
                    ctx.check(bool(np.all(np.abs(d[f][same]) <= tau)), "mic.self-pair", "self-pair-nonzero",
                              "distance of an atom to itself is not 0")
        if kind == "mic":
            # reference path on a small sub-list (pure python, slow)
            sub = pairs[: min(len(pairs), 12)]
            dref = md.compute_distances(t, sub, periodic=True, opt=False)
            vref = md.compute_displacements(t, sub, periodic=True, opt=False)
            dopt = d[:, : len(sub)]
            for f in range(nf):
                raw = x64[f, sub[:, 1]] - x64[f, sub[:, 0]]
                dmin, dom = judge_dist("ref", dref[f].astype(np.float64), f, raw, B[f], "opt=False")
                bad = dom & (np.abs(dref[f] - dopt[f]) > 2 * tau)
                if bad.any():
                    j = int(np.argmax(bad))
                    ctx.violation("opt-vs-ref", "opt-vs-ref:distance", f"opt {dopt[f, j]:.6g} vs ref {dref[f, j]:.6g}", frame=f)
                ctx.ok("opt-vs-ref", int((dom & ~bad).sum()))
                r = vref[f].astype(np.float64) - raw
                n = np.round(r @ np.linalg.inv(B[f]))
                resid = np.linalg.norm(r - n @ B[f], axis=1)
                if (resid > tau).any():
                    ctx.violation("ref.lattice-congruence", "opt=False:displacement:not-lattice-shift",
                                  f"reference-path displacement is not a lattice shift of x2-x1 (residual {resid.max():.3g})", frame=f)
                else:
                    ctx.ok("ref.lattice-congruence", len(sub))
        # empty pair list
        e = md.compute_distances(t, np.zeros((0, 2), int))
        ctx.check(e.shape == (nf, 0), "empty-pairs", "empty-pairs:shape", f"empty pair list gives shape {e.shape}")

    elif kind == "t":
        ntp = int(rng.integers(1, 8))
        times = rng.integers(0, nf, (ntp, 2))
        by_opt = {}
        for opt in (True, False):
            sub = pairs if opt else pairs[:8]
            d = md.compute_distances_t(t, sub, times, periodic=True, opt=opt)
            if d.shape != (ntp, len(sub)):
                ctx.violation("distances_t", "distances_t:shape", f"shape {d.shape}")
                continue
            by_opt[opt] = d
            for k, (a, b) in enumerate(times):
                raw = x64[b, sub[:, 1]] - x64[a, sub[:, 0]]
                # The documentation does not say which frame's cell a time pair uses (the code comments say: the first);
                # a value is accepted if it is the minimum image under the cell of either frame of the pair.
                okk = np.zeros(len(sub), bool)
                domk = np.ones(len(sub), bool)
                for fr in {int(a), int(b)}:
                    vmin, dmin = geom.min_image(raw, B[fr])
                    w = common.cell_widths(B[fr]).min()
                    dom = np.ones(len(sub), bool) if orth else (dmin < w / 2 - tau)
                    domk &= dom
                    okk |= np.abs(d[k] - dmin) <= tau
                bad = domk & ~okk
                if bad.any():
                    j = int(np.argmax(bad))
                    ctx.violation("distances_t", f"distances_t:opt={opt}:not-minimum-image-in-either-frames-cell",
                                  f"distances_t(opt={opt}) {d[k, j]:.6g} for time pair ({a},{b}) is not the minimum image under the cell of frame {a} or {b}",
                                  times=[int(a), int(b)], perframe_cells=bool(case["perframe"]))
                ctx.ok("distances_t", int((domk & ~bad).sum()))
                if (~domk).any():
                    ctx.skip("distances_t", "skewed cell and d_min >= w_min/2", int((~domk).sum()))
            # non periodic variant
            d0 = md.compute_distances_t(t, sub, times, periodic=False, opt=opt)
            for k, (a, b) in enumerate(times):
                ref = np.linalg.norm(x64[b, sub[:, 1]] - x64[a, sub[:, 0]], axis=1)
                bad = np.abs(d0[k] - ref) > tau
                if bad.any():
                    ctx.violation("distances_t.plain", f"distances_t:opt={opt}:plain", f"non-periodic distances_t {d0[k][bad][0]:.6g} vs {ref[bad][0]:.6g}")
                ctx.ok("distances_t.plain", int((~bad).sum()))

        if True in by_opt and False in by_opt:
            n8 = by_opt[False].shape[1]
            bad = np.abs(by_opt[True][:, :n8] - by_opt[False]) > 2 * tau
            if orth and bad.any():
                k, j = np.argwhere(bad)[0]
                ctx.violation("distances_t.opt-vs-ref", "distances_t:opt-vs-ref", f"distances_t opt {by_opt[True][k, j]:.6g} vs reference path {by_opt[False][k, j]:.6g} "
                              f"for time pair {times[k].tolist()}", perframe_cells=bool(case["perframe"]))
            elif orth:
                ctx.ok("distances_t.opt-vs-ref", int(bad.size))

    elif kind == "closest":
        na = t.n_atoms
        if na < 2:
            ctx.skip("closest_contact", "fewer than two atoms")
            return
        perm = rng.permutation(na)
        k = int(rng.integers(1, na))
        g1, g2 = np.sort(perm[:k]), np.sort(perm[k:])
        f = int(rng.integers(0, nf))
        for periodic in (True, False):
            a1, a2, dist = md.find_closest_contact(t, g1, g2, frame=f, periodic=periodic)
            P = np.array([(i, j) for i in g1 for j in g2])
            raw = x64[f, P[:, 1]] - x64[f, P[:, 0]]
            if periodic:
                _, dall = geom.min_image(raw, B[f])
                w = common.cell_widths(B[f]).min()
                if not orth and not dall.min() < w / 2 - tau:
                    ctx.skip("closest_contact", "skewed cell and closest distance >= w_min/2")
                    continue
            else:
                dall = np.linalg.norm(raw, axis=1)
            okd = abs(dist - dall.min()) <= tau
            idx = np.where((P[:, 0] == a1) & (P[:, 1] == a2))[0]
            okp = len(idx) == 1 and dall[idx[0]] <= dall.min() + 2 * tau
            ctx.check(okd and okp, "closest_contact", f"closest_contact:periodic={periodic}:not-argmin",
                      f"find_closest_contact -> ({a1},{a2},{dist:.6g}); true minimum {dall.min():.6g}", frame=f)

    elif kind == "plain":
        tn = md.Trajectory(t.xyz, t.topology)  # no cell
        for label, tr, periodic in (("no-cell", tn, True), ("periodic=False", t, False)):
            for opt in (True, False):
                d = md.compute_distances(tr, pairs, periodic=periodic, opt=opt)
                v = md.compute_displacements(tr, pairs, periodic=periodic, opt=opt)
                raw = x64[:, pairs[:, 1]] - x64[:, pairs[:, 0]]
                ref = np.linalg.norm(raw, axis=-1)
                bad = np.abs(d - ref) > tau
                badv = np.abs(v - raw).max(axis=-1) > tau
                if bad.any() or badv.any():
                    ctx.violation("plain", f"plain:{label}:opt={opt}", f"{label} opt={opt}: distance/displacement is not the plain Euclidean value "
                                  f"(max err {np.abs(d - ref).max():.3g})")
                else:
                    ctx.ok("plain", d.size)
