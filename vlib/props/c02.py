"""C02 — partial loading equals slicing the fully loaded trajectory.

Monitor: files of every readable trajectory format hold self-identifying frames (vlib.gen.files); each partial
entry point (md.load with stride/atom_indices/frame, md.load_frame, md.iterload with chunk/stride/skip/atom_indices,
md.load of a list of files) is executed and compared **bit-for-bit** with numpy slicing of `full = md.load(file)`
(both decode the same bytes with the same decoder, so no tolerance exists).  iterload additionally: every chunk but
the last has exactly `chunk` frames, the last 1..chunk, and the generator is consumed through islice with the
logical bound ceil(m/chunk)+2 — a generator that yields more is reported as a violation decided on steps, not time.
Times are compared only for formats that store them (others synthesise times).  Topology of a partial load must be
the restriction of the full topology (own fingerprint: atom name/element/residue name/residue+chain grouping/bonds).
Thorough: exhaustive over n_frames 1..12 x chunk 0..n+2 x stride 1..5 x skip 0..n x 3 atom subsets for iterload."""
from __future__ import annotations

import atexit
import itertools
import math
import os
import shutil
import tempfile

import numpy as np

from vlib.gen import common, files

PROPERTY = "C02"
LEVEL = "exploration"
NATIVE = ["mdtraj.formats.xtc", "mdtraj.formats.trr", "mdtraj.formats.dcd", "mdtraj.formats.dtr"]
RULE = ("case = (format, n_frames, entry point, stride, chunk, skip, atom subset, frame index / file list); quick: seeded "
        "sample; thorough: exhaustive iterload grid n<=12 x chunk 0..n+2 x stride 1..5 x skip 0..n x 3 subsets per format "
        "plus the load/load_frame/list grid; non-trivial = a partial result was compared with the numpy slice of the "
        "full load; distinct = distinct descriptors")
WORKERS = {"quick": 8, "thorough": 16}
BUDGET = {"quick": 90, "thorough": 1500}
EXHAUSTIVE = {"quick": False, "thorough": True}
FMTS = ["h5", "xtc", "xtc9", "trr", "dcd", "dcd0", "dcd4", "dcdfix", "trr-double", "trr-vf", "nc", "dtr", "mdcrd", "mdcrd-nobox", "mdcrd20", "mdcrd-nobox10", "xyz", "xyz-foreign", "xyz.gz", "lammpstrj", "gro", "pdb", "pdb.gz"]
# dcd0 / dcd4: DCD files as other programs write them (stale header count; CHARMM 4-dimensional), see vlib/gen/files.py
SUBSETS = {0: None, 1: [0, 2, 3], 2: [1], 3: [0, 1, 2, 3, 4, 5]}
# ai == 4: a seeded random strictly increasing subset of 4..6 atoms (irregular gaps; readers may special-case regular ones)
# ai == 5: a regular subset (every other atom) — the class a reader may turn into a slice


NA_OF = {"xtc9": 6, "mdcrd20": 20, "mdcrd-nobox10": 10}


def subset_for(case):
    ai = case["ai"]
    if ai in SUBSETS:
        return SUBSETS[ai]
    na = NA_OF.get(case["fmt"], 12)
    if ai == 5:
        return list(range(0, na, 2))
    rng = common.rng_for("C02ai", case["fmt"], case["n"], case.get("stride", 0), case.get("chunk", 0), case.get("skip", 0), case.get("frame", 0))
    k = int(rng.integers(4, min(6, na - 1) + 1))
    return sorted(int(x) for x in rng.choice(na, size=k, replace=False))
FLOORS = {"quick": {"load.stride+atoms": 300, "load_frame": 150, "iterload.concat": 800, "iterload.chunk-sizes": 800,
                    "load.list": 80}}
ASSUMPTIONS = ["md.load(file) of the whole file is the reference (its fidelity to the written data is C01's subject); it is "
               "additionally required to identify frames 0..n-1 in order, otherwise the format is skipped",
               "times are compared only for formats that store times"]

# The TRR reader overflows a heap buffer when stride > 1 is combined with an atom subset (see known_findings.json):
# in the plain build that silently corrupts the heap and the worker dies later at an unrelated case.  Cases of that
# class therefore run only in the ASan-instrumented group, where the overflow is reported at its source and the
# functional comparison still takes place.  A memory error anywhere else kills a plain worker => reported as violation.
GROUPS = {"quick": [dict(name="asan-hazard", flavour="asan", workers=1), dict(name="asan", flavour="asan", workers=1)],
          "thorough": [dict(name="asan-hazard", flavour="asan", workers=1), dict(name="asan", flavour="asan", workers=2)]}


def _hazard(c):
    return c["fmt"] in ("trr", "trr-double", "trr-vf") and c.get("stride", 1) > 1 and c.get("ai", 0) != 0 and c["op"] in ("iterload", "load", "list")


def _grouped(gen):
    for c in gen:
        if _hazard(c):
            c["group"] = "asan-hazard"
            yield c
        else:
            yield c
            # a thin slice of every native-reader case also rides in the sanitizer build
            if c["fmt"] in ("xtc", "xtc9", "trr", "trr-double", "trr-vf", "dcd", "dcd0", "dcd4", "dcdfix", "dtr") and c["i"] % 6 == 0:
                d = dict(c)
                d["group"] = "asan"
                yield d


_TMP = None
_CACHE = {}


def worker_init(tier, seed):
    global _TMP
    _TMP = tempfile.mkdtemp(prefix="c02-", dir="/var/tmp")
    atexit.register(shutil.rmtree, _TMP, True)


def gen_cases(tier, seed):
    return _grouped(_gen_cases(tier, seed))


def _gen_cases(tier, seed):
    i = 0
    if tier == "thorough":
        for fmt in FMTS:
            for n in range(1, 13):
                for chunk in range(0, n + 3):
                    for stride in range(1, 6):
                        for skip in range(0, n + 1):
                            for ai in (0, 1, 4):
                                if ai and (chunk + stride + skip) % 3 != (1 if ai == 1 else 2):  # thin the subsets to a third each
                                    continue
                                yield dict(i=i, fmt=fmt, n=n, op="iterload", chunk=chunk, stride=stride, skip=skip, ai=ai)
                                i += 1
                for stride in range(1, 8):
                    for ai in (0, 1, 2, 3, 4, 5):
                        yield dict(i=i, fmt=fmt, n=n, op="load", stride=stride, ai=ai)
                        i += 1
                for fr in range(n):
                    yield dict(i=i, fmt=fmt, n=n, op="frame", frame=fr, ai=[0, 1, 4, 2, 5][fr % 5])
                    i += 1
            for k in (1, 2, 3):
                for stride in (1, 2, 3):
                    for ai in (0, 1):
                        yield dict(i=i, fmt=fmt, n=5, op="list", k=k, stride=stride, ai=ai)
                        i += 1
            for n in (101, 230, 517):
                for chunk in (0, 1, 64, 100, 128, n - 1, n, n + 1):
                    for stride in (1, 2, 7, 101):
                        for skip in (0, 1, 100, 101, n - 1, n):
                            yield dict(i=i, fmt=fmt, n=n, op="iterload", chunk=chunk, stride=stride, skip=skip, ai=[0, 1, 4][i % 3])
                            i += 1
                for stride in (1, 2, 7, 100, 101, n, n + 1):
                    yield dict(i=i, fmt=fmt, n=n, op="load", stride=stride, ai=i % 6)
                    i += 1
                for fr in sorted({0, 99, 100, min(101, n - 1), n - 1}):
                    yield dict(i=i, fmt=fmt, n=n, op="frame", frame=fr, ai=i % 6)
                    i += 1
        return
    nq = 12000
    for j in range(nq):
        rng = common.rng_for("C02", seed, j)
        fmt = FMTS[j % len(FMTS)]
        n = int(rng.choice([1, 2, 3, 5, 7, 10, 12]))
        op = ["iterload", "iterload", "iterload", "load", "frame", "list"][int(rng.integers(6))]
        c = dict(i=j, fmt=fmt, n=n, op=op, ai=int(rng.integers(0, 6)))
        if op == "iterload":
            c.update(chunk=int(rng.integers(0, n + 3)), stride=int(rng.choice([1, 1, 2, 3, 4, 5])),
                     skip=int(rng.choice([0, 0, int(rng.integers(0, n + 1))])))
        elif op == "load":
            c.update(stride=int(rng.integers(1, 8)))
        elif op == "frame":
            c.update(frame=int(rng.integers(0, n)))
        else:
            c.update(k=int(rng.integers(1, 4)), stride=int(rng.choice([1, 2, 3])))
        if j % 25 == 24 and op != "list":
            # long files: more frames than the default chunk of 100, strides and skips in the hundreds
            n = int(rng.choice([101, 230, 517]))
            c["n"] = n
            if op == "iterload":
                c.update(chunk=int(rng.choice([0, 1, 7, 64, 100, 128, n - 1, n, n + 1])), stride=int(rng.choice([1, 1, 2, 3, 7, 50, 101, n])),
                         skip=int(rng.choice([0, 0, 1, 99, 100, 101, n - 1, n, int(rng.integers(0, n + 1))])))
            elif op == "load":
                c.update(stride=int(rng.choice([1, 2, 7, 50, 100, 101, n - 1, n, n + 1])))
            else:
                c.update(frame=min(n - 1, int(rng.choice([0, 99, 100, 101, n - 1, int(rng.integers(0, n))]))))
        yield c


def _fp(top):
    atoms = [(a.name, a.element.symbol if a.element is not None else None, a.residue.name, a.residue.index,
              a.residue.chain.index) for a in top.atoms]
    bonds = sorted(tuple(sorted((b[0].index, b[1].index))) for b in top.bonds)
    return atoms, bonds


def _fp_subset(top, idx):
    """independent restriction of the fingerprint to idx (residues/chains renumbered contiguously, empty ones dropped)"""
    atoms, bonds = _fp(top)
    keep = list(range(len(atoms))) if idx is None else list(idx)
    remap = {old: new for new, old in enumerate(keep)}
    rmap, cmap, out = {}, {}, []
    for old in keep:
        name, el, rname, ri, ci = atoms[old]
        if ci not in cmap:
            cmap[ci] = len(cmap)
        if ri not in rmap:
            rmap[ri] = len(rmap)
        out.append((name, el, rname, rmap[ri], cmap[ci]))
    b = sorted((remap[i], remap[j]) for i, j in bonds if i in remap and j in remap)
    return out, b


def _file_for(fmt, n, f0=0):
    """(path, ext, top, full trajectory loaded by md.load, usable?)"""
    import mdtraj as md
    key = (fmt, n, f0)
    if key in _CACHE:
        return _CACHE[key]
    ext = {"xtc9": "xtc", "dcd0": "dcd", "dcd4": "dcd", "dcdfix": "dcd", "trr-double": "trr", "trr-vf": "trr", "mdcrd-nobox": "mdcrd", "mdcrd20": "mdcrd", "mdcrd-nobox10": "mdcrd",
           "xyz-foreign": "xyz"}.get(fmt, fmt)
    # mdcrd lines hold ten numbers: with 10 / 20 atoms the last coordinate line of every frame is full
    na = NA_OF.get(fmt, 12)
    cell = "ortho" if files.FORMATS[ext]["cell"] and fmt not in ("dcd4", "dcdfix", "mdcrd-nobox", "mdcrd-nobox10") else None
    t = files.ident_traj(n, na, cell=cell, f0=f0)
    path = os.path.join(_TMP, f"f_{fmt}_{n}_{f0}.{ext}")
    t.save(path)
    if fmt == "xyz-foreign":
        files.xyz_make_foreign(path)
    if fmt == "dcd0":
        files.dcd_set_nset(path, 0)
    elif fmt == "dcd4":
        os.rename(path, path + ".3d")
        files.dcd_make_4d(path + ".3d", path, na, n)
    elif fmt == "dcdfix":
        os.rename(path, path + ".all")
        files.dcd_make_fixed(path + ".all", path, na, n)
    elif fmt in ("trr-double", "trr-vf"):
        files.trr_write_foreign(path, t.xyz, t.unitcell_vectors, t.time, double=(fmt == "trr-double"), velocities=True, forces=True)
    kw = files.load_kwargs(ext, t.topology)
    full = md.load(path, **kw)
    f, a = files.identify(full.xyz)
    good = (full.n_frames == n and np.array_equal(f[:, 0], (np.arange(n) + f0) % 40) and np.array_equal(a[0], np.arange(na)))
    _CACHE[key] = (path, ext, t.topology, full, good, kw)
    if len(_CACHE) > 400:
        _CACHE.pop(next(iter(_CACHE)))
    return _CACHE[key]


def _cmp_fields(ctx, monitor, key, got, full, fsel, idx, ext, what):
    """bit-for-bit comparison of a partial result with the numpy slice `fsel` (frame index array) / atom subset idx.
    The key gets a suffix naming WHAT differs (frames / atoms / values / time / cell / topology)."""
    exp_xyz = full.xyz[fsel] if idx is None else full.xyz[fsel][:, idx]
    problems, suffix = [], None
    if got.xyz.shape != exp_xyz.shape or not np.array_equal(got.xyz, exp_xyz):
        try:
            f, a = files.identify(got.xyz)
            fr = f[:, 0].astype(int).tolist() if got.xyz.ndim == 3 and got.xyz.shape[1] else []
        except Exception:
            fr = None
        exp_fr = (np.asarray(fsel) % 40).tolist()
        if got.xyz.ndim != 3 or got.xyz.shape[0] != exp_xyz.shape[0] or fr != exp_fr:
            suffix = "wrong-frames"
        elif got.xyz.shape[1] != exp_xyz.shape[1]:
            suffix = "wrong-atoms"
        else:
            suffix = "wrong-values"
        problems.append(f"xyz shape {got.xyz.shape} expected {exp_xyz.shape}; frames identify as {fr if fr is None else fr[:20]}, expected {exp_fr[:20]}")
    if not problems:
        if files.FORMATS[ext]["time"]:
            if not np.array_equal(got.time, full.time[fsel]):
                suffix = "time"
                problems.append(f"time {got.time.tolist()[:8]} expected {full.time[fsel].tolist()[:8]}")
        else:
            ctx.skip(monitor + ".time", "format does not store times (synthesised)")
        if full.unitcell_lengths is not None:
            # compared in float32, the documented type of these attributes: a Trajectory built from float64 box vectors (gro)
            # keeps float64 lengths/angles until the first slice or join casts them, so the two sides may differ in type
            f32 = lambda v: np.asarray(v, dtype=np.float32)  # noqa: E731
            if got.unitcell_lengths is None or not (np.array_equal(f32(got.unitcell_lengths), f32(full.unitcell_lengths[fsel]))
                                                    and np.array_equal(f32(got.unitcell_angles), f32(full.unitcell_angles[fsel]))):
                suffix = suffix or "cell"
                problems.append("unit cell differs from the slice of the full load")
        elif got.unitcell_lengths is not None:
            suffix = suffix or "cell"
            problems.append("partial load has a unit cell, full load has none")
        if _fp(got.topology) != _fp_subset(full.topology, idx):
            suffix = suffix or "topology"
            problems.append("topology is not the restriction of the full topology to atom_indices")
    if problems:
        ctx.violation(monitor, f"{key}:{suffix}", f"{what}: " + "; ".join(problems))
        return False
    ctx.ok(monitor)
    return True


def _opts(case):
    o = []
    if case.get("stride", 1) > 1:
        o.append("stride>1")
    if case.get("skip", 0) > 0:
        o.append("skip>0")
    if case.get("skip", 0) == case["n"]:
        o.append("skip=n")
    return ",".join(o)


def run_case(case, ctx):
    if case.get("group") == "asan-hazard":
        # Only the sanitizer judges here: after the known TRR overflow the heap of this process is corrupt, so every
        # functional comparison in it would report consequences, not causes.  The call is made so ASan can observe it.
        from vlib.ctx import Ctx
        shadow = Ctx(ctx.prop, case)
        try:
            _run_case(case, shadow)
        except Exception:
            pass
        ctx.skip("hazard-class", "trr + stride>1 + atom subset: executed under ASan only, functional result not judged "
                                 "(known heap overflow corrupts the process)")
        ctx.observe("asan_hazard_cases_executed", case["op"])
        return
    _run_case(case, ctx)


def _run_case(case, ctx):
    import mdtraj as md
    fmt, n = case["fmt"], case["n"]
    path, ext, top, full, good, kw = _file_for(fmt, n)
    if kw:
        # a fresh Topology object per case: mdtraj must not be able to carry state from one call into the next
        kw = {"top": files.ident_top(top.n_atoms)}
    if not good:
        ctx.skip("reference", f"{fmt}: md.load of the whole file does not identify frames 0..n-1 (C01's subject)")
        return
    idx = subset_for(case)
    aik = {} if idx is None else {"atom_indices": np.array(idx)}
    ctx.observe("format", fmt)
    ctx.observe("op", case["op"])
    op = case["op"]
    if op == "load":
        s = case["stride"]
        ctx.observe("stride", s)
        got = md.load(path, stride=s, **aik, **kw)
        _cmp_fields(ctx, "load.stride+atoms", f"{fmt}:load[{_opts(case)}]:differs", got, full, np.arange(n)[::s], idx, ext,
                    f"md.load({fmt}, stride={s}, atom_indices={idx})")
    elif op == "frame":
        fr = case["frame"]
        try:
            got = md.load_frame(path, fr, **aik, **kw)
        except NotImplementedError:
            ctx.skip("load_frame", f"{fmt}: single-frame loading not offered (NotImplementedError)")
            return
        if fmt == "dtr" and got.n_frames == n - fr and n - fr > 1:
            ctx.violation("load_frame", "dtr:read_as_traj-ignores-n_frames", f"md.load_frame(dtr, {fr}) returned the {got.n_frames} remaining frames instead of 1")
            return
        ok1 = _cmp_fields(ctx, "load_frame", f"{fmt}:load_frame[{_opts(case)}]:differs", got, full, np.array([fr]), idx, ext,
                          f"md.load_frame({fmt}, {fr}, atom_indices={idx})")
        got = md.load(path, frame=fr, **aik, **kw)
        _cmp_fields(ctx, "load_frame", f"{fmt}:load(frame=)[{_opts(case)}]:differs", got, full, np.array([fr]), idx, ext,
                    f"md.load({fmt}, frame={fr}, atom_indices={idx})")
    elif op == "list":
        k, s = case["k"], case["stride"]
        parts = [_file_for(fmt, n, f0=7 * j) for j in range(k)]
        if not all(p[4] for p in parts):
            ctx.skip("reference", f"{fmt}: reference load not usable")
            return
        paths = [p[0] for p in parts]
        got = md.load(paths, stride=s, **aik, **kw)
        exp_xyz = np.concatenate([p[3].xyz[::s] if idx is None else p[3].xyz[::s][:, idx] for p in parts])
        prob = []
        if got.xyz.shape != exp_xyz.shape or not np.array_equal(got.xyz, exp_xyz):
            prob.append(f"xyz differs from the concatenation of the individual loads (shape {got.xyz.shape} vs {exp_xyz.shape})")
        if files.FORMATS[ext]["time"]:
            et = np.concatenate([p[3].time[::s] for p in parts])
            if got.time.shape != et.shape or not np.array_equal(got.time, et):
                prob.append("time differs")
        if full.unitcell_lengths is not None:
            el = np.concatenate([p[3].unitcell_lengths[::s] for p in parts])
            if got.unitcell_lengths is None or not np.array_equal(got.unitcell_lengths, el):
                prob.append("unit cell differs / dropped")
        if not prob and _fp(got.topology) != _fp_subset(full.topology, idx):
            prob.append("topology is not the restricted topology")
        if kw and idx is not None:
            # the caller's topology object must still behave after the call (history: list load, then any other load)
            try:
                n1 = kw["top"].subset([0]).n_atoms
                n2 = kw["top"].subset([0, 1, 2, 3]).n_atoms
                ctx.check((n1, n2) == (1, 4), "load.list.top-intact", "load(list,top=Topology,atom_indices):replaces-subset-method-of-callers-topology",
                          f"after md.load([..{k} files..], top=<Topology>, atom_indices={idx}) the caller's topology.subset([0]) has {n1} atoms and subset([0,1,2,3]) has {n2}")
            except Exception as e:
                ctx.violation("load.list.top-intact", "load(list,top=Topology,atom_indices):replaces-subset-method-of-callers-topology", f"caller's topology unusable after list load: {e!r}")
        if prob:
            ctx.violation("load.list", f"{fmt}:load(list)[{_opts(case)}]:differs-from-join", f"md.load(list of {k} {fmt} files, stride={s}, atoms={idx}): " + "; ".join(prob))
        else:
            ctx.ok("load.list")
    elif op == "iterload":
        chunk, s, skip = case["chunk"], case["stride"], case["skip"]
        ctx.observe("chunk_mod_stride", "0" if chunk == 0 or chunk % s == 0 else "!=0")
        ctx.observe("skip", "0" if skip == 0 else ("n" if skip == n else "mid"))
        fsel = np.arange(n)[skip::s]
        m = len(fsel)
        bound = (1 if chunk == 0 else math.ceil(m / chunk)) + 2
        # same reader: the 9-atom threshold only changes the frame encoding, precision / extra blocks only the frame size
        kf = {"xtc9": "xtc", "trr-double": "trr", "trr-vf": "trr"}.get(fmt, fmt)
        tag = f"{kf}:iterload(chunk=0)" if chunk == 0 else f"{kf}:iterload"
        what = f"md.iterload({fmt}, n={n}, chunk={chunk}, stride={s}, skip={skip}, atom_indices={idx})"
        try:
            gen = md.iterload(path, chunk=chunk, stride=s, skip=skip, **aik, **kw)
            chunks = list(itertools.islice(gen, bound + 1))
        except NotImplementedError:
            ctx.skip("iterload", f"{fmt}: iterload with {'skip' if skip else 'these options'} not offered (NotImplementedError)")
            return
        except Exception as e:
            o = "skip=n" if skip == n else _opts(case)
            ctx.violation("iterload.raises", f"{tag}[{o}]:raises:{type(e).__name__}", f"{what} raised {type(e).__name__}: {e}")
            return
        if fmt == "dtr" and chunk > 0:
            # model of the known DTR behaviour (dtr.pyx read_as_traj drops n_frames; read() advances the position by the
            # number of frames returned): if the observed chunks are exactly what that predicts, it is that one mechanism
            pred, pos = [], skip
            while len(pred) <= bound + 1:
                fr_ = list(range(n))[pos::s]
                if not fr_:
                    break
                pred.append([x % 40 for x in fr_])
                pos += len(fr_)
            obs = [files.identify(c.xyz)[0][:, 0].astype(int).tolist() for c in chunks]
            exp_chunks = [(fsel[j:j + chunk] % 40).tolist() for j in range(0, m, chunk)]
            if obs != exp_chunks and obs == pred[:len(obs)]:
                ctx.violation("iterload.concat", "dtr:read_as_traj-ignores-n_frames", f"{what}: chunks hold frames {obs[:6]}, expected {exp_chunks[:6]}")
                return
        if len(chunks) > bound:
            ids = [files.identify(c.xyz)[0][:, 0].astype(int).tolist() for c in chunks[:8]]
            ctx.violation("iterload.terminates", f"{tag}[{_opts(case)}]:yields-more-chunks-than-frames-allow",
                          f"{what} yielded more than {bound} chunks (logical bound); first chunks hold frames {ids}")
            return
        ctx.ok("iterload.terminates")
        sizes = [c.n_frames for c in chunks]
        if m == 0:
            ok_sizes = sum(sizes) == 0
        elif chunk == 0:
            ok_sizes = sizes == [m]
        else:
            ok_sizes = all(x == chunk for x in sizes[:-1]) and 1 <= sizes[-1] <= chunk and len(sizes) == math.ceil(m / chunk)
        if m == 0 and not chunks:
            ctx.ok("iterload.concat")
            ctx.ok("iterload.chunk-sizes")
            return
        cat = chunks[0] if len(chunks) == 1 else md.join(chunks, check_topology=False) if chunks else None
        if cat is None:
            ctx.violation("iterload.concat", f"{tag}[{_opts(case)}]:no-chunks", f"{what} yielded nothing, expected {m} frames")
            return
        good_cat = _cmp_fields(ctx, "iterload.concat", f"{tag}[{_opts(case)}]:concatenation", cat, full, fsel, idx, ext, what)
        if good_cat:
            if ok_sizes:
                ctx.ok("iterload.chunk-sizes")
            else:
                ctx.violation("iterload.chunk-sizes", f"{tag}[{_opts(case)}]:chunk-sizes", f"{what}: chunk sizes {sizes}, expected all {chunk} (last 1..{chunk}) for {m} frames")
