"""C02 — partial loading equals slicing the fully loaded trajectory.

Monitor: files of every readable trajectory format hold self-identifying frames (vlib.gen.files); each partial
entry point (md.load with stride/atom_indices/frame, md.load_frame, md.iterload with chunk/stride/skip/atom_indices,
md.load of a list of files) is executed and compared **bit-for-bit** with numpy slicing of `full = md.load(file)`
(both decode the same bytes with the same decoder, so no tolerance exists).  iterload additionally: every chunk but
the last has exactly `chunk` frames, the last 1..chunk, and the generator is consumed through islice with the
logical bound ceil(m/chunk)+2 — a generator that yields more is reported as a violation decided on steps, not time.
Times are compared only for formats that store them (others synthesise times).  Topology of a partial load must be
the restriction of the full topology (own fingerprint: atom name/element/residue name/residue+chain grouping/bonds).
Thorough: exhaustive over n_frames 1..12 x chunk 0..n+2 x stride 1..5 x skip 0..n x 3 atom subsets for iterload.

Round-5 widening (input classes, same oracle): files as other programs write them (LAMMPS dumps with other column sets /
triclinic bounds / unsorted atoms, extended XYZ with extra columns, AMBER NetCDF with velocities/forces/temp0, HDF5 with all
optional fields, GROMACS .gro with velocities and 3-number box or without time, RCSB-style PDB with ANISOU/HETATM/altloc/TER,
big-endian / 64-bit-record / degree-angle DCD, TRR with frames of different sizes, mdcrd with other title and CRLF, Desmond
clickme.dtr path and .stk lists, TINKER .arc, AMBER restart files, XTC frames so compressible that reading to the end needs
several buffer chunks), extension aliases (.hdf5 .netcdf .ncdf .crd), and option classes of the entry points: top= given as
Topology / Trajectory / path string / pathlib.Path (and top= for the self-describing pdb / gro), atom_indices as ndarray
int64 / list / int32 / non-contiguous view / tuple, file name as pathlib.Path, frame= together with stride= (documented:
stride ignored), lists with discard_overlapping_frames (overlapping and not)."""
from __future__ import annotations

import atexit
import itertools
import math
import os
import pathlib
import shutil
import tempfile

import numpy as np

from vlib.gen import common, files

PROPERTY = "C02"
LEVEL = "exploration"
NATIVE = ["mdtraj.formats.xtc", "mdtraj.formats.trr", "mdtraj.formats.dcd", "mdtraj.formats.dtr"]
RULE = ("case = (format, n_frames, entry point, stride, chunk, skip, atom subset, frame index / file list); quick: seeded "
        "sample; thorough: exhaustive iterload grid n<=12 x chunk 0..n+2 x stride 1..5 x skip 0..n x 3 subsets per format "
        "plus the load/load_frame/list grid; non-trivial = a partial result was compared with the numpy slice of the "
        "full load; round-5 streams: the same entry points on 27 further file classes (files of other programs, aliases, read-only and restart formats) and with the option classes of the entry points (top / atom_indices / file name kinds, frame+stride, discard_overlapping_frames); distinct = distinct descriptors")
WORKERS = {"quick": 8, "thorough": 16}
BUDGET = {"quick": 90, "thorough": 1500}
EXHAUSTIVE = {"quick": False, "thorough": True}
FMTS = ["h5", "xtc", "xtc9", "trr", "dcd", "dcd0", "dcd4", "dcdfix", "trr-double", "trr-vf", "nc", "dtr", "mdcrd", "mdcrd-nobox", "mdcrd20", "mdcrd-nobox10", "xyz", "xyz-foreign", "xyz.gz", "lammpstrj", "gro", "pdb", "pdb.gz"]
OLD_FMTS = list(FMTS)   # the pre-widening stream keeps drawing from this list, so its cases are unchanged
# round-5 classes (see module docstring and vlib/gen/files.py); WIDE_EXT maps the class to the real file extension
WIDE_EXT = files.WIDE_EXT
WIDE = list(WIDE_EXT)
FMTS = FMTS + WIDE
RESTART = ("rst7", "ncrst")   # single-frame formats: loaders take atom_indices only (no stride / frame / chunked reading)
# capabilities per real extension (files.FORMATS + aliases and read-only formats)
CAP = dict(files.FORMATS)
CAP.update({"hdf5": files.FORMATS["h5"], "netcdf": files.FORMATS["nc"], "ncdf": files.FORMATS["nc"], "crd": files.FORMATS["mdcrd"],
            "stk": files.FORMATS["dtr"], "arc": dict(time=False, cell=True, self_top=True, unit=10.0),
            "rst7": dict(time=True, cell=True, self_top=False, unit=10.0), "ncrst": dict(time=True, cell=True, self_top=False, unit=10.0)})
# dcd0 / dcd4: DCD files as other programs write them (stale header count; CHARMM 4-dimensional), see vlib/gen/files.py
SUBSETS = {0: None, 1: [0, 2, 3], 2: [1], 3: [0, 1, 2, 3, 4, 5]}
# ai == 4: a seeded random strictly increasing subset of 4..6 atoms (irregular gaps; readers may special-case regular ones)
# ai == 5: a regular subset (every other atom) — the class a reader may turn into a slice


NA_OF = {"xtc9": 6, "mdcrd20": 20, "mdcrd-nobox10": 10, "xtc-dense": 600}


def subset_for(case):
    ai = case["ai"]
    if ai in SUBSETS:
        return SUBSETS[ai]
    na = NA_OF.get(case["fmt"], 12)
    if ai == 5:
        return list(range(0, na, 2))
    rng = common.rng_for("C02ai", case["fmt"], case["n"], case.get("stride", 0), case.get("chunk", 0), case.get("skip", 0), case.get("frame", 0))
    k = int(rng.integers(4, min(6, na - 1) + 1))
    return sorted(int(x) for x in rng.choice(na, size=k, replace=False))
FLOORS = {"quick": {"load.stride+atoms": 300, "load_frame": 150, "iterload.concat": 800, "iterload.chunk-sizes": 800,
                    "load.list": 80}}
ASSUMPTIONS = ["md.load(file) of the whole file is the reference (its fidelity to the written data is C01's subject); it is "
               "additionally required to identify frames 0..n-1 in order, otherwise the format is skipped",
               "times are compared only for formats that store times"]

# The TRR reader overflows a heap buffer when stride > 1 is combined with an atom subset (see known_findings.json):
# in the plain build that silently corrupts the heap and the worker dies later at an unrelated case.  Cases of that
# class therefore run only in the ASan-instrumented group, where the overflow is reported at its source and the
# functional comparison still takes place.  A memory error anywhere else kills a plain worker => reported as violation.
GROUPS = {"quick": [dict(name="asan-hazard", flavour="asan", workers=1), dict(name="asan", flavour="asan", workers=1)],
          "thorough": [dict(name="asan-hazard", flavour="asan", workers=1), dict(name="asan", flavour="asan", workers=2)]}


def _hazard(c):
    # (load_trr hands stride= to the reader also when frame= is given, so frame+stride on an atom subset is the same class)
    return c["fmt"] in ("trr", "trr-double", "trr-vf", "trr-mixed") and c.get("ai", 0) != 0 and (
        c.get("stride", 1) > 1 and c["op"] in ("iterload", "load", "list") or bool(c.get("fs")) and c["op"] == "frame")


def _grouped(gen):
    for c in gen:
        if _hazard(c):
            c["group"] = "asan-hazard"
            yield c
        else:
            yield c
            # a thin slice of every native-reader case also rides in the sanitizer build
            if c["fmt"] in ("xtc", "xtc9", "trr", "trr-double", "trr-vf", "dcd", "dcd0", "dcd4", "dcdfix", "dtr", "trr-mixed", "dcd-be", "dcd-rec64", "dcd-deg", "dtr-clickme", "stk", "xtc-dense") and c["i"] % 6 == 0:
                d = dict(c)
                d["group"] = "asan"
                yield d


_TMP = None
_CACHE = {}


def worker_init(tier, seed):
    global _TMP
    _TMP = tempfile.mkdtemp(prefix="c02-", dir="/var/tmp")
    atexit.register(shutil.rmtree, _TMP, True)


SMALLINT_EXTS = ["h5", "xtc", "trr", "dcd", "nc", "mdcrd", "xyz", "xyz.gz", "lammpstrj", "gro", "pdb", "dtr", "rst7", "ncrst"]


def gen_cases(tier, seed):
    import itertools
    return itertools.chain(_grouped(_gen_cases(tier, seed)), _gen_smallint(tier, seed))


def _gen_smallint(tier, seed):
    # atom_indices in small integer dtypes (uint8, int8, uint16, int16) on systems large enough that multiples of an index no
    # longer fit the dtype (3 * 100 > 255): an index array must select the same atoms whatever integer type it has
    for k, ext in enumerate(SMALLINT_EXTS):
        for op in ("load", "frame", "iterload"):
            yield dict(i=10 ** 7 + 3 * k + ["load", "frame", "iterload"].index(op), fmt=ext, n=3, op=op, kind="smallint", na=int([130, 200][(k + seed) % 2]),
                       seed=common.case_seed(seed, "C02smallint", k))


def _run_smallint(case, ctx):
    import mdtraj as md
    ext, na, op = case["fmt"], case["na"], case["op"]
    rng = common.rng_for("C02si", case["seed"])
    restart = ext in ("rst7", "ncrst")
    nf = 1 if restart else 3
    top = files.ident_top(na)
    t = md.Trajectory(rng.uniform(-4, 4, (nf, na, 3)).astype(np.float32), top, time=np.arange(nf, dtype=np.float32),
                      unitcell_lengths=np.full((nf, 3), 9.0, np.float32), unitcell_angles=np.full((nf, 3), 90.0, np.float32))
    d = tempfile.mkdtemp(prefix="si-", dir=_TMP or "/var/tmp")
    try:
        path = os.path.join(d, "big." + ext)
        t.save(path)
        kw = {} if ext in ("h5", "gro", "pdb") else {"top": top}
        full = md.load(path, **kw)
        if full.n_atoms != na or full.n_frames != nf:
            ctx.skip("smallint", f"{ext}: the full load does not return {nf} x {na} (C01's subject)")
            return
        if restart and op != "load":
            ctx.skip("smallint", "restart files: md.load only")
            return
        if ext == "dtr" and op != "load":
            ctx.skip("smallint", "dtr: load_frame / iterload return the remaining frames (known finding dtr:read_as_traj-ignores-n_frames, judged in the main stream)")
            return
        for dt, hi in ((np.uint8, 255), (np.int8, 127), (np.uint16, na - 1), (np.int16, na - 1)):
            top_i = min(hi, na - 1)
            idx = np.unique(np.concatenate([[0, 43, 85, 86, 100, top_i], rng.integers(0, top_i + 1, 6)])).astype(np.int64)
            arr = idx.astype(dt)
            ctx.observe("atom_indices_dtype", np.dtype(dt).name)
            what = f"{ext} {op} with atom_indices as {np.dtype(dt).name} (largest index {int(idx.max())}, {na} atoms)"
            try:
                if op == "load":
                    got = md.load(path, atom_indices=arr, **kw)
                    fsel = np.arange(nf)
                elif op == "frame":
                    got = md.load_frame(path, 1, atom_indices=arr, **kw)
                    fsel = np.array([1])
                else:
                    chunks = list(md.iterload(path, chunk=2, atom_indices=arr, **kw))
                    got = chunks[0] if len(chunks) == 1 else md.join(chunks, check_topology=False)
                    fsel = np.arange(nf)
            except NotImplementedError:
                ctx.skip("smallint", f"{ext}: {op} is not offered (NotImplementedError)")
                break
            except Exception as e:
                ctx.violation("smallint", f"{ext}:{op}:atom_indices[{np.dtype(dt).name}]:raises:{type(e).__name__}", f"{what} raised {e!r}")
                continue
            exp = full.xyz[fsel][:, idx]
            if got.xyz.shape != exp.shape or not np.array_equal(got.xyz, exp):
                ctx.violation("smallint", f"{ext}:{op}:atom_indices[small-integer-dtype]:other-atoms-than-with-int64",
                              f"{what}: coordinates are not those of the listed atoms in the full load")
            elif [a.index for a in got.topology.atoms] != list(range(len(idx))) or [a.name for a in got.topology.atoms] != [full.topology.atom(int(i)).name for i in idx]:
                ctx.violation("smallint", f"{ext}:{op}:atom_indices[small-integer-dtype]:topology-not-the-listed-atoms", f"{what}: topology does not hold the listed atoms")
            else:
                ctx.ok("smallint")
    finally:
        shutil.rmtree(d, ignore_errors=True)


def _gen_cases(tier, seed):
    i = 0
    if tier == "thorough":
        for fmt in OLD_FMTS:
            for n in range(1, 13):
                for chunk in range(0, n + 3):
                    for stride in range(1, 6):
                        for skip in range(0, n + 1):
                            for ai in (0, 1, 4):
                                if ai and (chunk + stride + skip) % 3 != (1 if ai == 1 else 2):  # thin the subsets to a third each
                                    continue
                                yield dict(i=i, fmt=fmt, n=n, op="iterload", chunk=chunk, stride=stride, skip=skip, ai=ai)
                                i += 1
                for stride in range(1, 8):
                    for ai in (0, 1, 2, 3, 4, 5):
                        yield dict(i=i, fmt=fmt, n=n, op="load", stride=stride, ai=ai)
                        i += 1
                for fr in range(n):
                    yield dict(i=i, fmt=fmt, n=n, op="frame", frame=fr, ai=[0, 1, 4, 2, 5][fr % 5])
                    i += 1
            for k in (1, 2, 3):
                for stride in (1, 2, 3):
                    for ai in (0, 1):
                        yield dict(i=i, fmt=fmt, n=5, op="list", k=k, stride=stride, ai=ai)
                        i += 1
            for n in (101, 230, 517):
                for chunk in (0, 1, 64, 100, 128, n - 1, n, n + 1):
                    for stride in (1, 2, 7, 101):
                        for skip in (0, 1, 100, 101, n - 1, n):
                            yield dict(i=i, fmt=fmt, n=n, op="iterload", chunk=chunk, stride=stride, skip=skip, ai=[0, 1, 4][i % 3])
                            i += 1
                for stride in (1, 2, 7, 100, 101, n, n + 1):
                    yield dict(i=i, fmt=fmt, n=n, op="load", stride=stride, ai=i % 6)
                    i += 1
                for fr in sorted({0, 99, 100, min(101, n - 1), n - 1}):
                    yield dict(i=i, fmt=fmt, n=n, op="frame", frame=fr, ai=i % 6)
                    i += 1
        yield from _wide_cases(tier, seed, i)
        return
    nq = 12000
    for j in range(nq):
        rng = common.rng_for("C02", seed, j)
        fmt = OLD_FMTS[j % len(OLD_FMTS)]
        n = int(rng.choice([1, 2, 3, 5, 7, 10, 12]))
        op = ["iterload", "iterload", "iterload", "load", "frame", "list"][int(rng.integers(6))]
        c = dict(i=j, fmt=fmt, n=n, op=op, ai=int(rng.integers(0, 6)))
        if op == "iterload":
            c.update(chunk=int(rng.integers(0, n + 3)), stride=int(rng.choice([1, 1, 2, 3, 4, 5])),
                     skip=int(rng.choice([0, 0, int(rng.integers(0, n + 1))])))
        elif op == "load":
            c.update(stride=int(rng.integers(1, 8)))
        elif op == "frame":
            c.update(frame=int(rng.integers(0, n)))
        else:
            c.update(k=int(rng.integers(1, 4)), stride=int(rng.choice([1, 2, 3])))
        if j % 25 == 24 and op != "list":
            # long files: more frames than the default chunk of 100, strides and skips in the hundreds
            n = int(rng.choice([101, 230, 517]))
            c["n"] = n
            if op == "iterload":
                c.update(chunk=int(rng.choice([0, 1, 7, 64, 100, 128, n - 1, n, n + 1])), stride=int(rng.choice([1, 1, 2, 3, 7, 50, 101, n])),
                         skip=int(rng.choice([0, 0, 1, 99, 100, 101, n - 1, n, int(rng.integers(0, n + 1))])))
            elif op == "load":
                c.update(stride=int(rng.choice([1, 2, 7, 50, 100, 101, n - 1, n, n + 1])))
            else:
                c.update(frame=min(n - 1, int(rng.choice([0, 99, 100, 101, n - 1, int(rng.integers(0, n))]))))
        yield c
    yield from _wide_cases(tier, seed, nq)


def _draw(rng, fmt, n, op, long_=False):
    """one case descriptor of the same shape as the pre-widening stream"""
    c = dict(fmt=fmt, n=n, op=op, ai=int(rng.integers(0, 6)))
    if op == "iterload":
        if long_:
            c.update(chunk=int(rng.choice([0, 1, 7, 64, 100, 128, n - 1, n, n + 1])), stride=int(rng.choice([1, 1, 2, 3, 7, 50, 101, n])),
                     skip=int(rng.choice([0, 0, 1, 99, 100, 101, n - 1, n, int(rng.integers(0, n + 1))])))
        else:
            c.update(chunk=int(rng.integers(0, n + 3)), stride=int(rng.choice([1, 1, 2, 3, 4, 5])), skip=int(rng.choice([0, 0, int(rng.integers(0, n + 1))])))
    elif op == "load":
        c.update(stride=int(rng.choice([1, 2, 7, 50, 100, 101, n - 1, n, n + 1])) if long_ else int(rng.integers(1, 8)))
    elif op == "frame":
        c.update(frame=min(n - 1, int(rng.choice([0, 99, 100, 101, n - 1, int(rng.integers(0, n))]))) if long_ else int(rng.integers(0, n)))
    else:
        c.update(k=int(rng.integers(1, 4)), stride=int(rng.choice([1, 2, 3])))
    return c


def _wide_cases(tier, seed, i0):
    """round-5 classes: (a) the foreign / alias / read-only file classes through every entry point, (b) option classes of the
    entry points on all formats (how top=, atom_indices= and the file name are passed, frame= with stride=, lists with
    discard_overlapping_frames)"""
    i = i0
    if tier == "thorough":
        # a grid per new class, thinner than the exhaustive one of the original formats (same decoder classes underneath)
        for fmt in WIDE:
            if fmt in RESTART:
                for ai in range(6):
                    yield dict(i=i, fmt=fmt, n=1, op="load", stride=1, ai=ai)
                    i += 1
                    yield dict(i=i, fmt=fmt, n=1, op="list", k=1 + ai % 3, stride=1, ai=ai % 2)
                    i += 1
                continue
            for n in (1, 2, 3, 5, 7, 10, 12):
                for chunk in sorted({0, 1, 2, 3, n - 1, n, n + 1} - {-1}):
                    for stride in (1, 2, 3, 5):
                        for skip in sorted({0, 1, n // 2, n - 1, n} - {-1}):
                            yield dict(i=i, fmt=fmt, n=n, op="iterload", chunk=chunk, stride=stride, skip=skip, ai=[0, 1, 4][i % 3])
                            i += 1
                for stride in range(1, 8):
                    yield dict(i=i, fmt=fmt, n=n, op="load", stride=stride, ai=i % 6)
                    i += 1
                for fr in range(n):
                    yield dict(i=i, fmt=fmt, n=n, op="frame", frame=fr, ai=[0, 1, 4, 2, 5][fr % 5])
                    i += 1
            for k in (1, 2, 3):
                for stride in (1, 2):
                    yield dict(i=i, fmt=fmt, n=5, op="list", k=k, stride=stride, ai=i % 2)
                    i += 1
            for n in (101, 230):
                for chunk in (0, 1, 100, n - 1, n + 1):
                    for stride in (1, 2, 7, 101):
                        for skip in (0, 100, n - 1, n):
                            yield dict(i=i, fmt=fmt, n=n, op="iterload", chunk=chunk, stride=stride, skip=skip, ai=[0, 1, 4][i % 3])
                            i += 1
                for stride in (1, 7, 100, n, n + 1):
                    yield dict(i=i, fmt=fmt, n=n, op="load", stride=stride, ai=i % 6)
                    i += 1
                for fr in sorted({0, 100, n - 1}):
                    yield dict(i=i, fmt=fmt, n=n, op="frame", frame=fr, ai=i % 6)
                    i += 1
    nw = {"quick": 5200, "thorough": 12000}[tier]
    for j in range(nw):
        rng = common.rng_for("C02wide", seed, j)
        fmt = WIDE[j % len(WIDE)]
        if fmt in RESTART:
            c = dict(fmt=fmt, n=1, op=["load", "load", "list"][int(rng.integers(3))], ai=int(rng.integers(0, 6)), stride=1)
            if c["op"] == "list":
                c["k"] = int(rng.integers(1, 4))
        else:
            long_ = j % 25 == 24
            n = int(rng.choice([101, 230, 517])) if long_ else int(rng.choice([1, 2, 3, 5, 7, 10, 12]))
            op = ["iterload", "iterload", "iterload", "load", "frame", "list"][int(rng.integers(6))]
            if long_ and op == "list":
                op = "load"
            c = _draw(rng, fmt, n, op, long_)
        c["i"] = i
        yield c
        i += 1
    # (b) option classes, over every format (old and new)
    no = {"quick": 3600, "thorough": 20000}[tier]
    allf = [f for f in FMTS if f not in RESTART]
    for j in range(no):
        rng = common.rng_for("C02opt", seed, j)
        fmt = allf[j % len(allf)]
        long_ = j % 40 == 39
        n = int(rng.choice([101, 230])) if long_ else int(rng.choice([1, 2, 3, 5, 7, 10, 12]))
        op = ["iterload", "load", "frame", "list", "list"][int(rng.integers(5))]
        if long_ and op == "list":
            op = "iterload"
        c = _draw(rng, fmt, n, op, long_)
        c["i"] = i
        which = int(rng.integers(5))
        if which == 0 or op == "list" and which == 4:
            c["tk"] = int(rng.integers(1, 4))       # how the topology is supplied
        elif which == 1:
            c["ak"] = int(rng.integers(1, 5))       # container / dtype / contiguity of atom_indices
            if c["ai"] == 0:
                c["ai"] = int(rng.integers(1, 6))
        elif which == 2:
            c["pk"] = 1                             # file name(s) as pathlib.Path
        elif which == 3 and op == "frame":
            c["fs"] = int(rng.choice([2, 3, 7]))    # frame= together with stride= (documented: stride is ignored)
        else:
            c["tk"], c["ak"], c["pk"] = int(rng.integers(0, 4)), int(rng.integers(0, 5)), int(rng.integers(0, 2))
            if c["ak"] and c["ai"] == 0:
                c["ai"] = int(rng.integers(1, 6))
        if op == "list":
            c["discard"] = bool(rng.random() < 0.75)
            c["overlap"] = bool(rng.random() < 0.7)
            c["k"] = int(rng.integers(2, 4))
            c["n"] = int(rng.choice([1, 2, 3, 5, 7]))
        yield c
        i += 1


def _fp(top):
    atoms = [(a.name, a.element.symbol if a.element is not None else None, a.residue.name, a.residue.index,
              a.residue.chain.index) for a in top.atoms]
    bonds = sorted(tuple(sorted((b[0].index, b[1].index))) for b in top.bonds)
    return atoms, bonds


def _fp_subset(top, idx):
    """independent restriction of the fingerprint to idx (residues/chains renumbered contiguously, empty ones dropped)"""
    atoms, bonds = _fp(top)
    keep = list(range(len(atoms))) if idx is None else list(idx)
    remap = {old: new for new, old in enumerate(keep)}
    rmap, cmap, out = {}, {}, []
    for old in keep:
        name, el, rname, ri, ci = atoms[old]
        if ci not in cmap:
            cmap[ci] = len(cmap)
        if ri not in rmap:
            rmap[ri] = len(rmap)
        out.append((name, el, rname, rmap[ri], cmap[ci]))
    b = sorted((remap[i], remap[j]) for i, j in bonds if i in remap and j in remap)
    return out, b


def _stores_time(fmt, ext):
    return CAP[ext]["time"] and fmt != "gro-notime"   # a .gro title without 't=' carries no time: the loader synthesises one


def _ext_of(fmt):
    return WIDE_EXT.get(fmt) or {"xtc9": "xtc", "dcd0": "dcd", "dcd4": "dcd", "dcdfix": "dcd", "trr-double": "trr", "trr-vf": "trr", "mdcrd-nobox": "mdcrd",
                                 "mdcrd20": "mdcrd", "mdcrd-nobox10": "mdcrd", "xyz-foreign": "xyz"}.get(fmt, fmt)


def _write_wide(fmt, path, t, n, na, f0):
    """produce the round-5 file classes (vlib/gen/files.py); returns the path md.load is to be given"""
    return files.write_wide_class(fmt, path, t, n, na)


def _file_for(fmt, n, f0=0):
    """(path, ext, top, full trajectory loaded by md.load, usable?)"""
    import mdtraj as md
    key = (fmt, n, f0)
    if key in _CACHE:
        return _CACHE[key]
    ext = _ext_of(fmt)
    # mdcrd lines hold ten numbers: with 10 / 20 atoms the last coordinate line of every frame is full
    na = NA_OF.get(fmt, 12)
    cell = "ortho" if CAP[ext]["cell"] and fmt not in ("dcd4", "dcdfix", "mdcrd-nobox", "mdcrd-nobox10", "gro-notime", "pdb-foreign.gz", "arc-nobox") else None
    if fmt == "dcd-deg":
        cell = "tric"
    t = files.ident_traj_dense(n, cell=cell, f0=f0) if fmt == "xtc-dense" else files.ident_traj(n, na, cell=cell, f0=f0)
    path = os.path.join(_TMP, f"f_{fmt}_{n}_{f0}.{ext}")
    if fmt in WIDE_EXT:
        path = _write_wide(fmt, path, t, n, na, f0)
    else:
        t.save(path)
    if fmt == "xyz-foreign":
        files.xyz_make_foreign(path)
    if fmt == "dcd0":
        files.dcd_set_nset(path, 0)
    elif fmt == "dcd4":
        os.rename(path, path + ".3d")
        files.dcd_make_4d(path + ".3d", path, na, n)
    elif fmt == "dcdfix":
        os.rename(path, path + ".all")
        files.dcd_make_fixed(path + ".all", path, na, n)
    elif fmt in ("trr-double", "trr-vf"):
        files.trr_write_foreign(path, t.xyz, t.unitcell_vectors, t.time, double=(fmt == "trr-double"), velocities=True, forces=True)
    kw = {} if CAP[ext]["self_top"] else {"top": t.topology}
    try:
        full = md.load(path, **kw)
    except OSError:
        if ext != "hdf5":
            raise
        full = md.load_hdf5(path)   # md.load refuses the registered alias (reported by the cases); the format's own loader is the reference
    f, a = files.identify(full.xyz)
    good = (full.n_frames == n and np.array_equal(f[:, 0], (np.arange(n) + f0) % 40) and (np.array_equal(a[0][:12], np.arange(12)) if fmt == "xtc-dense" else np.array_equal(a[0], np.arange(na))))
    _CACHE[key] = (path, ext, t.topology, full, good, kw)
    if len(_CACHE) > 1500:
        _CACHE.pop(next(iter(_CACHE)))
    return _CACHE[key]


def _cmp_fields(ctx, monitor, key, got, full, fsel, idx, ext, what, ref_top=None, no_time=False, check_top=True):
    """bit-for-bit comparison of a partial result with the numpy slice `fsel` (frame index array) / atom subset idx.
    The key gets a suffix naming WHAT differs (frames / atoms / values / time / cell / topology)."""
    exp_xyz = full.xyz[fsel] if idx is None else full.xyz[fsel][:, idx]
    problems, suffix = [], None
    if got.xyz.shape != exp_xyz.shape or not np.array_equal(got.xyz, exp_xyz):
        try:
            f, a = files.identify(got.xyz)
            fr = f[:, 0].astype(int).tolist() if got.xyz.ndim == 3 and got.xyz.shape[1] else []
        except Exception:
            fr = None
        exp_fr = (np.asarray(fsel) % 40).tolist()
        if got.xyz.ndim != 3 or got.xyz.shape[0] != exp_xyz.shape[0] or fr != exp_fr:
            suffix = "wrong-frames"
        elif got.xyz.shape[1] != exp_xyz.shape[1]:
            suffix = "wrong-atoms"
        else:
            suffix = "wrong-values"
        problems.append(f"xyz shape {got.xyz.shape} expected {exp_xyz.shape}; frames identify as {fr if fr is None else fr[:20]}, expected {exp_fr[:20]}")
    if not problems:
        if CAP[ext]["time"] and not no_time:
            if not np.array_equal(got.time, full.time[fsel]):
                suffix = "time"
                problems.append(f"time {got.time.tolist()[:8]} expected {full.time[fsel].tolist()[:8]}")
        elif ext in ("pdb", "pdb.gz", "gro") and got.time is not None and full.time is not None and not np.array_equal(got.time, full.time[fsel]):
            # PDB models and GRO titles without 't=' carry no time at all; their readers number the frames of each CALL from 0
            # (load_frame gives 0, a strided load 0,1,2,..): the numbers are not content of the file.  Observed, not judged.
            ctx.observe("synthesised_time_restarts_per_call", ext)
            ctx.skip(monitor + ".time", "format stores no time and its reader numbers the frames per call")
        elif got.time is not None and full.time is not None and not np.array_equal(got.time, full.time[fsel]):
            # the format stores no times: mdtraj numbers the frames instead.  The numbers of a partial load must still be
            # those the same frames carry in the full load ("coordinates, times and unit cell alike")
            suffix = "frame-numbers-as-time"
            problems.append(f"synthesised time {np.asarray(got.time).tolist()[:8]} expected {full.time[fsel].tolist()[:8]}")
        else:
            ctx.ok(monitor + ".synthesised-time")
        if full.unitcell_lengths is not None:
            # compared in float32, the documented type of these attributes: a Trajectory built from float64 box vectors (gro)
            # keeps float64 lengths/angles until the first slice or join casts them, so the two sides may differ in type
            f32 = lambda v: np.asarray(v, dtype=np.float32)  # noqa: E731
            if got.unitcell_lengths is None or not (np.array_equal(f32(got.unitcell_lengths), f32(full.unitcell_lengths[fsel]))
                                                    and np.array_equal(f32(got.unitcell_angles), f32(full.unitcell_angles[fsel]))):
                suffix = suffix or "cell"
                problems.append("unit cell differs from the slice of the full load")
        elif got.unitcell_lengths is not None:
            suffix = suffix or "cell"
            problems.append("partial load has a unit cell, full load has none")
        if check_top and _fp(got.topology) != _fp_subset(ref_top if ref_top is not None else full.topology, idx):
            suffix = suffix or "topology"
            problems.append("topology is not the restriction of the full topology to atom_indices")
    if problems:
        ctx.violation(monitor, f"{key}:{suffix}", f"{what}: " + "; ".join(problems))
        return False
    ctx.ok(monitor)
    return True


def _opts(case):
    o = []
    if case.get("stride", 1) > 1:
        o.append("stride>1")
    if case.get("skip", 0) > 0:
        o.append("skip>0")
    if case.get("skip", 0) == case["n"]:
        o.append("skip=n")
    return ",".join(o)


def run_case(case, ctx):
    if case.get("group") == "asan-hazard":
        # Only the sanitizer judges here: after the known TRR overflow the heap of this process is corrupt, so every
        # functional comparison in it would report consequences, not causes.  The call is made so ASan can observe it.
        from vlib.ctx import Ctx
        shadow = Ctx(ctx.prop, case)
        try:
            _run_case(case, shadow)
        except Exception:
            pass
        ctx.skip("hazard-class", "trr + stride>1 + atom subset: executed under ASan only, functional result not judged "
                                 "(known heap overflow corrupts the process)")
        ctx.observe("asan_hazard_cases_executed", case["op"])
        return
    if case.get("kind") == "smallint":
        return _run_smallint(case, ctx)
    _run_case(case, ctx)


_TOPFILES = {}
OPTKEYS = ("tk", "ak", "pk", "fs")
OPTNAMES = {"tk": {1: "top=Trajectory", 2: "top=path-string", 3: "top=pathlib.Path"}, "ak": {1: "atom_indices=list", 2: "atom_indices=int32", 3: "atom_indices=non-contiguous", 4: "atom_indices=tuple"},
            "pk": {1: "filename=pathlib.Path"}, "fs": {2: "frame+stride", 3: "frame+stride", 7: "frame+stride"}}


def _top_pdb(na):
    """a PDB file holding the topology of the na-atom test system (for top=<path>), and the topology mdtraj reads from it"""
    import mdtraj as md
    if na not in _TOPFILES:
        q = os.path.join(_TMP, f"Topology_{na}.pdb")
        files.ident_traj(1, na, cell=None).save(q)
        _TOPFILES[na] = (q, md.load(q).topology)
    return _TOPFILES[na]


def _top_kw(case, ext, na, ctx):
    """keyword `top` in the form the case asks for; returns (kwargs, topology the result must be a restriction of or None = the
    full load's)"""
    import mdtraj as md
    tk = case.get("tk", 0)
    if CAP[ext]["self_top"]:
        if tk and ext in ("pdb", "pdb.gz", "gro") and case["fmt"] not in ("pdb-foreign", "pdb-foreign.gz"):
            # load_pdb / load_gro document top=<Topology>: "the topology won't be parsed from the file"
            ctx.observe("top_kind", f"{ext}: top=<Topology> for a self-describing format")
            return {"top": files.ident_top(na)}, files.ident_top(na)
        return {}, None
    if tk == 0:
        # a fresh Topology object per case: mdtraj must not be able to carry state from one call into the next
        return {"top": files.ident_top(na)}, None
    if tk == 1:
        ctx.observe("top_kind", "Trajectory")
        return {"top": md.Trajectory(np.zeros((1, na, 3), np.float32), files.ident_top(na))}, None
    q, qtop = _top_pdb(na)
    ctx.observe("top_kind", "path string" if tk == 2 else "pathlib.Path")
    return {"top": q if tk == 2 else pathlib.Path(q)}, qtop


def _ai_kw(case, idx, ctx):
    if idx is None:
        return {}
    ak = case.get("ak", 0)
    if ak == 0:
        return {"atom_indices": np.array(idx)}
    ctx.observe("atom_indices_kind", {1: "list", 2: "int32 array", 3: "non-contiguous view", 4: "tuple"}[ak])
    if ak == 1:
        return {"atom_indices": list(idx)}
    if ak == 2:
        return {"atom_indices": np.array(idx, dtype=np.int32)}
    if ak == 3:
        big = np.full(2 * len(idx), -7, dtype=np.int64)
        big[::2] = idx
        return {"atom_indices": big[::2]}
    return {"atom_indices": tuple(idx)}


def _run_case(case, ctx):
    import mdtraj as md
    fmt, n = case["fmt"], case["n"]
    path, ext, top, full, good, kw = _file_for(fmt, n)
    na = top.n_atoms
    if not good:
        ctx.skip("reference", f"{fmt}: md.load of the whole file does not identify frames 0..n-1 (C01's subject)")
        return
    kw, ref_top = _top_kw(case, ext, na, ctx)
    idx = subset_for(case)
    aik = _ai_kw(case, idx, ctx)
    P = (lambda q: pathlib.Path(q)) if case.get("pk") else (lambda q: q)
    if case.get("pk"):
        ctx.observe("filename_kind", "pathlib.Path")
    ctx.observe("format", fmt)
    ctx.observe("op", case["op"])
    op = case["op"]
    # Option classes (how top / atom_indices / the file name are passed) enter a key only when the plain call conforms on the
    # same descriptor: otherwise the discrepancy is the generic mechanism and keeps its generic key.
    optag = ""
    if any(case.get(k) for k in OPTKEYS):
        from vlib.ctx import Ctx
        shadow = Ctx(ctx.prop, case)
        try:
            _run_case({k: v for k, v in case.items() if k not in OPTKEYS}, shadow)
        except Exception:
            shadow.violations.append(dict(key="raised"))
        if not shadow.violations:
            optag = "".join(f",{OPTNAMES[k][case[k]]}" for k in OPTKEYS if case.get(k))
    cmpkw = dict(no_time=not _stores_time(fmt, ext), check_top=not (CAP[ext]["self_top"] and case.get("tk")))
    if CAP[ext]["self_top"] and case.get("tk"):
        ctx.skip("topology", "top= given for a self-describing file: which of the two equivalent topologies the result carries is not specified")
    if fmt in ("arc", "arc-nobox"):
        ctx.observe("arc_box_line", fmt == "arc")

    def known_mechanism(e, what):
        """exceptions whose mechanism is identified: one key each, whatever the entry point"""
        name, msg = type(e).__name__, str(e)
        key = None
        if ext == "arc" and name == "_EOF":
            key = "arc:stride>1:frame-skipping-loop-lets-its-EOF-signal-escape"
        elif ext == "arc" and name == "AttributeError" and "subset" in msg:
            key = "arc:atom_indices:read_as_traj-subsets-the-topology-before-the-first-frame-built-it"
        elif ext == "arc" and name == "UnboundLocalError":
            key = "arc:read_as_traj:empty-read-references-unset-topology(every-iterload-ends-with-it)"
        elif ext == "trr" and name == "IndexError" and "Out of bounds on buffer access" in msg:
            key = "trr:frames-of-different-sizes:offset-table-of-<=4-entries-never-grows:IndexError"
        elif ext == "hdf5" and name == "OSError" and "format is not supported" in msg:
            key = "hdf5:md.load:extension-registered-for-loading-but-refused-by-_parse_topology"
        elif case.get("pk") and name == "TypeError" and "expected bytes" in msg:
            key = "iterload:filename-as-pathlib.Path:TypeError-in-compiled-file-classes"
        if key:
            ctx.violation("raises", key, f"{what} raised {name}: {msg[:200]} (file of {n} frames)")
        return bool(key)

    if op == "load":
        s = case["stride"]
        ctx.observe("stride", s)
        skw = {} if fmt in RESTART else {"stride": s}
        try:
            got = md.load(P(path), **skw, **aik, **kw)
        except Exception as e:
            if known_mechanism(e, f"md.load({fmt}, stride={s}, atom_indices={idx})"):
                return
            ctx.violation("load.raises", f"{fmt}:load[{_opts(case)}{optag}]:raises:{type(e).__name__}", f"md.load({fmt}, stride={s}, atom_indices={idx}{optag}) raised {type(e).__name__}: {e}")
            return
        _cmp_fields(ctx, "load.stride+atoms", f"{fmt}:load[{_opts(case)}{optag}]:differs", got, full, np.arange(n)[::s], idx, ext,
                    f"md.load({fmt}, stride={s}, atom_indices={idx}{optag})", ref_top=ref_top, **cmpkw)
    elif op == "frame":
        fr = case["frame"]
        try:
            got = md.load_frame(P(path), fr, **aik, **kw)
        except NotImplementedError:
            ctx.skip("load_frame", f"{fmt}: single-frame loading not offered (NotImplementedError)")
            return
        except Exception as e:
            if known_mechanism(e, f"md.load_frame({fmt}, {fr}, atom_indices={idx})"):
                return
            raise
        if ext in ("dtr", "stk") and got.n_frames == n - fr and n - fr > 1:
            ctx.violation("load_frame", "dtr:read_as_traj-ignores-n_frames", f"md.load_frame({fmt}, {fr}) returned the {got.n_frames} remaining frames instead of 1")
            return
        ok1 = _cmp_fields(ctx, "load_frame", f"{fmt}:load_frame[{_opts(case)}{optag}]:differs", got, full, np.array([fr]), idx, ext,
                          f"md.load_frame({fmt}, {fr}, atom_indices={idx}{optag})", ref_top=ref_top, **cmpkw)
        fs = case.get("fs")
        fskw = {"stride": fs} if fs else {}
        if fs:
            ctx.observe("frame_with_stride", fs)
        try:
            got = md.load(P(path), frame=fr, **fskw, **aik, **kw)
        except Exception as e:
            if known_mechanism(e, f"md.load({fmt}, frame={fr}, atom_indices={idx})"):
                return
            raise
        _cmp_fields(ctx, "load_frame", f"{fmt}:load(frame=)[{_opts(case)}{optag}]:differs", got, full, np.array([fr]), idx, ext,
                    f"md.load({fmt}, frame={fr}, atom_indices={idx}{optag}{', stride=%d' % fs if fs else ''})", ref_top=ref_top, **cmpkw)
    elif op == "list":
        k, s = case["k"], case["stride"]
        overlap, discard = case.get("overlap", False), case.get("discard")
        step = max(n - 1, 0) if overlap else 7
        parts = [_file_for(fmt, n, f0=step * j) for j in range(k)]
        if not all(p[4] for p in parts):
            ctx.skip("reference", f"{fmt}: reference load not usable")
            return
        paths = [P(p[0]) for p in parts]
        skw = {} if fmt in RESTART else {"stride": s}
        dkw = {} if discard is None else {"discard_overlapping_frames": discard}
        if discard is not None:
            ctx.observe("list_discard_overlapping", f"discard={discard},files-overlap={overlap}")
        try:
            got = md.load(paths, **skw, **dkw, **aik, **kw)
        except Exception as e:
            if known_mechanism(e, f"md.load(list of {k} {fmt} files, stride={s}, atoms={idx})"):
                return
            ctx.violation("load.raises", f"{fmt}:load(list)[{_opts(case)}{optag}]:raises:{type(e).__name__}", f"md.load(list of {k} {fmt} files, stride={s}, atoms={idx}{optag}, {dkw}) raised {type(e).__name__}: {e}")
            return
        # per-file expectation, then the documented joining rule: with discard_overlapping_frames the last frame of a file is
        # dropped when every atom of it lies within 2e-3 nm of the first frame of the next file (Trajectory.join)
        keep = [np.arange(n)[::s] for _ in parts]
        if discard:
            for j in range(k - 1):
                if len(keep[j]) and len(keep[j + 1]):
                    x0, x1 = parts[j][3].xyz[keep[j][-1]].astype(np.float64), parts[j + 1][3].xyz[keep[j + 1][0]].astype(np.float64)
                    d = np.abs(x1 - x0).max() if idx is None else np.abs(x1[idx] - x0[idx]).max()   # compared on the atoms loaded
                    if d < 2e-3:
                        keep[j] = keep[j][:-1]
                        ctx.observe("list_overlap_dropped", True)
        exp_xyz = np.concatenate([p[3].xyz[kp] if idx is None else p[3].xyz[kp][:, idx] for p, kp in zip(parts, keep)])
        prob = []
        if got.xyz.shape != exp_xyz.shape or not np.array_equal(got.xyz, exp_xyz):
            prob.append(f"xyz differs from the concatenation of the individual loads (shape {got.xyz.shape} vs {exp_xyz.shape})")
        if _stores_time(fmt, ext):
            et = np.concatenate([p[3].time[kp] for p, kp in zip(parts, keep)])
            if got.time.shape != et.shape or not np.array_equal(got.time, et):
                prob.append("time differs")
        if full.unitcell_lengths is not None:
            el = np.concatenate([p[3].unitcell_lengths[kp] for p, kp in zip(parts, keep)])
            if got.unitcell_lengths is None or got.unitcell_lengths.shape != el.shape or not np.array_equal(got.unitcell_lengths, el):
                prob.append("unit cell differs / dropped")
        if not prob and cmpkw["check_top"] and _fp(got.topology) != _fp_subset(ref_top if ref_top is not None else full.topology, idx):
            prob.append("topology is not the restricted topology")
        if kw and idx is not None and hasattr(kw["top"], "subset"):
            # the caller's topology object must still behave after the call (history: list load, then any other load)
            try:
                n1 = kw["top"].subset([0]).n_atoms
                n2 = kw["top"].subset([0, 1, 2, 3]).n_atoms
                ctx.check((n1, n2) == (1, 4), "load.list.top-intact", "load(list,top=Topology,atom_indices):replaces-subset-method-of-callers-topology",
                          f"after md.load([..{k} files..], top=<Topology>, atom_indices={idx}) the caller's topology.subset([0]) has {n1} atoms and subset([0,1,2,3]) has {n2}")
            except Exception as e:
                ctx.violation("load.list.top-intact", "load(list,top=Topology,atom_indices):replaces-subset-method-of-callers-topology", f"caller's topology unusable after list load: {e!r}")
        if prob:
            dtag = "" if discard is None else f",discard={discard},overlap={overlap}"
            ctx.violation("load.list", f"{fmt}:load(list)[{_opts(case)}{optag}{dtag}]:differs-from-join", f"md.load(list of {k} {fmt} files, stride={s}, atoms={idx}{optag}{dtag}): " + "; ".join(prob))
        else:
            ctx.ok("load.list")
    elif op == "iterload":
        chunk, s, skip = case["chunk"], case["stride"], case["skip"]
        ctx.observe("chunk_mod_stride", "0" if chunk == 0 or chunk % s == 0 else "!=0")
        ctx.observe("skip", "0" if skip == 0 else ("n" if skip == n else "mid"))
        fsel = np.arange(n)[skip::s]
        m = len(fsel)
        bound = (1 if chunk == 0 else math.ceil(m / chunk)) + 2
        # same reader: the 9-atom threshold only changes the frame encoding, precision / extra blocks only the frame size
        kf = {"xtc9": "xtc", "trr-double": "trr", "trr-vf": "trr", "trr-mixed": "trr", "xtc-dense": "xtc"}.get(fmt, fmt)
        tag = f"{kf}:iterload(chunk=0)" if chunk == 0 else f"{kf}:iterload"
        what = f"md.iterload({fmt}, n={n}, chunk={chunk}, stride={s}, skip={skip}, atom_indices={idx}{optag})"
        try:
            gen = md.iterload(P(path), chunk=chunk, stride=s, skip=skip, **aik, **kw)
            chunks = list(itertools.islice(gen, bound + 1))
        except NotImplementedError:
            ctx.skip("iterload", f"{fmt}: iterload with {'skip' if skip else 'these options'} not offered (NotImplementedError)")
            return
        except Exception as e:
            if known_mechanism(e, what):
                return
            if ext == "stk" and isinstance(e, OSError) and "no loader" in str(e):
                ctx.skip("iterload", "stk: chunked reading not offered (no file class is registered for .stk; chunk=0 goes through md.load)")
                return
            o = "skip=n" if skip == n else _opts(case)
            ctx.violation("iterload.raises", f"{tag}[{o}{optag}]:raises:{type(e).__name__}", f"{what} raised {type(e).__name__}: {e}")
            return
        if ext in ("dtr", "stk") and chunk > 0:
            # model of the known DTR behaviour (dtr.pyx read_as_traj drops n_frames; read() advances the position by the
            # number of frames returned): if the observed chunks are exactly what that predicts, it is that one mechanism
            pred, pos = [], skip
            while len(pred) <= bound + 1:
                fr_ = list(range(n))[pos::s]
                if not fr_:
                    break
                pred.append([x % 40 for x in fr_])
                pos += len(fr_)
            obs = [files.identify(c.xyz)[0][:, 0].astype(int).tolist() for c in chunks]
            exp_chunks = [(fsel[j:j + chunk] % 40).tolist() for j in range(0, m, chunk)]
            if obs != exp_chunks and obs == pred[:len(obs)]:
                ctx.violation("iterload.concat", "dtr:read_as_traj-ignores-n_frames", f"{what}: chunks hold frames {obs[:6]}, expected {exp_chunks[:6]}")
                return
        if len(chunks) > bound:
            ids = [files.identify(c.xyz)[0][:, 0].astype(int).tolist() for c in chunks[:8]]
            ctx.violation("iterload.terminates", f"{tag}[{_opts(case)}]:yields-more-chunks-than-frames-allow",
                          f"{what} yielded more than {bound} chunks (logical bound); first chunks hold frames {ids}")
            return
        ctx.ok("iterload.terminates")
        sizes = [c.n_frames for c in chunks]
        if m == 0:
            ok_sizes = sum(sizes) == 0
        elif chunk == 0:
            ok_sizes = sizes == [m]
        else:
            ok_sizes = all(x == chunk for x in sizes[:-1]) and 1 <= sizes[-1] <= chunk and len(sizes) == math.ceil(m / chunk)
        if m == 0 and not chunks:
            ctx.ok("iterload.concat")
            ctx.ok("iterload.chunk-sizes")
            return
        cat = chunks[0] if len(chunks) == 1 else md.join(chunks, check_topology=False) if chunks else None
        if cat is None:
            ctx.violation("iterload.concat", f"{tag}[{_opts(case)}{optag}]:no-chunks", f"{what} yielded nothing, expected {m} frames")
            return
        good_cat = _cmp_fields(ctx, "iterload.concat", f"{tag}[{_opts(case)}{optag}]:concatenation", cat, full, fsel, idx, ext, what, ref_top=ref_top, **cmpkw)
        if good_cat:
            if ok_sizes:
                ctx.ok("iterload.chunk-sizes")
            else:
                ctx.violation("iterload.chunk-sizes", f"{tag}[{_opts(case)}{optag}]:chunk-sizes", f"{what}: chunk sizes {sizes}, expected all {chunk} (last 1..{chunk}) for {m} frames")
