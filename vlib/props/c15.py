"""C15 -- secondary-structure codes follow the DSSP rules on the backbone H-bonds.

Technique: runtime monitoring.  The real `md.compute_dssp` (simplified and full) and `md.kabsch_sander` run on
protein workloads; an independent reference model of the DSSP rules (vlib/oracle/c15_dssp.py, written from Kabsch &
Sander 1983 and the DSSP-2.2.0 description; brought up against compute_dssp AND the mkdssp-2.2.1 outputs stored in
tests/data/dssp: identical on 1bpi, 1vii, 1am7, 4ZUO and the 20 models of 2EQQ) is applied to the H-bond pattern that
kabsch_sander reports for the same frame and to the CA coordinates of that frame, and observes every residue of every
frame.

Workload (all seeded from the case descriptor)
  * test-data proteins: BPTI x2, villin, 2EQQ (20 NMR models), 1am7, 4OH9, 4ZUO / 1ncw / 3nch (multi-chain crystal
    structures with waters and ligands; random chain subsets), solvated peptides, tri-peptides; 1..20 frames; Gaussian
    noise 0..0.05 nm per frame; global compression / expansion 0.9..1.1; segments translated or blown up (partial
    unfolding); two structures stacked (Trajectory.stack) at contact distance; short residue windows (1..20 residues);
  * synthetic poly-peptides from ideal internal coordinates (alpha / 3-10 / pi / beta / PPII / hairpin / random
    torsions, jitter 0..15 degrees per frame);
  * designed H-bond patterns: free-standing peptide units laid out so that kabsch_sander reports (nearly) a chosen
    pattern -- n-turn series of all three kinds overlapping each other, parallel and antiparallel ladders, two or three
    ladders separated by every gap pair (g1, g2) in 0..6 x 0..6, three-stranded sheets, helices running into ladders,
    pairs satisfying both bridge patterns, ladders whose second strands overlap, random extra bonds, random bond
    deletions; a different pattern in every frame.  The pattern only steers the workload: the model input is what
    kabsch_sander reports;
  * topology edits through the public construction API on all of the above: backbone atoms N / CA / C / O deleted
    (biased towards residues inside helices and sheets), chains split, water / ion / ligand / cap residues inserted
    between protein residues and between chains.

Widening round (cases with id >= 10**6, `_wide_cases`; the stream above is unchanged).  Input classes added:
64-257 frame trajectories (designed patterns: 12 distinct patterns shown in random order), optionally blown up by a
factor 3 in all but the last 1-3 frames; whole multi-chain crystal structures (4ZUO 1703, 1ncw 1023, thorough also 3nch
2463 residues) in the quick tier; topologies without any protein residue (water box, RNA, ligand) and capped peptides
in explicit water; 4-12 extra chain starts; residue numbers all equal / scrambled / repeated in threes (what insertion
codes leave behind); residues renamed to non-standard names and to / from PRO; the atoms of a residue listed in another
order; a unit cell on the trajectory (the assignment takes no periodic images: same model); `simplified` given
positionally, as numpy bool and as int; monitor default-is-simplified (compute_dssp(t) == simplified=True); monitor
history.in-place-edit: after all calls the SAME Topology object is edited in place (residue <-> PRO, backbone atom
renamed, atom renamed to a backbone name, insert_atom) and compute_dssp on it must equal compute_dssp on a freshly
built equal topology (vlib.gen.common.rebuild_topology).  Not added: residues whose atoms are not contiguous in index
(outside mdtraj's data model, see C13), two atoms with the same backbone name in one residue (which one counts is
not documented).

Monitors
  rules.code            per frame and complete residue: reported full code == model code.  Three-valued: the model is
                        evaluated under every reading the publication leaves open and a residue is decided only where
                        all readings agree:
                          incomplete residue inside a chain: (S) it interrupts the chain; (D+d) it is dropped from the
                          sequence, which closes over it when the flanking residues are peptide-bonded (C-N <= 0.25 nm)
                          -- what the DSSP program does with hetero residues listed between protein residues;
                          a residue pair satisfying the parallel and the antiparallel pattern at once: either type;
                          two ladders sharing one residue on the second strand: bulge-linked or not;
                          a ladder that can be bulge-linked to two ladders on the same side: all such links or none
                          (a sequential program's result depends on its visiting order);
                          kappa within 1e-3 degree of 70 (or undefined: coincident CA atoms): S or not.
                        reported code equal to all readings -> ok; equal to some -> skip; equal to none -> violation.
                        Chains are those of the topology: K&S' peptide-bond-length chain-break criterion is not part
                        of the statement and is not applied between listed neighbours.
  rules.simplified-code the same comparison for simplified=True against the 3-letter image of the model
  shape                 (n_frames, n_residues) for both outputs
  alphabet              full codes in {H,B,E,G,I,T,S,' ','NA'}, simplified in {H,E,C,'NA'}
  na-mask               'NA' exactly on residues lacking N, CA, C or O (names read from the topology by this module)
  simplified-image      simplified output == {H,G,I->H; E,B->E; T,S,' '->C; NA->NA}(full output), every frame
  frame-context         compute_dssp(t)[i] == compute_dssp(t[i])[0] for every frame, both outputs (exact)
  junk-differential     the frames embedded in a guard buffer between junk frames (NaN, inf, +-1e30, zeros, scrambled
                        atoms) give the identical rows
  ks.input              the kabsch_sander matrices used as model input: shape, all stored values < -0.5, no entry on an
                        incomplete residue (otherwise the input is not a pattern in the sense of the statement: skip)

Rules pinned by a second opinion rather than by the paper's text: E wins over B on a residue that is in a ladder and in
an isolated bridge (mkdssp output for 1bpi residue 21 and 4ZUO); G / I minimal helices are assigned all-or-nothing, I
may replace H ("prefer pi helices", dssp.cpp comment) but not E/B/G (DSSP-2.2.0).  Rules not pinned, hence skipped:
the readings listed above.

Violation keys (mechanisms)
  compute_dssp:chain-continuity-ignores-incomplete-residues   the reported code is wrong under every reading and is
      what results when an incomplete residue keeps its place in the i+-k arithmetic and merely has no H-bonds / CA of
      its own (n-turns and helices spanning it, bridges whose triple contains it, bends across it, index distances
      shifted by an inserted hetero residue) -- or lies in a ladder region that exists only under that lenient reading
  compute_dssp:bulge-link-of-ladders-with-overlapping-strands the residue lies within 4 residues of two ladders of one
      type that follow each other on the first strand but overlap on the second (no gap => no bulge link)
  compute_dssp:code:expected=<X>:reported=<Y> / compute_dssp:simplified-code:...   any other disagreement
  compute_dssp:shape, :alphabet:*, :NA-mask:*, :simplified-is-not-image-of-full, :frame-context, :junk-differential,
  kabsch_sander:matrix-shape
"""
from __future__ import annotations

import gzip
import math
import os

import numpy as np

from vlib.gen import common
from vlib.oracle import c15_dssp as ref

PROPERTY = "C15"
LEVEL = "exploration"
NATIVE = ["mdtraj.geometry._geometry"]
RULE = ("cases = (source structure or synthetic torsion recipe, frame selection, noise / scale / unfolding / stacking, "
        "topology edits: deleted backbone atoms, chain cuts, inserted hetero residues) from a seeded stream; a case is "
        "non-trivial when at least one residue code was decided against the rule model; distinct = distinct case "
        "descriptors; rule_branch lists which branches of the model fired")
WORKERS = {"quick": 8, "thorough": 16}
BUDGET = {"quick": 60, "thorough": 900}
ENV = {"OMP_WAIT_POLICY": "PASSIVE"}
GROUPS = {"quick": [dict(name="asan", flavour="asan", workers=1)],
          "thorough": [dict(name="asan", flavour="asan", workers=1)]}
FLOORS = {"quick": {"history.in-place-edit": 500, "default-is-simplified": 250, "rules.code": 15000, "rules.simplified-code": 15000, "frame-context": 350, "junk-differential": 350,
                    "simplified-image": 40000, "na-mask": 80000, "shape": 130, "alphabet": 130, "ks.input": 350},
          "thorough": {"rules.code": 400000, "rules.simplified-code": 400000, "frame-context": 9000,
                       "junk-differential": 9000, "simplified-image": 1000000, "na-mask": 2000000, "shape": 4000,
                       "alphabet": 4000, "ks.input": 9000}}
ASSUMPTIONS = [
    "Hbond(i,j) of the paper (C=O of i, N-H of j) is entry [i,j] of the matrix md.kabsch_sander returns for that frame "
    "(value < -0.5 kcal/mol); the matrix lists at most the two best acceptors per N-H, as the DSSP program does",
    "a residue is complete when it has atoms named N, CA, C and O; only complete residues can be residue i or j of a "
    "pattern; how an incomplete residue in the middle of a chain affects its neighbours is decided only where the "
    "readings S and D+d (module docstring) agree; chains are the chains of the topology (no peptide-bond-length "
    "criterion between listed neighbours)",
    "DSSP-2.2.0 conventions: bridge partners at least 3 apart; a pair matching both bridge patterns is skipped; E over B; "
    "alpha overrides E/B; G only on residues not yet assigned (all three); I on residues not assigned or H (all five); "
    "T then S on residues still unassigned; bulge link: gaps (<=4, <=1) in either order, both gaps >= 0 (a shared "
    "residue, gap -1, is skipped; overlapping strands are never linked); linked ladders of >= 2 bridges in total are E "
    "including the gap residues",
    "bend: kappa(i) > 70 degrees from CA(i-2), CA(i), CA(i+2) inside one chain segment; decisions within 1e-3 degree "
    "are skipped",
]

DATA = os.path.join(os.environ.get("VERIF_REPO", "/repo"), "tests", "data")
if not os.path.isdir(DATA):
    DATA = "/repo/tests/data"

SOURCES_QUICK = ["1bpi.pdb", "designed", "bpti.pdb", "1vii.pdb", "designed", "2EQQ.pdb", "1am7_protein.pdb", "designed",
                 "4OH9.pdb", "aaqaa-wat.pdb", "designed", "2EQQ.pdb", "synthetic", "designed", "synthetic", "synthetic",
                 "designed", "4ZUO.pdb", "1ncw.pdb.gz", "designed", "1vii_sustiva_water.pdb", "frame0.h5", "designed",
                 "ala_ala_ala.pdb", "native.pdb", "designed", "1bpi.pdb", "2EQQ.pdb", "synthetic", "designed"]
SOURCES_THOROUGH = SOURCES_QUICK + ["3nch.pdb.gz", "GG-tip4pew.pdb", "4ZUO.pdb", "1ncw.pdb.gz", "synthetic"]
NCASES = {"quick": 960, "thorough": 8000}
NOISES = [0.0, 0.0, 0.002, 0.005, 0.01, 0.02, 0.03, 0.05]
BIG = 400  # residues


def gen_cases(tier, seed):
    srcs = SOURCES_QUICK if tier == "quick" else SOURCES_THOROUGH
    for i in range(NCASES[tier]):
        rng = common.rng_for("C15", seed, i)
        src = srcs[i % len(srcs)]
        c = dict(i=i, seed=common.case_seed(seed, "C15", i), src=src, tier=tier,
                 n_frames=int(rng.choice([1, 1, 2, 3, 4, 5, 8, 12, 20])),
                 noise=float(rng.choice(NOISES)),
                 scale=float(rng.choice([1.0, 1.0, 1.0, 0.9, 0.95, 1.05, 1.1])),
                 unfold=bool(rng.random() < 0.25),
                 stack=bool(rng.random() < 0.2) and src not in ("3nch.pdb.gz", "1vii_sustiva_water.pdb"),
                 window=bool(rng.random() < 0.12),
                 edit=str(rng.choice(["none", "none", "delete", "delete", "cut", "insert", "mixed", "mixed"])))
        if src == "designed":
            c.update(noise=float(rng.choice([0.0, 0.0, 0.002])), scale=1.0, unfold=False, stack=False, window=False,
                     edit=str(rng.choice(["none", "none", "none", "cut", "cut", "delete", "mixed"])))
        yield c
        if i % 20 == 7:
            d = dict(c)
            d["group"] = "asan"
            d["n_frames"] = min(d["n_frames"], 4)
            yield d
    yield from _wide_cases(tier, seed)


# ----- widening round: input classes the stream above never produces (ids >= 10**6; the stream above is unchanged) -----
W_SOURCES = ["1bpi.pdb", "designed", "2EQQ.pdb", "1vii.pdb", "synthetic", "designed", "1am7_protein.pdb", "4OH9.pdb",
             "aaqaa-wat.pdb", "designed", "ala_ala_ala.pdb", "native.pdb", "tip3p_300K_1ATM.pdb", "2koc.pdb", "imatinib.pdb",
             "alanine-dipeptide-explicit.pdb", "GG-tip4pew.pdb", "designed", "1vii_sustiva_water.pdb", "bpti.pdb", "synthetic"]
W_LONG = ["designed", "2EQQ.pdb", "1vii.pdb", "synthetic", "ala_ala_ala.pdb", "1bpi.pdb", "designed", "frame0.h5"]
W_LARGE = ["4ZUO.pdb", "1ncw.pdb.gz", "3nch.pdb.gz"]
NONSTANDARD = ["DAL", "MSE", "HYP", "CYX", "HID", "SEP", "UNK", "PRO", "ALA"]


def _wide_cases(tier, seed):
    quick = tier == "quick"
    n = 300 if quick else 3000
    for j in range(n):
        rng = common.rng_for("C15wide", seed, j)
        cls = "long" if j % 8 == 0 else ("large" if j % (100 if quick else 50) == 7 else "general")
        if cls == "long":
            src, nf = W_LONG[(j // 8) % len(W_LONG)], int(rng.choice([64, 100, 101, 129, 101, 257]))
        elif cls == "large":
            src, nf = W_LARGE[(j // 50) % (2 if quick else 3)], int(rng.integers(1, 3))
        else:
            src, nf = W_SOURCES[j % len(W_SOURCES)], int(rng.choice([1, 1, 2, 3, 5, 8, 12]))
        w = dict(cls=cls, late_k=int(rng.integers(1, 4)) if (cls == "long" and rng.random() < 0.7) else 0,
                 many_cuts=bool(rng.random() < 0.3), reseq=str(rng.choice(["keep", "keep", "duplicate", "scrambled", "insertion-like"])),
                 rename=bool(rng.random() < 0.35), perm=bool(rng.random() < 0.4),
                 cell=str(rng.choice(["none", "none", "cubic", "triclinic"])), positional=bool(rng.random() < 0.3),
                 simp_type=str(rng.choice(["bool", "bool", "np.bool_", "int"])),
                 derived=str(rng.choice(["none", "none", "slice", "slice-nocopy", "stride", "stride-nocopy", "fancy", "join", "xyz64", "vectors"])))
        c = dict(i=10 ** 6 + j, seed=common.case_seed(seed, "C15w", j), src=src, tier=tier, n_frames=nf,
                 noise=float(rng.choice(NOISES)), scale=float(rng.choice([1.0, 1.0, 0.95, 1.05])),
                 unfold=bool(rng.random() < 0.25) and cls != "large", stack=False, window=bool(rng.random() < 0.12) and cls == "general",
                 edit=str(rng.choice(["none", "none", "delete", "cut", "insert", "mixed"])), w=w)
        if src == "designed":
            c.update(noise=float(rng.choice([0.0, 0.0, 0.002])), scale=1.0, unfold=False, window=False,
                     edit=str(rng.choice(["none", "none", "cut", "delete", "mixed"])))
        yield c


# ------------------------------------------------------------------------------------------------------ sources
_CACHE = {}


def _load(src):
    import mdtraj as md
    if src not in _CACHE:
        t = md.load(os.path.join(DATA, src))
        if src == "frame0.h5":
            t = t[::25]
        _CACHE[src] = t
    return _CACHE[src]


# ideal backbone geometry (nm, degrees): Engh & Huber values
_B_N_CA, _B_CA_C, _B_C_N, _B_C_O = 0.1458, 0.1525, 0.1329, 0.1231
_A_N_CA_C, _A_CA_C_N, _A_C_N_CA, _A_CA_C_O = 111.0, 116.2, 121.7, 120.5
SEGMENT_TYPES = {"alpha": (-57.0, -47.0), "310": (-49.0, -26.0), "pi": (-57.0, -70.0), "beta": (-120.0, 130.0),
                 "ppII": (-75.0, 145.0), "abeta": (-139.0, 135.0), "left": (57.0, 47.0)}


def _place(a, b, c, bond, angle_deg, tors_deg):
    """position d with |cd| = bond, angle(b,c,d) = angle, dihedral(a,b,c,d) = tors (NeRF)"""
    ang = math.radians(angle_deg)
    tor = math.radians(tors_deg)
    bc = c - b
    bc /= np.linalg.norm(bc)
    nrm = np.cross(b - a, bc)
    nrm /= np.linalg.norm(nrm)
    m = np.cross(nrm, bc)
    d2 = np.array([-bond * math.cos(ang), bond * math.sin(ang) * math.cos(tor), bond * math.sin(ang) * math.sin(tor)])
    return c + d2[0] * bc + d2[1] * m + d2[2] * nrm


def synth_backbone(phi, psi):
    """N, CA, C, O coordinates (n,4,3) of a poly-peptide with the given torsions, omega = 180"""
    n = len(phi)
    X = np.zeros((n, 4, 3))
    N = np.array([0.0, 0.0, 0.0])
    CA = np.array([_B_N_CA, 0.0, 0.0])
    ang = math.radians(_A_N_CA_C)
    C = CA + _B_CA_C * np.array([-math.cos(ang), math.sin(ang), 0.0])
    for i in range(n):
        if i > 0:
            pN, pCA, pC = X[i - 1, 0], X[i - 1, 1], X[i - 1, 2]
            N = _place(pN, pCA, pC, _B_C_N, _A_CA_C_N, psi[i - 1])
            CA = _place(pCA, pC, N, _B_N_CA, _A_C_N_CA, 180.0)
            C = _place(pC, N, CA, _B_CA_C, _A_N_CA_C, phi[i])
        X[i, 0], X[i, 1], X[i, 2] = N, CA, C
        X[i, 3] = _place(N, CA, C, _B_C_O, _A_CA_C_O, psi[i] + 180.0)
    return X


def _synthetic(rng, n_frames):
    import mdtraj as md
    from mdtraj.core import element as elem
    recipe = str(rng.choice(["helices", "helices", "pi-mix", "hairpin", "coil", "mixed"]))
    segs = []
    if recipe == "helices":
        for _ in range(int(rng.integers(1, 4))):
            segs.append((str(rng.choice(["alpha", "310", "pi", "alpha"])), int(rng.integers(4, 14))))
            segs.append(("ppII", int(rng.integers(1, 4))))
    elif recipe == "pi-mix":
        for _ in range(int(rng.integers(2, 5))):
            segs.append((str(rng.choice(["alpha", "pi", "pi", "310"])), int(rng.integers(3, 9))))
    elif recipe == "hairpin":
        for _ in range(int(rng.integers(1, 3))):
            segs.append(("abeta", int(rng.integers(4, 9))))
            segs.append(("turnI'", 2))
            segs.append(("abeta", int(rng.integers(4, 9))))
            segs.append(("ppII", int(rng.integers(1, 3))))
    elif recipe == "coil":
        segs.append(("random", int(rng.integers(8, 40))))
    else:
        for _ in range(int(rng.integers(2, 6))):
            segs.append((str(rng.choice(list(SEGMENT_TYPES) + ["random"])), int(rng.integers(2, 10))))
    phi0, psi0 = [], []
    for name, ln in segs:
        for k in range(ln):
            if name == "random":
                phi0.append(rng.uniform(-180, 180))
                psi0.append(rng.uniform(-180, 180))
            elif name == "turnI'":
                phi0.append([60.0, 90.0][k])
                psi0.append([30.0, 0.0][k])
            else:
                phi0.append(SEGMENT_TYPES[name][0])
                psi0.append(SEGMENT_TYPES[name][1])
    n = len(phi0)
    jit = float(rng.choice([0.0, 3.0, 6.0, 10.0, 15.0]))
    frames = []
    for f in range(n_frames):
        phi = np.array(phi0) + rng.normal(scale=jit, size=n) if jit else np.array(phi0)
        psi = np.array(psi0) + rng.normal(scale=jit, size=n) if jit else np.array(psi0)
        frames.append(synth_backbone(phi, psi).reshape(n * 4, 3))
    top = md.Topology()
    ch = top.add_chain()
    els = [elem.nitrogen, elem.carbon, elem.carbon, elem.oxygen]
    for r in range(n):
        res = top.add_residue("PRO" if rng.random() < 0.05 else "ALA", ch, resSeq=r + 1)
        for nm, e in zip(("N", "CA", "C", "O"), els):
            top.add_atom(nm, e, res)
    return md.Trajectory(np.array(frames, dtype=np.float32), top), "synthetic:" + recipe


# ------------------------------------------------------------------------------------------------------ designed patterns
GAPS = [0, 0, 1, 1, 1, 2, 2, 3, 4, 4, 4, 5, 5, 6]


def design_pattern(rng, n):
    """A list of intended Hbond(a, d) pairs (K&S notation) on n residues, from a random recipe; returns (bonds, recipe).

    helix(k, s, m)      n-turns Hbond(i, i+k), i = s..s+m-1
    anti(i0, j0, T)     narrow pairs Hbond(i,j)&Hbond(j,i) at (i0+2t, j0-2t), t = 0..T  => bridges (i0+k, j0-k), k = 0..2T
    anti_wide(i, j)     Hbond(i-1,j+1)&Hbond(j-1,i+1)                                   => the single bridge (i, j)
    para(i0, j0, T)     Hbond(i0-1+2t, j0+2t), Hbond(j0+2t, i0+1+2t), t = 0..T          => bridges (i0+k, j0+k), k = 0..2T
    """
    bonds = []

    def helix(k, s, m):
        bonds.extend((i, i + k) for i in range(s, s + m))

    def anti(i0, j0, T):
        for t in range(T + 1):
            bonds.extend([(i0 + 2 * t, j0 - 2 * t), (j0 - 2 * t, i0 + 2 * t)])

    def anti_wide(i, j):
        bonds.extend([(i - 1, j + 1), (j - 1, i + 1)])

    def para(i0, j0, T):
        for t in range(T + 1):
            bonds.extend([(i0 - 1 + 2 * t, j0 + 2 * t), (j0 + 2 * t, i0 + 1 + 2 * t)])

    recipe = str(rng.choice(["helices", "helices", "ladder", "bulge", "bulge", "bulge", "sheet", "mix", "mix", "random",
                             "both-type", "overlap"]))
    if recipe == "helices":
        s = int(rng.integers(0, 6))
        for _ in range(int(rng.integers(1, 5))):
            k = int(rng.choice([3, 4, 5, 4, 5]))
            m = int(rng.choice([1, 2, 2, 3, 4, 6, 9]))
            helix(k, s, m)
            s += int(rng.integers(-2, m + 4))  # overlapping, abutting or separated
            s = max(0, s)
    elif recipe == "ladder":
        T = int(rng.integers(0, 4))
        i0 = int(rng.integers(1, 6))
        if rng.random() < 0.5:
            anti(i0, i0 + 4 * T + 3 + int(rng.integers(0, 6)), T)
        else:
            para(i0, i0 + 2 * T + 3 + int(rng.integers(0, 6)), T)
        if rng.random() < 0.3:
            i = int(rng.integers(1, max(2, n - 8)))
            anti_wide(i, i + 3 + int(rng.integers(0, 4)))
    elif recipe == "bulge":
        typ = "anti" if rng.random() < 0.6 else "para"
        T1, T2 = int(rng.choice([0, 0, 1, 2])), int(rng.choice([0, 0, 1, 2]))
        g1, g2 = int(rng.choice(GAPS)), int(rng.choice(GAPS))
        i0 = int(rng.integers(1, 4))
        i1 = i0 + 2 * T1 + 1 + g1
        if typ == "anti":
            j1 = i1 + 4 * T2 + 3 + int(rng.integers(0, 4))
            j0 = j1 + 2 * T1 + 1 + g2
            anti(i0, j0, T1)
            if T2 == 0 and rng.random() < 0.4:
                anti_wide(i1, j1)
            else:
                anti(i1, j1, T2)
        else:
            j0 = i1 + 2 * T2 + 3 + int(rng.integers(0, 4))
            j1 = j0 + 2 * T1 + 1 + g2
            para(i0, j0, T1)
            para(i1, j1, T2)
        recipe += ":%s:gaps(%d,%d)" % (typ, g1, g2)
        if rng.random() < 0.3:   # a third ladder further on
            g3 = int(rng.choice(GAPS))
            if typ == "anti":
                anti(i1 + 2 * T2 + 1 + g3, j1 - 2 * T2 - 1 - int(rng.choice(GAPS)), 0)
            else:
                para(i1 + 2 * T2 + 1 + g3, j1 + 2 * T2 + 1 + int(rng.choice(GAPS)), 0)
    elif recipe == "sheet":
        T = int(rng.integers(0, 3))
        L = 2 * T + 1
        a0 = int(rng.integers(1, 4))
        b0 = a0 + L + 2 + int(rng.integers(0, 4))
        c0 = b0 + L + 2 + int(rng.integers(0, 4))
        (anti if rng.random() < 0.5 else para)(a0, b0 + (L - 1 if rng.random() < 0.5 else 0), T)
        T2 = int(rng.integers(0, 3))
        if rng.random() < 0.5:
            anti(b0 + int(rng.integers(0, 2)), c0 + 2 * T2, T2)
        else:
            para(b0 + int(rng.integers(0, 2)), c0, T2)
    elif recipe == "mix":
        T = int(rng.integers(0, 3))
        i0 = int(rng.integers(1, 6))
        j0 = i0 + 4 * T + 3 + int(rng.integers(0, 6))
        if rng.random() < 0.5:
            anti(i0, j0, T)
        else:
            para(i0, j0 - 2 * T, T)
        for _ in range(int(rng.integers(1, 4))):
            helix(int(rng.choice([3, 4, 5])), max(0, int(rng.integers(i0 - 5, j0 + 3))), int(rng.choice([1, 2, 2, 3, 5])))
    elif recipe == "overlap":
        # a second ladder that follows the first on strand 1 but falls inside / before its range on strand 2
        T1, T2 = int(rng.choice([0, 1, 1, 2])), int(rng.choice([0, 0, 1]))
        g1 = int(rng.choice([0, 1, 2, 3, 4, 5]))
        back = int(rng.integers(0, 2 * T1 + 3))
        i0 = int(rng.integers(1, 4))
        i1 = i0 + 2 * T1 + 1 + g1
        if rng.random() < 0.5:
            j0 = i1 + 2 * T2 + 4 + int(rng.integers(0, 3))
            para(i0, j0, T1)
            para(i1, j0 + 2 * T1 + 1 - back, T2)
            recipe += ":para"
        else:
            jlow = i1 + 2 * T2 + 4 + int(rng.integers(0, 3)) + 2 * T2   # lowest strand-2 residue of the first ladder
            anti(i0, jlow + 2 * T1, T1)
            anti(i1, jlow - 1 + back, T2)
            recipe += ":anti"
    elif recipe == "both-type":
        i = int(rng.integers(1, 6))
        j = i + 3 + int(rng.integers(0, 5))
        bonds.extend([(i - 1, j), (j, i + 1)])
        if rng.random() < 0.5:
            bonds.extend([(i, j), (j, i)])
        else:
            anti_wide(i, j)
        if rng.random() < 0.5:
            para(i + 2, j + 2, 0)
        if rng.random() < 0.5:
            anti(i - 1, j + 1, 0)
    for _ in range(int(rng.choice([0, 0, 1, 2, 4, 8])) + (12 if recipe == "random" else 0)):
        a = int(rng.integers(0, n))
        d = a + int(rng.choice([-6, -5, -4, -3, -2, 2, 3, 3, 4, 4, 5, 5, 6, 7, 9]))
        bonds.append((a, d))
    pdel = float(rng.choice([0.0, 0.0, 0.05, 0.15]))
    bonds = [b for b in bonds if 0 <= b[0] < n and 0 <= b[1] < n and abs(b[0] - b[1]) >= 2 and rng.random() >= pdel]
    return bonds, recipe


def design_layout(rng, n, bonds):
    """Backbone coordinates (n,4,3) [N, CA, C, O] realising (most of) the intended pattern with free-standing peptide
    units: every C=O points along +z, hence every built hydrogen along -z of its N (kabsch_sander puts H at
    N + 0.1 nm * unit(C-O of the preceding residue)); the N of a donor sits 0.413 nm above the C of its acceptor
    (O..H 0.19 nm, linear: E ~ -2.9 kcal/mol), unrelated units are >= 1.5 nm apart (|E| < 0.1), and all CA atoms lie within a
    ball of radius 0.4 nm so that the 0.9 nm CA-CA prefilter admits every pair.  Whatever kabsch_sander then reports is
    the input of the rule model -- the intended pattern only steers the workload."""
    Cp, Np = {}, {}
    acc_of, don_of = {}, {}
    sites = iter([(1.5 * (k % 12), 1.5 * (k // 12), 0.0) for k in range(100000)])
    up = np.array([0.0, 0.0, 0.413])
    side_used = {}
    for a, d in bonds:
        if d in acc_of and (a in acc_of[d] or len(acc_of[d]) >= 2):
            continue
        if a not in Cp and d not in Np:
            s = np.array(next(sites))
            Cp[a] = s
            Np[d] = s + up
        elif a in Cp and d not in Np:
            k = len(don_of.get(a, []))
            if k >= 3:
                continue
            off = [(0.0, 0.0), (0.0, 0.12), (0.0, -0.12)][k]
            Np[d] = Cp[a] + up + np.array([off[0], off[1], 0.0])
        elif d in Np and a not in Cp:
            a0 = acc_of[d][0]
            used = side_used.setdefault(a0, set())
            side = 1 if 1 not in used else (-1 if -1 not in used else 0)
            if side == 0:
                continue
            used.add(side)
            Cp[a] = Cp[a0] + np.array([0.3 * side, 0.0, 0.0])
            side_used.setdefault(a, set()).add(-side)
            Np[d] = 0.5 * (Cp[a0] + Cp[a]) + up
        else:
            continue
        acc_of.setdefault(d, []).append(a)
        don_of.setdefault(a, []).append(d)
    X = np.zeros((n, 4, 3))
    k = 0
    for r in range(n):
        if r not in Cp:
            Cp[r] = np.array(next(sites))
        if r not in Np:
            Np[r] = np.array([1.5 * (k % 12), 1.5 * (k // 12), 8.0])
            k += 1
        X[r, 0] = Np[r]
        X[r, 2] = Cp[r]
        X[r, 3] = Cp[r] + np.array([0.0, 0.0, 0.123])
    # CA trace: a straight line (kappa = 0) bent by random jitter, inside a ball of radius 0.4 nm far from the units
    jit = float(rng.choice([0.0, 0.003, 0.01, 0.03]))
    step = min(0.012, 0.7 / max(n, 1))
    X[:, 1] = np.array([-5.0, -5.0, -5.0]) + np.outer(np.arange(n) - n / 2.0, [step, 0.0, 0.0]) + \
        np.clip(rng.normal(scale=jit, size=(n, 3)) if jit else np.zeros((n, 3)), -0.04, 0.04)
    return X


def _designed(rng, n_frames, distinct=None):
    import mdtraj as md
    from mdtraj.core import element as elem
    n = int(rng.choice([12, 20, 30, 40, 40, 50, 60]))
    frames, recipes = [], []
    if distinct is not None and n_frames > distinct:
        # long trajectories (widening round): `distinct` different patterns, each frame shows one of them
        base, recipes = [], []
        for f in range(distinct):
            bonds, recipe = design_pattern(rng, n)
            base.append(design_layout(rng, n, bonds).reshape(n * 4, 3))
            recipes.append(recipe)
        pick = rng.integers(0, distinct, n_frames)
        frames = [base[k] for k in pick]
        n_frames = 0
    for f in range(n_frames):
        bonds, recipe = design_pattern(rng, n)
        if rng.random() < 0.5:
            order = rng.permutation(len(bonds))
            bonds = [bonds[k] for k in order]
        frames.append(design_layout(rng, n, bonds).reshape(n * 4, 3))
        recipes.append(recipe)
    top = md.Topology()
    ch = top.add_chain()
    els = [elem.nitrogen, elem.carbon, elem.carbon, elem.oxygen]
    for r in range(n):
        res = top.add_residue("PRO" if rng.random() < 0.02 else "GLY", ch, resSeq=r + 1)
        for nm, e in zip(("N", "CA", "C", "O"), els):
            top.add_atom(nm, e, res)
    return md.Trajectory(np.array(frames, dtype=np.float32), top), recipes


# ------------------------------------------------------------------------------------------------------ topology edits
HETERO = {"HOH": [("O", "O"), ("H1", "H"), ("H2", "H")], "NA": [("NA", "Na")], "CA": [("CA", "Ca")],
          "LIG": [("C1", "C"), ("O1", "O"), ("N1", "N"), ("C2", "C")], "NME": [("N", "N"), ("C", "C")],
          "ACE": [("C", "C"), ("O", "O"), ("CH3", "C")]}


def rebuild(t, drop_atoms=(), cuts=(), inserts=None, rng=None):
    """New trajectory through the public topology API: atoms in `drop_atoms` removed, a new chain started before each
    residue index in `cuts`, hetero residues inserted before residue k for inserts[k] = [resname, ...]
    (k = n_residues: at the end)."""
    import mdtraj as md
    from mdtraj.core import element as elem
    inserts = inserts or {}
    drop = set(int(a) for a in drop_atoms)
    top = md.Topology()
    cols = []      # ('old', atom index) | ('new', anchor atom index, offset)
    chain = None
    last_chain_index = None
    anchor = 0

    def put_hetero(names, ch):
        for rn in names:
            res = top.add_residue(rn, ch)
            off0 = rng.normal(scale=0.4, size=3)
            for an, el in HETERO[rn]:
                top.add_atom(an, elem.get_by_symbol(el), res)
                cols.append(("new", anchor, off0 + rng.normal(scale=0.05, size=3)))

    for res in t.topology.residues:
        if chain is None or res.chain.index != last_chain_index or res.index in cuts:
            if res.index in inserts and chain is not None and rng.random() < 0.5:
                put_hetero(inserts[res.index], chain)   # at the end of the previous chain
                inserts = {k: v for k, v in inserts.items() if k != res.index}
            chain = top.add_chain()
            last_chain_index = res.chain.index
        atoms = [a for a in res.atoms]
        anchor = atoms[0].index
        if res.index in inserts:
            put_hetero(inserts[res.index], chain)
        kept = [a for a in atoms if a.index not in drop]
        if not kept:
            continue
        nres = top.add_residue(res.name, chain, resSeq=res.resSeq)
        for a in kept:
            top.add_atom(a.name, a.element, nres)
            cols.append(("old", a.index))
    if t.n_residues in inserts and chain is not None:
        put_hetero(inserts[t.n_residues], chain)
    xyz = np.zeros((t.n_frames, len(cols), 3), dtype=np.float32)
    for k, c in enumerate(cols):
        if c[0] == "old":
            xyz[:, k] = t.xyz[:, c[1]]
        else:
            xyz[:, k] = t.xyz[:, c[1]] + c[2].astype(np.float32)
    return md.Trajectory(xyz, top)


def restyle(t, rng, w):
    """widened classes, through the public topology API: residues renamed (non-standard names, to/from PRO), residue
    numbers duplicated / scrambled / with repeated numbers as insertion codes leave them, the atoms of a residue listed
    in another order (residues stay contiguous blocks), a new chain before many residues"""
    import mdtraj as md
    top = md.Topology()
    order = []
    nres = t.n_residues
    cuts = set(int(x) for x in rng.integers(0, max(1, nres), int(rng.integers(4, 13)))) if w["many_cuts"] else set()
    seq0 = int(rng.integers(-5, 900))
    chain, last = None, None
    for res in t.topology.residues:
        if chain is None or res.chain.index != last or res.index in cuts:
            chain = top.add_chain()
            last = res.chain.index
        name = res.name
        if w["rename"] and rng.random() < 0.25:
            name = str(rng.choice(NONSTANDARD))
        seq = res.resSeq
        if w["reseq"] == "duplicate":
            seq = seq0
        elif w["reseq"] == "scrambled":
            seq = int(rng.integers(-50, 5000))
        elif w["reseq"] == "insertion-like":  # 52, 52, 52, 53 ...: what 52A 52B leave behind
            seq = seq0 + res.index // 3
        nr = top.add_residue(name, chain, resSeq=seq, segment_id=res.segment_id)
        atoms = list(res.atoms)
        if w["perm"] and rng.random() < 0.6:
            atoms = [atoms[k] for k in rng.permutation(len(atoms))]
        for a in atoms:
            top.add_atom(a.name, a.element, nr)
            order.append(a.index)
    return md.Trajectory(t.xyz[:, order].copy(), top)


def facts(top):
    """what this module reads from the topology, by atom names only"""
    comp, chain, idx = [], [], []
    for r in top.residues:
        first = {}
        for a in r.atoms:
            first.setdefault(a.name, a.index)
        comp.append(all(x in first for x in ("N", "CA", "C", "O")))
        chain.append(r.chain.index)
        idx.append([first.get("N", -1), first.get("CA", -1), first.get("C", -1), first.get("O", -1)])
    return np.array(comp, bool), np.array(chain, np.int64), np.array(idx, np.int64).reshape(-1, 4)


# ------------------------------------------------------------------------------------------------------ case builder
def _build(case):
    import mdtraj as md
    rng = common.rng_for("C15case", case["seed"])
    nf = int(case["n_frames"])
    label = case["src"]
    recipes = []
    if case["src"] == "synthetic":
        t, label = _synthetic(rng, nf)
    elif case["src"] == "designed":
        t, recipes = _designed(rng, nf, distinct=12 if (case.get("w") or {}).get("cls") == "long" else None)
    else:
        s = _load(case["src"])
        fi = rng.integers(0, s.n_frames, nf)
        if s.n_frames > 1 and rng.random() < 0.5:
            fi = np.arange(nf) % s.n_frames
        t = md.Trajectory(s.xyz[fi].copy(), s.topology)
        if (case.get("w") or {}).get("cls") == "large":
            pass  # widened: the whole multi-chain crystal structure (1000-2500 residues), 1-2 frames
        elif t.n_residues > BIG:
            # keep a few chains of the big multi-chain systems
            nprot = {}
            for r in t.topology.residues:
                nprot.setdefault(r.chain.index, 0)
                nprot[r.chain.index] += 1
            chains = list(nprot)
            k = int(rng.integers(1, min(3, len(chains)) + 1))
            keep = set(int(c) for c in rng.choice(chains, size=k, replace=False))
            if case["tier"] == "thorough" and rng.random() < 0.15:
                keep = set(chains)
            t = t.atom_slice([a.index for a in t.topology.atoms if a.residue.chain.index in keep])
            if t.n_residues > BIG and nf > 4:
                t = t[:4]
                nf = 4
    if case["stack"]:
        other = str(rng.choice(["1bpi.pdb", "1vii.pdb", "2EQQ.pdb", "synthetic", "aaqaa-wat.pdb"]))
        if other == "synthetic":
            o, _ = _synthetic(rng, 1)
        else:
            o = _load(other)
            o = o[int(rng.integers(0, o.n_frames))]
        R = common.random_rotation(rng)
        ox = o.xyz[0].astype(np.float64)
        ox = (ox - ox.mean(0)) @ R.T
        d = rng.normal(size=3)
        d *= rng.uniform(0.0, 2.5) / np.linalg.norm(d)
        oxyz = np.repeat((ox + t.xyz[0].mean(0) + d)[None], t.n_frames, axis=0).astype(np.float32)
        t = t.stack(md.Trajectory(oxyz, o.topology))
        label += "+" + other
    if case["window"] and t.n_residues > 3:
        ln = int(rng.choice([1, 2, 3, 4, 5, 6, 7, 9, 12, 20]))
        a = int(rng.integers(0, max(1, t.n_residues - ln)))
        t = t.atom_slice([x.index for x in t.topology.atoms if a <= x.residue.index < a + ln])
    w = case.get("w")
    if w and w["cls"] == "long" and t.n_residues > 70:
        a = int(rng.integers(0, t.n_residues - 60))
        t = t.atom_slice([x.index for x in t.topology.atoms if a <= x.residue.index < a + 60])
    comp, chain, idx = facts(t.topology)
    edits = []
    if case["edit"] != "none" and t.n_residues > 0:
        drop, cuts, inserts = [], set(), {}
        nres = t.n_residues
        prot = np.flatnonzero(comp)
        if case["edit"] in ("delete", "mixed") and len(prot):
            # bias towards residues inside secondary structure: use the codes mdtraj reports for the first frame only
            # to steer the generator (not the verdict)
            try:
                codes = md.compute_dssp(t[0], simplified=True)[0]
                inside = [r for r in prot if codes[r] in ("H", "E")]
            except Exception:
                inside = []
            k = int(rng.integers(1, 2 + max(1, len(prot) // 25)))
            for _ in range(k):
                pool = inside if (inside and rng.random() < 0.7) else prot
                r = int(pool[int(rng.integers(len(pool)))])
                which = int(rng.choice([0, 1, 2, 3, 3, 0]))
                drop.append(int(idx[r, which]))
                edits.append("delete:" + "N CA C O".split()[which])
                if rng.random() < 0.15:
                    drop.extend(int(x) for x in idx[r] if x >= 0)
                    edits.append("delete:whole-backbone")
        if case["edit"] in ("cut", "mixed"):
            for _ in range(int(rng.integers(1, 4))):
                cuts.add(int(rng.integers(0, nres)))
            edits.append("chain-cut")
        if case["edit"] in ("insert", "mixed"):
            for _ in range(int(rng.integers(1, 5))):
                k = int(rng.integers(0, nres + 1))
                inserts.setdefault(k, []).extend(
                    str(x) for x in rng.choice(list(HETERO), size=int(rng.integers(1, 3))))
            edits.append("insert-hetero")
        t = rebuild(t, drop, cuts, inserts, rng)
        comp, chain, idx = facts(t.topology)
    # frames: scale / unfolding / noise, per frame
    xyz = t.xyz.astype(np.float64)
    if case["scale"] != 1.0:
        c = xyz.mean(axis=1, keepdims=True)
        xyz = (xyz - c) * case["scale"] + c
        edits.append("scale")
    if case["unfold"] and t.n_residues > 6:
        res_of_atom = np.array([a.residue.index for a in t.topology.atoms])
        for f in range(t.n_frames):
            a = int(rng.integers(0, t.n_residues - 3))
            b = int(rng.integers(a + 2, min(t.n_residues, a + 40) + 1))
            m = (res_of_atom >= a) & (res_of_atom < b)
            if rng.random() < 0.5:
                d = rng.normal(size=3)
                xyz[f, m] += d / np.linalg.norm(d) * rng.uniform(0.05, 3.0)
            else:
                c = xyz[f, m].mean(0)
                xyz[f, m] = (xyz[f, m] - c) * rng.uniform(1.1, 3.0) + c
        edits.append("unfold")
    if case["noise"] > 0:
        sig = rng.choice([case["noise"], case["noise"], case["noise"] / 2, 0.0], size=t.n_frames)
        xyz = xyz + rng.normal(size=xyz.shape) * sig[:, None, None]
    if w and w["late_k"]:
        # widened: a long trajectory whose first frames are blown up by a factor 3 (no backbone H-bond survives, bends
        # do: kappa is scale invariant); the structure appears only in the last k frames
        k = w["late_k"]
        n0 = max(0, xyz.shape[0] - k)
        c = xyz[:n0].mean(axis=1, keepdims=True)
        xyz[:n0] = (xyz[:n0] - c) * 3.0 + c
        edits.append("late")
    t = md.Trajectory(xyz.astype(np.float32), t.topology)
    if w:
        if t.n_residues:
            t = restyle(t, rng, w)
            comp, chain, idx = facts(t.topology)
        for e_, on in (("many-chains", w["many_cuts"]), ("resSeq-" + w["reseq"], w["reseq"] != "keep"), ("residues-renamed", w["rename"]),
                       ("atoms-reordered-within-residues", w["perm"])):
            if on:
                edits.append(e_)
        if w["cell"] != "none":
            # widened: the trajectory carries a unit cell (the assignment is not periodic: nothing may change)
            L, A = common.random_cell(rng, w["cell"], lo=0.5, hi=4.0)
            t.unitcell_lengths = np.tile(L, (t.n_frames, 1)).astype(np.float32)
            t.unitcell_angles = np.tile(A, (t.n_frames, 1)).astype(np.float32)
            edits.append("unit-cell:" + w["cell"])
        if w.get("derived", "none") != "none":
            # widened class: the trajectory is obtained the way users obtain one (cut out of / strided from a longer
            # one, with or without copying, joined from pieces, float64 coordinates assigned, cell as box vectors)
            t = common.derive_traj(t, w["derived"], common.rng_for("C15derive", case["seed"]))
            edits.append("obtained-by:" + w["derived"])
    return t, comp, chain, idx, label, edits, recipes, rng


# ------------------------------------------------------------------------------------------------------ readings
def hb_set(M):
    """(set of Hbond(a, d), diagnostics) from one kabsch_sander matrix"""
    C = M.tocoo()
    ok = C.data < -0.5
    return set(zip(C.row[ok].tolist(), C.col[ok].tolist())), int((~ok).sum()), C


def readings(hb, comp, chain, idx, x64, **opt):
    """[(name, codes, bend_margin, result)] for the chain-continuity readings S and D+d"""
    n = len(comp)
    ca = np.zeros((n, 3))
    ca[comp] = x64[idx[comp, 1]]
    out = []
    S = ref.assign(hb, comp, chain, ca, **opt)
    out.append(("S", S.codes, S.bend_margin, S))
    if not comp.all() and comp.any():
        keep = np.flatnonzero(comp)
        new = np.full(n, -1)
        new[keep] = np.arange(len(keep))
        hb2 = set((int(new[a]), int(new[d])) for a, d in hb if new[a] >= 0 and new[d] >= 0)
        extra = []
        for k in range(len(keep) - 1):
            r, s = int(keep[k]), int(keep[k + 1])
            if s != r + 1 and chain[r] == chain[s]:
                # the sequence closes over the dropped residues only if r and s are peptide-bonded (K&S: C-N <= 2.5 A)
                d = np.linalg.norm(x64[idx[s, 0]] - x64[idx[r, 2]])
                if not (d <= 0.25) or any(chain[q] != chain[r] for q in range(r + 1, s)):
                    extra.append(k)
        D = ref.assign(hb2, np.ones(len(keep), bool), chain[keep], ca[keep], extra_breaks=extra, **opt)
        codes = ["NA"] * n
        for k, r in enumerate(keep):
            codes[r] = D.codes[k]
        bm = {int(keep[k]): v for k, v in D.bend_margin.items()}
        out.append(("D+d", codes, bm, D))
    return out


def all_readings(hb, comp, chain, idx, x64):
    """every reading of the rules on this frame: [(name, codes, bend_margin)], skip reasons by name, the primary
    result (reading S, default options) and all result objects"""
    import itertools
    base = readings(hb, comp, chain, idx, x64)
    S = base[0][3]
    out = [(nm, c, bm) for nm, c, bm, _ in base]
    results = [r[3] for r in base]
    reasons = {"D+d": "whether an incomplete residue interrupts the chain or is dropped from the sequence is not fixed"}
    variants = []
    if any(r[3].branches.get("bridge:both-types") for r in base):
        variants.append((dict(both_type="antiparallel"), "pair satisfies the parallel and the antiparallel bridge pattern"))
    if any(r[3].branches.get("bulge-rejected:shared-residue-on-strand-2") for r in base):
        variants.append((dict(shared_gap=True), "bulge link between ladders sharing a residue on one strand"))
    if any(r[3].branches.get("bulge:ambiguous-link-order") for r in base) or variants:
        # (a changed bridge typing or an extra link can itself create an ambiguous linking order)
        variants.append((dict(link_mode="min"), "a ladder can be bulge-linked to two ladders on the same side: "
                                                "the linking order is not fixed by the rules"))
    for k in range(1, len(variants) + 1):
        for combo in itertools.combinations(variants, k):
            opt = {}
            for o, _ in combo:
                opt.update(o)
            for nm, c, bm, res in readings(hb, comp, chain, idx, x64, **opt):
                key = nm + "|" + ",".join(sorted(opt))
                reasons[key] = combo[0][1]
                out.append((key, c, bm))
                results.append(res)
    return out, reasons, S, results


def _name(c):
    return "loop" if c == " " else c


def _image(cand):
    out = {}
    for c, nm in cand.items():
        out.setdefault(ref.SIMPLIFIED[c], nm)
    return out


# ------------------------------------------------------------------------------------------------------ run
def _as_rows(a):
    return ["|".join(row.tolist()) for row in np.asarray(a)]


def run_case(case, ctx):
    import mdtraj as md
    t, comp, chain, idx, label, edits, recipes, rng = _build(case)
    for r in recipes:
        ctx.observe("designed", r)
    nf, nres = t.n_frames, t.n_residues
    ctx.observe("source", label)
    for e in set(edits) or {"none"}:
        ctx.observe("edit", e)
    ctx.observe("n_frames", nf)
    ctx.observe("n_chains", min(t.n_chains, 6))
    ctx.observe("incomplete_residues", "some" if (~comp).any() else "none")
    if nres == 0:
        ctx.skip("rules.code", "no residues")
        return
    w = case.get("w")
    if w:
        # widened: the flag given positionally / as numpy bool / as int, and the documented default (simplified=True)
        F_, T_ = {"bool": (False, True), "np.bool_": (np.bool_(False), np.bool_(True)), "int": (0, 1)}[w["simp_type"]]
        ctx.observe("simplified given as", w["simp_type"] + ("/positional" if w["positional"] else "/keyword"))
        ctx.observe("class", w["cls"])
        ctx.observe("n_residues", "<=60" if nres <= 60 else ("<=400" if nres <= 400 else ">400"))
        full = md.compute_dssp(t, F_) if w["positional"] else md.compute_dssp(t, simplified=F_)
        simp = md.compute_dssp(t, T_) if w["positional"] else md.compute_dssp(t, simplified=T_)
        dflt = md.compute_dssp(t)
        ctx.check(getattr(dflt, "shape", None) == getattr(simp, "shape", None) and bool(np.all(dflt == simp)), "default-is-simplified",
                  "compute_dssp:default-differs-from-simplified=True", "compute_dssp(traj) differs from compute_dssp(traj, simplified=True)")
    else:
        full = md.compute_dssp(t, simplified=False)
        simp = md.compute_dssp(t, simplified=True)
    ks = md.kabsch_sander(t)

    # ---- shape / alphabet / NA / image ---------------------------------------------------------------------------
    okshape = True
    for name, a in (("full", full), ("simplified", simp)):
        if getattr(a, "shape", None) != (nf, nres):
            ctx.violation("shape", "compute_dssp:shape", f"{name} output has shape {getattr(a, 'shape', None)}, expected {(nf, nres)}")
            okshape = False
        else:
            ctx.ok("shape")
    if not okshape:
        return
    full_l = full.tolist()
    simp_l = simp.tolist()
    alpha_f = set(ref.FULL_ALPHABET) | {"NA"}
    alpha_s = {"H", "E", "C", "NA"}
    bad = sorted(set(c for row in full_l for c in row) - alpha_f)
    ctx.check(not bad, "alphabet", "compute_dssp:alphabet:full", f"full output contains codes {bad}")
    bad = sorted(set(c for row in simp_l for c in row) - alpha_s)
    ctx.check(not bad, "alphabet", "compute_dssp:alphabet:simplified", f"simplified output contains codes {bad}")
    for name, rows in (("full", full_l), ("simplified", simp_l)):
        na = np.array([[c == "NA" for c in row] for row in rows], bool).reshape(nf, nres)
        miss = na & comp[None, :]
        extra = (~na) & (~comp)[None, :]
        if miss.any():
            f, r = np.argwhere(miss)[0]
            ctx.violation("na-mask", f"compute_dssp:NA-mask:complete-residue-reported-NA", f"{name}: residue {r} has N, CA, C, O but is 'NA'",
                          frame=int(f), residue=int(r))
        if extra.any():
            f, r = np.argwhere(extra)[0]
            ctx.violation("na-mask", f"compute_dssp:NA-mask:incomplete-residue-gets-code", f"{name}: residue {r} lacks a backbone atom but is "
                          f"{rows[f][r]!r}", frame=int(f), residue=int(r))
        if not miss.any() and not extra.any():
            ctx.ok("na-mask", nf * nres)
    nbad = 0
    for f in range(nf):
        img = ref.simplified([c if c in ref.SIMPLIFIED else "?" for c in full_l[f]]) if all(c in ref.SIMPLIFIED for c in full_l[f]) else None
        if img is None or img != simp_l[f]:
            nbad += 1
            if nbad == 1:
                r = next((k for k in range(nres) if img is None or img[k] != simp_l[f][k]), 0)
                ctx.violation("simplified-image", "compute_dssp:simplified-is-not-image-of-full",
                              f"frame {f} residue {r}: full {full_l[f][r]!r} but simplified {simp_l[f][r]!r}", frame=f, residue=r)
    ctx.ok("simplified-image", (nf - nbad) * nres)

    # ---- rule model ----------------------------------------------------------------------------------------------
    x64all = t.xyz.astype(np.float64)
    for f in range(nf):
        M = ks[f]
        if M.shape != (nres, nres):
            ctx.violation("ks.input", "kabsch_sander:matrix-shape", f"matrix shape {M.shape} for {nres} residues")
            continue
        hb, n_weak, C = hb_set(M)
        on_incomplete = [(a, d) for a, d in hb if not (comp[a] and comp[d])]
        if n_weak or on_incomplete:
            ctx.skip("rules.code", "kabsch_sander reports entries >= -0.5 or on incomplete residues (C14's business): "
                     "input is not an H-bond pattern", int(comp.sum()))
            ctx.observe("ks.input", "malformed")
            continue
        ctx.ok("ks.input")
        rd, reasons, S, results = all_readings(hb, comp, chain, idx, x64all[f])
        for k, v in S.branches.items():
            ctx.observe("rule_branch", k, v)
        ctx.observe("readings", len(rd))
        codes0 = rd[0][1]
        n_ok = n_ok_s = 0
        lenient = None
        for r in range(nres):
            if not comp[r]:
                continue
            got = full_l[f][r]
            cand = {}
            for nm, codes, bm in rd:
                cand.setdefault(codes[r], nm)
            margin = min([bm[r] for nm, codes, bm in rd if r in bm] or [np.inf])
            in_band = margin < 1e-3
            if in_band:
                for nm, codes, bm in rd:
                    if r in bm and codes[r] in ("S", " "):
                        cand.setdefault("S" if codes[r] == " " else " ", "kappa-band")
            ctx.observe("code", _name(codes0[r]))
            for kind, g, cset in (("rules.code", got, cand),
                                  ("rules.simplified-code", simp_l[f][r], _image(cand))):
                primary = codes0[r] if kind == "rules.code" else ref.SIMPLIFIED[codes0[r]]
                if g in cset and len(cset) == 1:
                    if kind == "rules.code":
                        n_ok += 1
                    else:
                        n_ok_s += 1
                elif g in cset:
                    other = next(nm for c, nm in cset.items() if c != primary)
                    ctx.skip(kind, "kappa within 1e-3 degree of 70 or undefined" if other == "kappa-band" else
                             reasons.get(other, reasons.get(other.split("|")[0], "readings of the rules differ")))
                else:
                    if lenient is None:
                        ca = np.zeros((nres, 3))
                        ca[comp] = x64all[f][idx[comp, 1]]
                        # what results when incomplete residues only lack H-bonds of their own (all option readings)
                        lenient = [ref.assign(hb, comp, chain, ca, na_breaks=False, link_mode=m, shared_gap=sg, both_type=bt)
                                   for m in ("max", "min") for sg in (False, True) for bt in ("parallel", "antiparallel")]
                        overlap = set()
                        for res_ in results:
                            overlap |= res_.info["overlap_residues"]
                        len_region = set()
                        for L in lenient:
                            len_region |= L.info["overlap_residues"] | L.info["ambiguous_residues"]
                    exp = codes0[r] if kind == "rules.code" else ref.SIMPLIFIED[codes0[r]]
                    len_codes = set(L.codes[r] if kind == "rules.code" else ref.SIMPLIFIED[L.codes[r]] for L in lenient)
                    tag = "code" if kind == "rules.code" else "simplified-code"
                    chain_msg = (f"frame {f} residue {r}: reported {g!r}; every reading of the rules gives "
                                 f"{sorted(cset)} -- the reported code is what results when an incomplete residue keeps "
                                 f"its place in the chain for the i+-k patterns")
                    if (~comp).any() and g in len_codes:
                        key, what = "compute_dssp:chain-continuity-ignores-incomplete-residues", chain_msg
                    elif r in overlap:
                        key = "compute_dssp:bulge-link-of-ladders-with-overlapping-strands"
                        what = (f"frame {f} residue {r}: reported {g!r}, the rules give {sorted(cset)}; the residue lies in "
                                f"two ladders of one type whose second strands overlap (no gap, so no bulge link)")
                    elif (~comp).any() and r in len_region:
                        key, what = "compute_dssp:chain-continuity-ignores-incomplete-residues", chain_msg
                    else:
                        key = f"compute_dssp:{tag}:expected={_name(exp)}:reported={_name(g)}"
                        what = f"frame {f} residue {r}: reported {g!r}, the rules give {sorted(cset)} on the reported H-bonds"
                    lo, hi = max(0, r - 8), min(nres, r + 9)
                    ctx.violation(kind, key, what, frame=f, residue=r, source=label, edits=edits,
                                  window=[lo, hi], reported="".join(c if c != "NA" else "~" for c in full_l[f][lo:hi]),
                                  model="".join(c if c != "NA" else "~" for c in codes0[lo:hi]),
                                  hbonds_near=sorted((a, d) for a, d in hb if lo - 6 <= a < hi + 6 and lo - 6 <= d < hi + 6)[:60],
                                  complete=comp[lo:hi].astype(int), chain=chain[lo:hi])
        ctx.ok("rules.code", n_ok)
        ctx.ok("rules.simplified-code", n_ok_s)

    # ---- frame context -------------------------------------------------------------------------------------------
    rows_f, rows_s = _as_rows(full), _as_rows(simp)
    for f in range(nf):
        one = t[f]
        a = _as_rows(md.compute_dssp(one, simplified=False))
        b = _as_rows(md.compute_dssp(one, simplified=True))
        ctx.check(len(a) == 1 and a[0] == rows_f[f] and len(b) == 1 and b[0] == rows_s[f], "frame-context",
                  "compute_dssp:frame-context", f"frame {f} alone gives a different assignment than inside the {nf}-frame trajectory",
                  frame=f, source=label)

    # ---- junk differential ---------------------------------------------------------------------------------------
    na = t.n_atoms
    order = []
    for f in range(nf):
        order.append(("junk", None))
        order.append(("real", f))
    order.append(("junk", None))
    buf = np.empty((len(order) + 2, na, 3), dtype=np.float32)
    fills = [np.nan, 1e30, -1e30, 0.0, np.inf]
    buf[0] = fills[int(rng.integers(len(fills)))]
    buf[-1] = fills[int(rng.integers(len(fills)))]
    for k, (kind, f) in enumerate(order):
        if kind == "real":
            buf[k + 1] = t.xyz[f]
        else:
            j = int(rng.integers(len(fills) + 1))
            if j == len(fills):
                buf[k + 1] = t.xyz[int(rng.integers(nf))][rng.permutation(na)] if na else 0.0
                ctx.observe("junk", "scrambled-structure")
            else:
                buf[k + 1] = fills[j]
                ctx.observe("junk", str(fills[j]))
    tj = md.Trajectory(buf[1:-1], t.topology)
    ctx.observe("junk.guard-buffer-is-a-view", bool(np.shares_memory(tj.xyz, buf)))
    jf = _as_rows(md.compute_dssp(tj, simplified=False))
    js = _as_rows(md.compute_dssp(tj, simplified=True))
    for k, (kind, f) in enumerate(order):
        if kind != "real":
            continue
        ctx.check(jf[k] == rows_f[f] and js[k] == rows_s[f], "junk-differential", "compute_dssp:junk-differential",
                  f"frame {f} embedded between junk frames gives a different assignment", frame=f, source=label)

    # ---- state on the Topology object across calls (widening round) ------------------------------------------------
    if w and nres:
        # compute_dssp / kabsch_sander have run on this Topology object above; it is now edited IN PLACE through public
        # attributes / the public API and the next call on the same object must equal the call on a freshly built equal
        # topology (what a fresh topology gives is judged by the monitors above)
        from mdtraj.core import element as elem
        top = t.topology
        residues = list(top.residues)
        xyz = t.xyz.copy()
        edit = str(rng.choice(["residue<->PRO", "backbone-atom-renamed", "insert_atom", "atom-renamed-to-backbone-name"]))
        r = residues[int(rng.integers(len(residues)))]
        if edit == "residue<->PRO":
            r.name = "ALA" if r.name == "PRO" else "PRO"
        elif edit == "backbone-atom-renamed":
            bb = [a for a in top.atoms if a.name in ("N", "CA", "C", "O")]
            if bb:
                a = bb[int(rng.integers(len(bb)))]
                a.name = a.name + "X"           # the residue becomes incomplete
        elif edit == "atom-renamed-to-backbone-name":
            inc = [q for q in residues if not all(any(a.name == nm for a in q.atoms) for nm in ("N", "CA", "C", "O")) and q.n_atoms]
            q = inc[int(rng.integers(len(inc)))] if inc else r
            have = set(a.name for a in q.atoms)
            free = [a for a in q.atoms if a.name not in ("N", "CA", "C", "O")]
            for nm in ("N", "CA", "C", "O"):
                if nm not in have and free:
                    free.pop().name = nm        # towards a complete residue
        else:
            first = r.atom(0).index if r.n_atoms else 0
            top.insert_atom("XI", elem.carbon, r, index=first, rindex=0)
            xyz = np.insert(xyz, first, xyz[:, min(first, xyz.shape[1] - 1)] + np.float32(0.13), axis=1)
        ctx.observe("in-place topology edit between calls", edit)
        t_same = md.Trajectory(xyz.copy(), top)
        t_new = md.Trajectory(xyz.copy(), common.rebuild_topology(top))
        for simp_ in (False, True):
            a = md.compute_dssp(t_same, simplified=simp_)
            b = md.compute_dssp(t_new, simplified=simp_)
            ctx.check(a.shape == b.shape and bool(np.all(a == b)), "history.in-place-edit",
                      "compute_dssp:result-after-in-place-topology-edit-differs-from-fresh-topology",
                      f"compute_dssp(simplified={simp_}) called again after an in-place edit of the Topology ({edit}) differs from the "
                      "call on a freshly built equal topology", edit=edit)
