"""C16 — derived descriptors equal their defining formulas.

Monitors: differential oracles (float64 closed forms in vlib/oracle/c16_formulas.py, written from the docstrings)
observing the real mdtraj entry points, one *family* per case:

  contacts  md.compute_contacts + mdtraj.geometry.squareform — every returned column is recomputed on its own from the
            residue pair named by the returned `residue_pairs` label (min / soft-min over the atom pairs the scheme
            designates, minimum image when periodic); the label set itself is checked against the documented rule.
  shape     compute_center_of_mass(select=) / _geometry, compute_rg(masses=), gyration + inertia tensors,
            principal_moments (sorted, trace, determinant), asphericity, acylindricity, relative_shape_antisotropy.
  thermo    density (documented kg/m^3), dipole_moments, static_dielectric, isothermal_compressability_kappa_T.
  rdf       compute_rdf (bin centres/edges, shell volumes, pair count, sum 1/V) and compute_rdf_t (light).
  drid      compute_drid: mean / sqrt(2nd) / cbrt(3rd) central moments of reciprocal distances, bonded partners excluded,
            result slots matched to atom_indices order.
  order     compute_directors / compute_nematic_order, Karplus J couplings on the phi angles named by the returned indices.

Tolerances (all derived from float32 input/compute rounding eps32 = 2^-24, M = max |coordinate|, L = longest cell vector):
  distance            tau_d = 16 eps32 (M + L) + 1e-7                (same bound as C05)
  contact column      tau_d ; soft-min: beta/logS^2 * (beta tau_d / d_min^2 + 2 eps32 (n + 4 + x_max)) + tau_d, x = beta/d
                      (float32 exp/sum in mdtraj: relative eps32(1+x) per term, n eps32 for the sum); beta/d_min > 80 is the
                      documented float32 overflow caveat ("small contact distances go to 0") -> skip
  com / cog           8 eps32 M + 1e-9
  rg                  64 eps32 M + 1e-7 (mdtraj centres and squares in float32: error of each centred coordinate <= 2 eps32 M)
  tensors             64 eps32 M R (+ mass factor), R = max distance from the centre; eigenvalues: Weyl, 3 x element bound
  shape descriptors   b, c: 2 x eigenvalue bound; kappa^2: 12 e / sum(lambda); sum(lambda) = 0 -> skip
  density             relative 2e-6 (CODATA revisions of the dalton differ by 2e-7)
  dipole              sum |q_i| * 2 tau_d
  rdf                 counts: a distance within tau_d of a bin edge may fall on either side -> per-bin [lo, hi] bounds;
                      normalisation relative 1e-6
  drid                delta = 8 eps32 max(1/d) per term; mean: delta; 2nd root: 2 delta; 3rd root: linearised
                      (sigma^2 delta / m3^(2/3)) x 8, |m3| < 100 x its own error -> skip (cube root ill-conditioned)
  directors           residual / Rayleigh quotient against the oracle inertia tensor, 256 eps32 ||I|| + tiny
  nematic             3 mean_i(dI_i / gap_i); a group with gap-relative error > 1e-2 -> skip
  karplus             (2|A|+|B|) * tau_phi + 1e-5, tau_phi = 64 eps32 (M/h + 1) / min(sin)^2 + 1e-6, h = shortest lever arm

"wide" cases (case["wide"], appended after the base stream so that the base cases keep their descriptors) re-run the same
monitors on the input classes the base generators never reach: trajectories beyond 100 frames for every family, per-frame
cells where one field / the angles / the cell CLASS changes along the trajectory, keyword arguments omitted (documented
defaults), index containers (list of lists, tuple of tuples, int32, non-contiguous views), integer soft_min_beta, the same
object asked under two schemes in turn, homogeneous (water/ion only) topologies, squareform on column subsets, exactly
axis-aligned / planar / cubic (degenerate principal moments) / lattice geometries, (n_frames, n_atoms) coincidences such as
(3, 3), xyz handed over as float64 / Fortran-ordered / strided arrays, mass and charge vectors as float32 / int64 / strided
arrays (float32 vectors add n eps32 relative: mdtraj then accumulates in float32), compute_rdf_t with its default
self_correlation=True, groups for compute_directors in non-ascending / interleaved / overlapping order and as tuples,
phi completeness after backbone atoms were deleted, unknown Karplus model names.
"""
from __future__ import annotations

import warnings

import numpy as np

from vlib.gen import common
from vlib.oracle import c16_formulas as F
from vlib.oracle import geom

PROPERTY = "C16"
LEVEL = "exploration"
NATIVE = ["mdtraj.geometry._geometry", "mdtraj.geometry.drid"]
RULE = ("cases = (family, seed) from a seeded stream, the six families interleaved; each case rebuilds its topology "
        "(pieces of /repo/tests/data proteins with waters/ions/ligands, atoms deleted, several chains; or random "
        "multi-chain topologies), coordinates, cell and options from the seed; non-trivial = at least one monitor "
        "compared a returned number with the float64 closed form; distinct = distinct case descriptors; appended: long "
        "contacts trajectories (> 2^24 atom-pair distances) and 'wide' cases of every family (beyond 100 frames, per-frame cells "
        "changing one field / angles / class, omitted keyword arguments, index containers and dtypes, exact special geometries, "
        "non-ascending / interleaved / overlapping groups, whole structures, water-only topologies)")
WORKERS = {"quick": 8, "thorough": 16}
BUDGET = {"quick": 60, "thorough": 900}
ENV = {"OMP_NUM_THREADS": "2", "OMP_WAIT_POLICY": "passive"}  # 16 spinning threads on 40 atoms cost 0.5 s per call
N_LONG = {"quick": 3, "thorough": 10}
N_WIDE = {"quick": 100, "thorough": 1000}  # per family, appended after the base stream
FAMILIES = ["contacts", "shape", "thermo", "rdf", "drid", "order"]
NCASES = {"quick": 900, "thorough": 9000}  # per family
FLOORS = {"quick": {"contacts.column": 700, "contacts.column.soft_min": 250, "contacts.column.periodic": 350, "contacts.pairs": 200,
                    "contacts.squareform": 5000, "com": 1000, "cog": 500, "rg": 180, "rg.masses": 60, "gyration": 1500, "inertia": 1500,
                    "pm": 500, "pm.trace": 180, "pm.det": 180, "asphericity": 180, "acylindricity": 180, "rsa": 100,
                    "density": 90, "dipole": 25, "dielectric": 12, "kappa_T": 12, "rdf.bins": 100, "rdf.g": 450, "rdf_t": 150,
                    "drid.mean": 2000, "drid.second": 2000, "drid.third": 2000, "drid.bonded-exclusion-exercised": 1500,
                    "directors": 450, "nematic": 90, "nematic.q": 90, "karplus.J": 350, "karplus.labels": 180,
                    # widened classes (wide cases only)
                    "contacts.column.defaults-omitted": 1500, "contacts.column.per-frame-cell": 800, "karplus.complete": 10}}
ASSUMPTIONS = [
    "oracle masses are the topology's element masses (checked against a table of standard atomic weights to 5e-4)",
    "cell volume / lattice taken from traj.unitcell_vectors (C17 checks the cell algebra)",
    "periodic contact/rdf/dipole workloads keep molecules inside half the cell width for skewed cells (C05 domain)",
    "contacts='all': whether residues of different chains count as 'separated by two or more residues' is not documented; "
    "inter-chain pairs are an ambiguity band (skip), same-chain pairs are judged",
    "sidechain membership of terminal atoms (OXT, H1-H3, unknown names) is not documented; columns whose value depends on it are skipped",
    "compute_rdf_t(self_correlation=True): 'include the self-correlation, the case of i=j' is read as: the pair (i, i) of every atom "
    "named in `pairs` joins the pair list (its distance is the atom's own displacement between the two frames) and counts in N_pairs",
    "compute_rdf_t(period_length=...) is not given a formula by its documentation and is left at its default",
]

DATA = "/repo/tests/data/"
SOURCES = ["1vii_sustiva_water.pdb", "4OH9.pdb", "2EQQ.pdb", "bpti.pdb", "1bpi.pdb", "GG-tip4pew.pdb", "4ZUO.pdb", "1vii.pdb"]
_cache = {}


# thorough tier: every 30-th case also runs in a worker whose extensions are ASan/UBSan-instrumented (vlib/sanitize.py)
ASAN_EVERY = {"quick": 0, "thorough": 30}
GROUPS = {"thorough": [dict(name="asan", flavour="asan", workers=2)]}


def gen_cases(tier, seed):
    from vlib.gen import common as _common
    return _common.with_asan_slice(_gen_cases(tier, seed), ASAN_EVERY[tier])


def _gen_cases(tier, seed):
    n = NCASES[tier]
    for i in range(n * len(FAMILIES)):
        fam = FAMILIES[i % len(FAMILIES)]
        yield dict(i=i, fam=fam, seed=common.case_seed(seed, "C16", i), big=(tier == "thorough"))
    # long trajectories x every residue pair: tens of millions of atom-pair distances behind one call (the reduction from
    # atom pairs to residue pairs then works on arrays far larger than any cache or scratch limit)
    for k in range(N_LONG[tier]):
        yield dict(i=n * len(FAMILIES) + k, fam="contacts", seed=common.case_seed(seed, "C16long", k), big=False, long=True)
    # widened input classes (see the module docstring)
    base = n * len(FAMILIES) + N_LONG[tier]
    for k in range(N_WIDE[tier] * len(FAMILIES)):
        yield dict(i=base + k, fam=FAMILIES[k % len(FAMILIES)], seed=common.case_seed(seed, "C16wide", k), big=False, wide=True)


def run_case(case, ctx):
    ctx.observe("family", case["fam"])
    rng = common.rng_for("C16case", case["fam"], case["seed"])
    with warnings.catch_warnings():
        warnings.simplefilter("ignore")
        globals()["_run_" + case["fam"]](case, ctx, rng)


# =============================================================================================== helpers
def _src(name):
    import mdtraj as md
    if name not in _cache:
        t = md.load(DATA + name)
        res_atoms = [np.array([a.index for a in r.atoms]) for r in t.top.residues]
        prot = np.array([r.name in F.STANDARD_AA for r in t.top.residues])
        first = np.array([ra[0] for ra in res_atoms])
        _cache[name] = (t, res_atoms, prot, first)
    return _cache[name]


def _tau_d(x32, B=None):
    M = float(np.abs(x32).max()) if x32.size else 0.0
    L = float(np.linalg.norm(B, axis=-1).max()) if B is not None else 0.0
    return 16 * F.EPS32 * (M + L) + 1e-7


def _make_cell(rng, kind, need_width):
    """random cell of class `kind` scaled so that its smallest perpendicular width is `need_width`"""
    L, A = common.random_cell(rng, kind)
    B = common.cell_vectors64(L, A)
    w = common.cell_widths(B).min()
    return L * (need_width / w), A


def _set_cell(t, L, A):
    nf = t.n_frames
    t.unitcell_lengths = np.tile(np.asarray(L, np.float32), (nf, 1))
    t.unitcell_angles = np.tile(np.asarray(A, np.float32), (nf, 1))


def _diameter(x):
    p = x.reshape(-1, 3).astype(np.float64)
    if len(p) > 400:
        p = p[:: len(p) // 400 + 1]
    c = p.mean(0)
    return 2.0 * float(np.linalg.norm(p - c, axis=1).max()) + 1e-3


# =============================================================================================== contacts
def _protein_piece(rng, big, maxres=None):
    import mdtraj as md
    name = SOURCES[int(rng.integers(len(SOURCES)))]
    t, res_atoms, prot, first = _src(name)
    fr = int(rng.integers(t.n_frames))
    chains = [c for c in t.top.chains if sum(prot[r.index] for r in c.residues) >= 2]
    sel = set()
    for _ in range(int(rng.integers(1, 3))):
        ch = chains[int(rng.integers(len(chains)))]
        rl = [r.index for r in ch.residues]
        Lr = int(rng.integers(1, (10 if big else 6) + 1)) if maxres is None else int(rng.integers(maxres // 2, maxres + 1))
        Lr = min(Lr, len(rl))
        s = int(rng.integers(0, len(rl) - Lr + 1))
        sel.update(rl[s:s + Lr])
    het = np.where(~prot)[0]
    if len(het) and rng.random() < 0.6:
        anchor = t.xyz[fr, first[sorted(sel)[0]]]
        d = np.linalg.norm(t.xyz[fr, first[het]] - anchor, axis=1)
        near = het[np.argsort(d)[:12]]
        k = int(rng.integers(1, 4))
        sel.update(int(x) for x in rng.choice(near, size=min(k, len(near)), replace=False))
    atoms = np.concatenate([res_atoms[r] for r in sorted(sel)])
    sub = t[fr].atom_slice(atoms)
    return md.Trajectory(sub.xyz.copy(), sub.topology), name


def _contacts_structure(rng, case, ctx):
    """one frame: pieces of the test proteins (with neighbouring waters / ions / ligands, atoms deleted) or a random topology"""
    import mdtraj as md
    big = case["big"] or bool(case.get("long"))
    if rng.random() < 0.25 and not case.get("long"):
        na = int(rng.integers(4, 60 if big else 36))
        top = common.random_topology(rng, na, rich=True, bonds=False)
        xyz0 = rng.normal(scale=0.6, size=(1, na, 3)).astype(np.float32)
        t = md.Trajectory(xyz0, top)
        ctx.observe("contacts.topology", "random")
    else:
        npieces = int(rng.choice([1, 2, 3], p=[0.45, 0.4, 0.15]))
        t = None
        names = []
        for _ in range(npieces):
            p, nm = _protein_piece(rng, big, maxres=24 if case.get("long") else None)
            names.append(nm)
            if t is None:
                t = p
            else:
                shift = t.xyz[0].mean(0) + rng.normal(scale=0.8, size=3) - p.xyz[0].mean(0)
                p.xyz = (p.xyz + shift).astype(np.float32)
                t = t.stack(p)
        ctx.observe("contacts.topology", "protein-pieces:%d" % npieces)
        # delete atoms: a CA (residue without alpha carbon) and/or random atoms (unequal residue sizes)
        keep = np.ones(t.n_atoms, bool)
        if rng.random() < 0.3:
            cas = [a.index for a in t.top.atoms if a.name == "CA"]
            if cas:
                keep[cas[int(rng.integers(len(cas)))]] = False
                ctx.observe("contacts.feature", "CA-deleted")
        if rng.random() < 0.3:
            keep[rng.integers(0, t.n_atoms, int(rng.integers(1, 4)))] = False
        if not keep.all() and keep.sum() >= 2:
            t = t.atom_slice(np.where(keep)[0])
    return t


def _build_contacts(rng, case, ctx):
    import mdtraj as md
    t = _contacts_structure(rng, case, ctx)
    nf = int(rng.integers(1, 4))
    x0 = t.xyz[0].astype(np.float64)
    if case.get("long"):
        # atom pairs behind contacts='all' (same chain, three or more residues apart), all atoms / heavy atoms only
        sizes = {}
        for r in t.topology.residues:
            sizes[r.index] = (r.chain.index, r.n_atoms, sum(1 for a in r.atoms if a.element is not None and a.element.symbol != "H"))
        rl = sorted(sizes)
        est = [0, 0]
        for ai, i in enumerate(rl):
            for j in rl[ai + 3:]:
                if sizes[i][0] == sizes[j][0]:
                    est[0] += sizes[i][1] * sizes[j][1]
                    est[1] += sizes[i][2] * sizes[j][2]
        case = dict(case, _est=est)
        nf = int(min(4000, max(50, np.ceil(2.2 * 2 ** 24 / max(1.0, est[0])))))
        xyz = (x0[None] + rng.normal(scale=0.03, size=(nf,) + x0.shape).astype(np.float32)).astype(np.float32)
        xyz[0] = x0
        ctx.observe("contacts.long", "frames=%d atoms=%d" % (nf, t.n_atoms))
    else:
        xyz = np.stack([x0 + (rng.normal(scale=0.03, size=x0.shape) if f else 0.0) for f in range(nf)])
    t = md.Trajectory(xyz.astype(np.float32), t.topology)
    # cell
    cellmode = ["none", "ortho-small", "ortho", "triclinic"][int(rng.integers(4))]
    diam = _diameter(t.xyz)
    K = 0
    if cellmode != "none":
        if cellmode == "ortho-small":
            L = diam * rng.uniform(0.5, 1.3, 3) + 0.3
            A = np.array([90.0, 90.0, 90.0])
        elif cellmode == "ortho":
            L, A = _make_cell(rng, "ortho", 2.3 * diam)
        else:
            kind = ["monoclinic", "hex60", "hex120", "truncoct", "rhombdod", "rhombdod2", "triclinic"][int(rng.integers(7))]
            L, A = _make_cell(rng, kind, 2.3 * diam)
        _set_cell(t, L, A)
        K = int(rng.choice([0, 1, 3]))
        if K:
            B = t.unitcell_vectors[0].astype(np.float64)
            x = t.xyz.astype(np.float64)
            for r in t.top.residues:
                idx = [a.index for a in r.atoms]
                x[:, idx] += rng.integers(-K, K + 1, 3).astype(np.float64) @ B
            t.xyz = x.astype(np.float32)
    ctx.observe("contacts.cell", cellmode)
    ctx.observe("contacts.residue-shift-cells", K)
    return t, cellmode


def _run_contacts(case, ctx, rng):
    import mdtraj as md
    from mdtraj.geometry import squareform
    if case.get("wide"):
        return _run_contacts_wide(case, ctx, rng)
    t, cellmode = _build_contacts(rng, case, ctx)
    table = F.residue_table(t.topology)
    nres = len(table)
    scheme = F.SCHEMES[int(rng.integers(5))]
    mode = "all" if (rng.random() < 0.45 or case.get("long")) else "pairs"
    if case.get("long"):
        scheme = "closest" if scheme in ("ca", "closest") or rng.random() < 0.5 else scheme
    ignore_np = bool(rng.random() < 0.5)
    periodic = bool(rng.random() < 0.6)
    soft = bool(rng.random() < 0.4)
    beta = float(rng.choice([20, 20, 5, 1, 50]))
    if not case["big"]:
        ctx.observe("contacts.scheme", scheme)
    ctx.observe("contacts.mode", mode + (":ignore_nonprotein" if mode == "all" and ignore_np else ""))
    ctx.observe("contacts.periodic", periodic)
    ctx.observe("contacts.soft_min", f"{soft}:beta={beta:g}" if soft else "False")
    ctx.observe("contacts.n_chains", t.topology.n_chains)
    for feat, cond in (("glycine", any(r["name"] == "GLY" for r in table)),
                       ("residue-without-CA", any(not F.has_ca(r) for r in table)),
                       ("water/ion/ligand", any(F.residue_class(r) == "nonprotein" for r in table)),
                       ("unequal-residue-sizes", len({len(r["atoms"]) for r in table}) > 1)):
        if cond:
            ctx.observe("contacts.feature", feat)
    P, container = None, "str"
    if mode == "all":
        contacts = "all"
    else:
        npairs = int(rng.integers(1, 40 if case["big"] else 16))
        P = rng.integers(0, nres, (npairs, 2))
        if rng.random() < 0.8:
            P = P[P[:, 0] != P[:, 1]]
        if len(P) and rng.random() < 0.3:
            P = np.vstack([P, P[:1], P[:1, ::-1]])
        if len(P) == 0:
            P = np.array([[0, nres - 1]])
        container = "ndarray" if rng.random() < 0.5 else "list"
        ctx.observe("contacts.pairs-container", container)
        contacts = P if container == "ndarray" else [tuple(int(v) for v in p) for p in P]
    # thorough tier: the same structure and request under every scheme (exhaustive over the scheme axis)
    schemes = F.SCHEMES if case["big"] else [scheme]
    for sch in schemes:
        if len(schemes) > 1:
            ctx.observe("contacts.scheme", sch)
        frames = None
        if case.get("long"):
            frames = sorted({0, t.n_frames - 1, t.n_frames // 2} | {int(v) for v in rng.integers(0, t.n_frames, 5)})
        _contacts_one(ctx, t, table, cellmode, sch, mode, ignore_np, periodic, soft, beta, contacts, P, container, frames=frames)


# ----------------------------------------------------------------------------------------------- contacts, widened classes
TRI_KINDS = ["monoclinic", "mono_alpha", "mono_gamma", "two_skew", "hex60", "hex120", "truncoct", "rhombdod", "rhombdod2", "triclinic"]
CONTACT_DEFAULTS = dict(contacts="all", scheme="closest-heavy", ignore_nonprotein=True, periodic=True, soft_min=False, soft_min_beta=20)


def _water_box(rng, ctx):
    """homogeneous topology: waters (O, H1, H2), sometimes monatomic ions between them, one or two chains; no alpha carbon
    anywhere, every residue of the same size (or of size one)"""
    import mdtraj as md
    from mdtraj.core import element as elem
    top = md.Topology()
    nch = int(rng.integers(1, 3))
    nres = int(rng.integers(5, 15))
    chains = [top.add_chain() for _ in range(nch)]
    ions = bool(rng.random() < 0.5)
    pos = []
    for r in range(nres):
        ch = chains[min(nch - 1, r * nch // nres)]
        c = rng.normal(scale=0.45, size=3)
        if ions and rng.random() < 0.25:
            sym = ["Na", "Cl"][int(rng.integers(2))]
            res = top.add_residue(sym.upper(), ch)
            top.add_atom(sym.upper(), elem.get_by_symbol(sym), res)
            pos.append(c)
        else:
            res = top.add_residue("HOH", ch)
            top.add_atom("O", elem.oxygen, res)
            top.add_atom("H1", elem.hydrogen, res)
            top.add_atom("H2", elem.hydrogen, res)
            pos.append(c)
            for _ in range(2):
                v = rng.normal(size=3)
                pos.append(c + 0.0957 * v / np.linalg.norm(v))
    ctx.observe("contacts.topology", "water-box" + ("+ions" if ions else ""))
    return md.Trajectory(np.array(pos, np.float32)[None], top)


def _wide_frame_count(rng, ctx, name, many=(101, 160)):
    cls = ["single", "few", "many"][int(rng.choice(3, p=[0.2, 0.35, 0.45]))]
    nf = {"single": 1, "few": int(rng.integers(2, 5)), "many": int(rng.integers(many[0], many[1] + 1))}[cls]
    ctx.observe(name + ".frames", {"single": "1", "few": "2-4", "many": "more than 100"}[cls])
    return nf


def _wide_cells(rng, nf, need, cls):
    """per-frame (lengths, angles) of class `cls`; every frame's smallest perpendicular width is >= need"""
    kinds = ["cubic", "ortho"] + TRI_KINDS
    if cls == "constant-triclinic":
        L, A = _make_cell(rng, TRI_KINDS[int(rng.integers(len(TRI_KINDS)))], need)
        return np.tile(L, (nf, 1)), np.tile(A, (nf, 1))
    if cls == "one-length-varies":
        # growing one edge of a parallelepiped leaves the other two widths unchanged and widens the third
        L, A = _make_cell(rng, kinds[int(rng.integers(len(kinds)))], need)
        Ls = np.tile(L, (nf, 1))
        Ls[:, int(rng.integers(3))] *= 1.0 + rng.uniform(0, 0.3, nf)
        return Ls, np.tile(A, (nf, 1))
    if cls == "angles-vary":
        kind = ["monoclinic", "mono_gamma", "two_skew", "triclinic"][int(rng.integers(4))]
        LA = [_make_cell(rng, kind, need) for _ in range(nf)]
        return np.array([x[0] for x in LA]), np.array([x[1] for x in LA])
    if cls == "class-changes":
        k1 = ["cubic", "ortho"][int(rng.integers(2))]
        k2 = TRI_KINDS[int(rng.integers(len(TRI_KINDS)))]
        if rng.random() < 0.5:
            k1, k2 = k2, k1
        sw = int(rng.integers(1, nf)) if nf > 1 else 1
        one, two = _make_cell(rng, k1, need), _make_cell(rng, k2, need)
        LA = [one if f < sw else two for f in range(nf)]
        return np.array([x[0] for x in LA]), np.array([x[1] for x in LA])
    raise ValueError(cls)


def _pairs_container(rng, P):
    """the same residue (or atom) pairs in another accepted container"""
    kind = ["list-of-lists", "tuple-of-tuples", "int32", "strided-view", "fortran-order", "int64"][int(rng.integers(6))]
    P = np.asarray(P, np.int64)
    if kind == "list-of-lists":
        return [[int(a), int(b)] for a, b in P], kind
    if kind == "tuple-of-tuples":
        return tuple((int(a), int(b)) for a, b in P), kind
    if kind == "int32":
        return P.astype(np.int32), kind
    if kind == "strided-view":
        W = np.full((2 * len(P), 5), -7, np.int64)
        W[::2, 1] = P[:, 0]
        W[::2, 3] = P[:, 1]
        return W[::2, 1::2], kind
    if kind == "fortran-order":
        return np.asfortranarray(P), kind
    return P.copy(), kind


def _run_contacts_wide(case, ctx, rng):
    import itertools
    import mdtraj as md
    water = bool(rng.random() < 0.25)
    whole = bool(rng.random() < 0.06)
    if whole:
        # a complete structure: 36 .. 210 residues, thousands of residue pairs behind 'all', up to four chains with their waters
        name = ["4OH9.pdb", "bpti.pdb", "1bpi.pdb", "1vii.pdb"][int(rng.integers(4))]
        src = _src(name)[0]
        t = md.Trajectory(src.xyz[:1].copy(), src.topology)
        water = False
        ctx.observe("contacts.topology", "whole-structure:%d-residues" % t.n_residues)
    else:
        t = _water_box(rng, ctx) if water else _contacts_structure(rng, case, ctx)
    table = F.residue_table(t.topology)
    nres = len(table)
    # ---- frames
    nf = _wide_frame_count(rng, ctx, "contacts.wide")
    if whole:
        nf = min(nf, 2)
    x0 = t.xyz[0].astype(np.float64)
    xyz = x0[None] + rng.normal(scale=0.03, size=(nf,) + x0.shape)
    xyz[0] = x0
    # ---- cell: constant, or one field / the angles / the class changing along the trajectory
    cellcls = ["none", "constant-triclinic", "one-length-varies", "angles-vary", "class-changes"][int(rng.integers(5))]
    if nf == 1 and cellcls != "none":
        cellcls = "constant-triclinic"
    t = md.Trajectory(xyz.astype(np.float32), t.topology)
    K = 0
    if cellcls != "none":
        c = xyz.reshape(-1, 3).mean(0)
        diam = 2.0 * float(np.linalg.norm(xyz.reshape(-1, 3) - c, axis=1).max()) + 1e-3
        Ls, As = _wide_cells(rng, nf, 2.3 * diam, cellcls)
        t.unitcell_lengths = Ls.astype(np.float32)
        t.unitcell_angles = As.astype(np.float32)
        K = int(rng.choice([0, 1, 3]))
        if K:
            Bf = t.unitcell_vectors.astype(np.float64)
            x = t.xyz.astype(np.float64)
            for r in t.top.residues:
                idx = [a.index for a in r.atoms]
                sh = rng.integers(-K, K + 1, (nf, 3)).astype(np.float64)
                x[:, idx] += np.einsum("fi,fij->fj", sh, Bf)[:, None, :]
            t.xyz = x.astype(np.float32)
    ctx.observe("contacts.wide.cell", cellcls)
    ctx.observe("contacts.residue-shift-cells", K)
    # ---- options: each either drawn and passed, or left out (then the documented default is what the oracle uses)
    val = dict(contacts="all" if rng.random() < 0.45 else "pairs",
               scheme=(["closest", "closest-heavy"][int(rng.integers(2))] if water else F.SCHEMES[int(rng.integers(5))]),
               ignore_nonprotein=bool(rng.random() < 0.5), periodic=bool(rng.random() < 0.6), soft_min=bool(rng.random() < 0.4),
               soft_min_beta=float(rng.choice([20, 20, 5, 1, 50])))
    omit = []
    for name in CONTACT_DEFAULTS:
        if rng.random() < 0.25:
            omit.append(name)
            val[name] = CONTACT_DEFAULTS[name]
    if water and val["contacts"] == "all":
        # nothing but non-protein residues: 'all' needs ignore_nonprotein=False to leave any pair
        val["ignore_nonprotein"] = False
        if "ignore_nonprotein" in omit:
            omit.remove("ignore_nonprotein")
    for name in omit:
        ctx.observe("contacts.default-omitted", name)
    if not omit:
        ctx.observe("contacts.default-omitted", "(none)")
    mode, scheme, ignore_np, periodic, soft = val["contacts"], val["scheme"], val["ignore_nonprotein"], val["periodic"], val["soft_min"]
    beta = val["soft_min_beta"]
    if "soft_min_beta" not in omit and rng.random() < 0.5:
        beta = int(beta)
    ctx.observe("contacts.soft_min_beta-type", type(beta).__name__)
    ctx.observe("contacts.scheme", scheme)
    ctx.observe("contacts.mode", mode + (":ignore_nonprotein" if mode == "all" and ignore_np else ""))
    ctx.observe("contacts.periodic", periodic)
    ctx.observe("contacts.soft_min", f"{soft}:beta={beta:g}" if soft else "False")
    ctx.observe("contacts.n_chains", t.topology.n_chains)
    for feat, cond in (("glycine", any(r["name"] == "GLY" for r in table)),
                       ("residue-without-CA", any(not F.has_ca(r) for r in table)),
                       ("water/ion/ligand", any(F.residue_class(r) == "nonprotein" for r in table)),
                       ("unequal-residue-sizes", len({len(r["atoms"]) for r in table}) > 1),
                       ("equal-residue-sizes", len({len(r["atoms"]) for r in table}) == 1)):
        if cond:
            ctx.observe("contacts.feature", feat)
    P, container, contacts = None, "str", "all"
    if mode == "pairs":
        if rng.random() < 0.3 and nres >= 2:
            # the documented itertools.product idiom, groups overlapping and not in ascending order: both orientations of
            # a pair and residues paired with themselves occur
            g1 = rng.permutation(nres)[: int(rng.integers(1, min(nres, 5) + 1))]
            g2 = rng.permutation(nres)[: int(rng.integers(1, min(nres, 5) + 1))]
            P = np.array(list(itertools.product([int(v) for v in g1], [int(v) for v in g2])))
            ctx.observe("contacts.pairs-origin", "product-of-overlapping-groups")
        else:
            P = rng.integers(0, nres, (int(rng.integers(1, 16)), 2))
            if rng.random() < 0.8:
                P = P[P[:, 0] != P[:, 1]]
            if len(P) and rng.random() < 0.3:
                P = np.vstack([P, P[:1], P[:1, ::-1]])
            if len(P) == 0:
                P = np.array([[0, nres - 1]])
            ctx.observe("contacts.pairs-origin", "random")
        contacts, container = _pairs_container(rng, P)
        ctx.observe("contacts.pairs-container", container)
    frames = None
    if nf > 12:
        frames = sorted({0, nf - 1, 99, 100, min(101, nf - 1)} | {int(v) for v in rng.integers(0, nf, 4)})
    # the same object asked under another scheme in between (nothing may be remembered from one call to the next)
    seq = [scheme]
    if "scheme" not in omit and rng.random() < 0.3:
        other = [x for x in (["closest", "closest-heavy"] if water else F.SCHEMES) if x != scheme]
        seq = [scheme, other[int(rng.integers(len(other)))], scheme]
        ctx.observe("contacts.same-object-scheme-sequence", "A,B,A")
    for sch in seq:
        _contacts_one(ctx, t, table, cellcls, sch, mode, ignore_np, periodic, soft, beta, contacts, P, container, frames=frames,
                      omit=tuple(omit), sq_extra=True)


def _contacts_one(ctx, t, table, cellmode, scheme, mode, ignore_np, periodic, soft, beta, contacts, P, container, frames=None,
                  omit=(), sq_extra=False):
    """`omit`: keyword arguments NOT passed (the caller guarantees that their values are the documented defaults)"""
    import mdtraj as md
    from mdtraj.geometry import squareform
    n_ca = [sum(1 for i, n, s in r["atoms"] if n == "CA") for r in table]
    n_ca_ci = [sum(1 for i, n, s in r["atoms"] if n.upper() == "CA") for r in table]
    if n_ca != n_ca_ci:
        ctx.skip("contacts.column", "atom named 'ca' in other letter case: alpha-carbon status not documented")
        return
    kw = dict(contacts=contacts, scheme=scheme, ignore_nonprotein=ignore_np, periodic=periodic, soft_min=soft, soft_min_beta=beta)
    for name in omit:
        kw.pop(name)
    # ---- what the documentation lets us expect about the label set
    sets = [F.scheme_atoms(r, scheme) for r in table]
    if mode == "all":
        same, inter = F.expected_all_pairs(table, ignore_np)
        if scheme == "ca":
            same = [(i, j) for i, j in same if n_ca[i] >= 1 and n_ca[j] >= 1]
            inter = [(i, j) for i, j in inter if n_ca[i] >= 1 and n_ca[j] >= 1]
        cand = same + inter
    else:
        cand = [tuple(int(v) for v in p) for p in P]
        if scheme == "ca":
            cand = [(i, j) for i, j in cand if n_ca[i] >= 1 and n_ca[j] >= 1]
    multi_ca = scheme == "ca" and any(n_ca[i] > 1 or n_ca[j] > 1 for i, j in cand)
    maybe_empty = scheme != "ca" and any(len(sets[i][0]) == 0 or len(sets[j][0]) == 0 for i, j in cand)
    try:
        dist, rp = md.compute_contacts(t, **kw)
    except ValueError as e:
        msg = str(e)
        if mode == "all" and "No acceptable residue pairs" in msg:
            ctx.check(len(same) == 0, "contacts.refusal", f"contacts:all:refused-although-pairs-exist",
                      f"'all' raised '{msg}' but {len(same)} same-chain pairs satisfy the documented rule", n_same=len(same))
            return
        if multi_ca:
            ctx.skip("contacts.column", "residue with more than one atom named CA: refused")
            return
        if scheme == "ca" and mode == "pairs" and "truth value" in msg and any(n_ca[int(i)] == 0 or n_ca[int(j)] == 0 for i, j in P):
            ctx.violation("contacts.refusal", f"contacts:ca:pairs-as-{container}:pair-without-alpha-carbon-raises-instead-of-being-ignored",
                          "scheme='ca' with an explicit pair naming a residue without alpha carbon: documented to be ignored (with a warning), "
                          f"but compute_contacts raised ValueError('{msg[:120]}')", container=container)
            return
        if maybe_empty:
            ctx.skip("contacts.column", "a residue has no atom under the scheme (min over an empty set): refused")
            return
        if len(cand) == 0 or (mode == "all" and len(same) == 0):
            ctx.skip("contacts.column", "no residue pair left after the documented CA filter: refused")
            return
        ctx.violation("contacts.refusal", f"contacts:{scheme}:unexpected-ValueError", f"compute_contacts raised ValueError('{msg[:200]}') on a "
                      "request inside the documented domain", mode=mode)
        return
    if multi_ca:
        ctx.skip("contacts.column", "residue with more than one atom named CA (not covered by the documentation)")
        return
    rp = np.asarray(rp)
    nf = t.n_frames
    if rp.ndim != 2 or rp.shape[1] != 2 or dist.shape != (nf, len(rp)):
        ctx.violation("contacts.pairs", f"contacts:{scheme}:shape", f"distances {dist.shape} / residue_pairs {rp.shape} inconsistent")
        return
    got = [tuple(int(v) for v in p) for p in rp]
    # ---- labels
    if mode == "pairs":
        want = cand
        ctx.check(got == want, "contacts.pairs", f"contacts:pairs:{'ca' if scheme == 'ca' else 'other'}:residue_pairs-do-not-mirror-input",
                  f"returned residue_pairs differ from the {'CA-filtered ' if scheme == 'ca' else ''}input pairs", got=got[:12], want=want[:12])
        if got != want:
            return
    else:
        gs = set(got)
        missing = [p for p in same if p not in gs]
        extra = [p for p in got if p not in set(same) and p not in set(inter)]
        dup = len(gs) != len(got)
        if missing or extra or dup:
            which = "missing" if missing else ("extra" if extra else "duplicate")
            ctx.violation("contacts.pairs", f"contacts:all:{'ignore_nonprotein' if ignore_np else 'keep_nonprotein'}:{which}-pairs",
                          f"'all' resolved to a pair set that is not the documented one ({which}: {(missing or extra or got)[:6]})",
                          scheme=scheme)
        else:
            ctx.ok("contacts.pairs", len(same) if same else 1)
        n_inter_got = sum(1 for p in got if p in set(inter))
        if inter:
            ctx.skip("contacts.pairs", "inter-chain pairs under 'all': not documented whether they belong", len(inter))
            ctx.observe("contacts.all.inter-chain-pairs", "returned" if n_inter_got else "omitted")
    # ---- columns, each recomputed from its label
    x64 = t.xyz.astype(np.float64)
    cells = t.unitcell_vectors.astype(np.float64) if (periodic and t.unitcell_vectors is not None) else None
    use_soft = soft and scheme != "ca"
    col_state = []
    cols_minus, cols_plus = [], []
    for (i, j) in got:
        si, sj = sets[i], sets[j]
        if si[2] != "ok" or sj[2] != "ok":
            col_state.append("unknown-residue")
            continue
        plus_i, plus_j = si[0] + si[1], sj[0] + sj[1]
        if not plus_i or not plus_j:
            col_state.append("empty")
            continue
        amb = bool(si[1] or sj[1])
        if amb and (not si[0] or not sj[0]):
            col_state.append("ambiguous-empty")
            continue
        col_state.append("amb" if amb else "ok")
        cols_plus.append((plus_i, plus_j))
        cols_minus.append((si[0], sj[0]))
    n_ok = n_bad = 0
    if frames is not None:
        total = nf * sum(len(a) * len(b) for a, b in cols_plus)
        ctx.observe("contacts.long.atom-pair-distances", "more than 2^25" if total > 2 ** 25 else ("2^24..2^25" if total > 2 ** 24 else "fewer than 2^24"))
    for f in (range(nf) if frames is None else frames):
        cell = cells[f] if cells is not None else None
        tau = _tau_d(t.xyz[f], cell)
        dp = F.batched_pair_distances(x64[f], cols_plus, cell)
        dm = F.batched_pair_distances(x64[f], cols_minus, cell)
        k = 0
        for c, st in enumerate(col_state):
            if st not in ("ok", "amb"):
                if f == 0:
                    ctx.skip("contacts.column", {"unknown-residue": "residue name of unknown class for a sidechain scheme",
                                                 "empty": "no atom designated by the scheme (min over an empty set)",
                                                 "ambiguous-empty": "only atoms of undocumented sidechain status"}[st], nf)
                continue
            a, b = dp[k], dm[k]
            k += 1
            v = float(dist[f, c])
            vals = []
            for d in ((a, b) if st == "amb" else (a,)):
                if use_soft:
                    if d.min() <= 0 or beta / d.min() > 80:
                        vals.append(None)
                        continue
                    sm, logS = F.soft_min(d, beta)
                    tol = beta / logS ** 2 * (beta * tau / d.min() ** 2 + 2 * F.EPS32 * (len(d) + 4 + beta / d.min())) + tau
                    vals.append((sm, tol))
                else:
                    vals.append((float(d.min()), tau))
            if any(x is None for x in vals):
                ctx.skip("contacts.column", "soft_min with beta/d_min > 80: documented float32 overflow caveat (or zero distance)")
                continue
            if len(vals) == 2 and abs(vals[0][0] - vals[1][0]) > min(vals[0][1], vals[1][1]):
                ctx.skip("contacts.column", "value depends on atoms whose sidechain status is not documented (terminal atoms)")
                continue
            ref, tol = vals[0]
            if abs(v - ref) <= tol:
                n_ok += 1
            else:
                n_bad += 1
                i, j = got[c]
                kind = "soft_min" if use_soft else "min"
                # name the mechanism: does the value belong to another column's label?
                ctx.violation("contacts.column", f"contacts:{scheme}:{kind}:{'periodic' if cell is not None else 'plain'}:column-differs-from-its-label",
                              f"column {c} labelled residues ({i},{j}) [{table[i]['name']},{table[j]['name']}] reports {v:.7g}, "
                              f"{kind} over the designated atom pairs is {ref:.7g} (tol {tol:.2g})",
                              frame=f, beta=beta if use_soft else None, mode=mode, cellmode=cellmode, n_atoms=(len(cols_plus[k - 1][0]), len(cols_plus[k - 1][1])))
    if n_ok:
        ctx.ok("contacts.column", n_ok)
        if use_soft:
            ctx.ok("contacts.column.soft_min", n_ok)
        if cells is not None:
            ctx.ok("contacts.column.periodic", n_ok)
            if len(cells) > 1 and not np.array_equal(cells[0], cells[-1]):
                ctx.ok("contacts.column.per-frame-cell", n_ok)
        if omit:
            ctx.ok("contacts.column.defaults-omitted", n_ok)
    # ---- squareform: pure bookkeeping, exact
    sq_ok = _judge_squareform(ctx, dist, rp, nf)
    if sq_extra and sq_ok and len(rp) >= 2:  # (a failure of the plain call is one mechanism: not repeated under the tagged keys)
        # widened: a column subset handed over as strided views, labels as int32 / nested list, distances as float64
        ctx.observe("squareform.input", "strided-subset")
        _judge_squareform(ctx, dist[:, ::2], rp[::2], nf, tag=":strided-subset")
        ctx.observe("squareform.input", "labels-as-list")
        _judge_squareform(ctx, dist, [[int(a), int(b)] for a, b in rp], nf, tag=":labels-as-list")
        ctx.observe("squareform.input", "labels-int32+distances-float64")
        _judge_squareform(ctx, dist.astype(np.float64), rp.astype(np.int32), nf, tag=":int32-float64")


def _judge_squareform(ctx, dist, rp_arg, nf, tag=""):
    from mdtraj.geometry import squareform
    rp = np.asarray(rp_arg)
    got = [tuple(int(v) for v in p) for p in rp]
    try:
        M = squareform(dist, rp_arg)
    except Exception as e:  # noqa
        ctx.violation("contacts.squareform", "squareform:raises" + tag, f"squareform raised {type(e).__name__}: {e}")
        return False
    n = int(rp.max()) + 1
    okshape = M.shape == (nf, n, n)
    if not okshape:
        ctx.violation("contacts.squareform", "squareform:shape" + tag, f"shape {M.shape}, expected {(nf, n, n)}")
        return False
    candv = {}
    for c, (i, j) in enumerate(got):
        candv.setdefault((i, j), []).append(c)
        candv.setdefault((j, i), []).append(c)
    bad = None
    for i in range(n):
        for j in range(n):
            cs = candv.get((i, j))
            col = M[:, i, j]
            if cs is None:
                if np.any(col != 0):
                    bad = (i, j, "non-zero entry for a pair that was not computed")
            elif not any(np.array_equal(col, dist[:, c], equal_nan=True) for c in cs):
                bad = (i, j, "entry is not the column labelled with this residue pair")
    if bad:
        ctx.violation("contacts.squareform", "squareform:entry-does-not-match-label" + tag, f"contact_maps[:, {bad[0]}, {bad[1]}]: {bad[2]}")
        return False
    ctx.ok("contacts.squareform", n * n)
    return True


# =============================================================================================== shape
def _shape_xyz(rng, nf, na):
    kind = ["blob", "blob", "rod", "plane", "far", "tiny", "coincident"][int(rng.integers(7))]
    scale = float(rng.choice([0.05, 0.5, 3.0]))
    x = rng.normal(scale=scale, size=(nf, na, 3))
    if kind == "rod":
        x[..., 1:] *= 1e-3
        x = x @ common.random_rotation(rng)
    elif kind == "plane":
        x[..., 2] = 0.0
        x = x @ common.random_rotation(rng)
    elif kind == "tiny":
        x *= 1e-3
    elif kind == "coincident":
        x[:] = x[:, :1]
    off = float(rng.choice([0.0, 0.0, 0.0, 10.0])) if kind != "far" else float(rng.choice([30.0, 200.0]))
    x = x + rng.normal(scale=1.0, size=3) * off
    return x.astype(np.float32), kind


def _select_expr(rng, top, wide=False):
    """(expression, python predicate) pairs written against docs/atom_selection.rst for very simple expressions."""
    na = top.n_atoms
    k = int(rng.integers(1, na + 1))
    a, b = sorted(int(v) for v in rng.integers(0, na, 2))
    opts = [
        ("all", lambda at: True),
        (f"index < {k}", lambda at: at.index < k),
        (f"index {a} to {b}", lambda at: a <= at.index <= b),
        ("name CA", lambda at: at.name == "CA"),
        ("element C", lambda at: at.element.symbol == "C"),
        ("not element H", lambda at: at.element.symbol != "H"),
        ("chainid 0", lambda at: at.residue.chain.index == 0),
        ("resname ALA", lambda at: at.residue.name == "ALA"),
        ("mass > 2", lambda at: at.element.mass > 2),
    ]
    if wide:
        r1 = int(rng.integers(0, top.n_residues))
        opts = opts + [
            (f"resid 0 to {r1}", lambda at: 0 <= at.residue.index <= r1),
            (f"index {b}", lambda at: at.index == b),
            ("name CA CB", lambda at: at.name in ("CA", "CB")),
            ("element O or element N", lambda at: at.element.symbol in ("O", "N")),
            (f"index >= {a} and index <= {b}", lambda at: a <= at.index <= b),
        ] * 2
    return opts[int(rng.integers(len(opts)))]


def _run_shape(case, ctx, rng):
    import mdtraj as md
    if case.get("wide"):
        return _run_shape_wide(case, ctx, rng)
    big = case["big"]
    na = int(rng.integers(1, 120 if big else 50))
    nf = int(rng.integers(1, 5))
    top = common.random_topology(rng, na, rich=True, bonds=False)
    xyz, kind = _shape_xyz(rng, nf, na)
    t = md.Trajectory(xyz, top)
    ctx.observe("shape.geometry", kind)
    _judge_shape(ctx, rng, t, kind)


def _shape_xyz_wide(rng, nf, na):
    """exact special geometries: coordinates that are exactly zero, exactly axis-aligned, on a lattice, of cubic / fourfold
    symmetry (degenerate principal moments), or symmetric about the origin (centre exactly zero)"""
    kind = ["axis-rod", "axis-plane", "cube", "square-prism", "lattice", "origin-symmetric", "blob"][int(rng.integers(7))]
    a = float(rng.choice([0.125, 0.5, 1.0, 2.0]))  # exactly representable
    if kind == "axis-rod":
        x = np.zeros((nf, na, 3))
        x[..., int(rng.integers(3))] = rng.normal(scale=a, size=(nf, na))
    elif kind == "axis-plane":
        x = rng.normal(scale=a, size=(nf, na, 3))
        x[..., int(rng.integers(3))] = 0.0
    elif kind in ("cube", "square-prism"):
        c = float(rng.choice([0.25, 2.0, 3.0])) * a if kind == "square-prism" else a
        corners = np.array([[sx * a, sy * a, sz * c] for sx in (-1, 1) for sy in (-1, 1) for sz in (-1, 1)])
        if rng.random() < 0.5:
            corners = np.vstack([corners, np.zeros((1, 3))])
        if kind == "square-prism":
            corners = corners[:, rng.permutation(3)]
        na = len(corners)
        x = np.tile(corners[rng.permutation(na)], (nf, 1, 1))
        x = x * (1.0 + np.arange(nf))[:, None, None]  # frames differ by an exact integer factor
    elif kind == "lattice":
        x = rng.integers(-8, 9, (nf, na, 3)) * a
    elif kind == "origin-symmetric":
        h = rng.normal(scale=a, size=(nf, max(1, na // 2), 3)).astype(np.float32).astype(np.float64)
        x = np.concatenate([h, -h], axis=1)
        na = x.shape[1]
    else:
        x = rng.normal(scale=a, size=(nf, na, 3))
    if kind != "origin-symmetric" and rng.random() < 0.3:
        x = x + rng.integers(-40, 41, 3).astype(np.float64)  # exact integer offset
    return x.astype(np.float32), kind, na


def _run_shape_wide(case, ctx, rng):
    import mdtraj as md
    # ---- (n_frames, n_atoms): beyond 100 frames, or coincidences between the axes' lengths (3 = the spatial dimension)
    fc = ["many", "many", "coincidence", "few"][int(rng.integers(4))]
    if fc == "many":
        nf, na = int(rng.integers(101, 301)), int(rng.integers(1, 30))
    elif fc == "coincidence":
        nf, na = [(3, 3), (1, 1), (3, 1), (1, 3), (2, 2), (4, 4), (3, 4), (4, 3), (1, 2), (3, 2), (2, 3)][int(rng.integers(11))]
    else:
        nf, na = int(rng.integers(1, 5)), int(rng.integers(1, 50))
    ctx.observe("shape.wide.frames", {"many": "more than 100", "coincidence": "axis-length coincidence", "few": "1-4"}[fc])
    if fc == "coincidence":
        xyz, kind = _shape_xyz(rng, nf, na)
    else:
        xyz, kind, na = _shape_xyz_wide(rng, nf, na)
    top = common.random_topology(rng, na, rich=True, bonds=False)
    # ---- the coordinates handed to the constructor in another accepted form (array_like); the oracle reads t.xyz
    form = ["float32", "float64", "fortran-order", "strided-view", "nested-list"][int(rng.integers(5))]
    if form == "float64":
        arg = xyz.astype(np.float64)
    elif form == "fortran-order":
        arg = np.asfortranarray(xyz)
    elif form == "strided-view":
        W = np.full((nf, 2 * na, 4), 9.75, np.float32)
        W[:, ::2, :3] = xyz
        arg = W[:, ::2, :3]
    elif form == "nested-list":
        arg = xyz.tolist() if nf * na <= 600 else xyz
        form = form if nf * na <= 600 else "float32"
    else:
        arg = xyz
    ctx.observe("shape.wide.xyz-form", form)
    t = md.Trajectory(arg, top)
    if not (t.xyz.shape == xyz.shape and np.array_equal(t.xyz, xyz)):
        ctx.skip("cog", "trajectory constructor did not keep the float32 coordinates handed over (outside C16)")
        return
    if rng.random() < 0.4:
        L, A = common.random_cell(rng, None)
        _set_cell(t, L, A)
        ctx.observe("shape.wide.cell", "present")
    else:
        ctx.observe("shape.wide.cell", "none")
    ctx.observe("shape.geometry", kind)
    _judge_shape(ctx, rng, t, kind, wide=True)


def _judge_shape(ctx, rng, t, kind, wide=False):
    import mdtraj as md
    top, xyz = t.topology, t.xyz
    nf, na = xyz.shape[:2]
    x64 = xyz.astype(np.float64)
    M = float(np.abs(xyz).max())
    m_el = np.array([a.element.mass for a in top.atoms], dtype=np.float64)
    # element masses are an input of the formulas; sanity-check them against standard atomic weights
    for a in top.atoms:
        w = F.ATOMIC_WEIGHT.get(a.element.symbol)
        if w is not None:
            ctx.check(abs(a.element.mass - w) <= 5e-4 * max(w, 1.0), "element.mass", f"element.mass:{a.element.symbol}",
                      f"element {a.element.symbol} has mass {a.element.mass}, standard atomic weight {w}")
    e32 = F.EPS32

    def cmp(name, key, got, ref, tol, what):
        got = np.asarray(got, np.float64)
        ref = np.asarray(ref, np.float64)
        if got.shape != ref.shape:
            ctx.violation(name, key + ":shape", f"{what}: shape {got.shape}, expected {ref.shape}")
            return False
        err = np.abs(got - ref)
        bad = ~(err <= tol)
        if bad.any():
            j = int(np.argmax(np.where(bad, err, -1)))
            ctx.violation(name, key, f"{what}: got {got.ravel()[j]:.10g}, formula {ref.ravel()[j]:.10g} (tol {np.broadcast_to(tol, got.shape).ravel()[j]:.3g})",
                          n_atoms=na, geometry=kind)
            return False
        ctx.ok(name, int(got.size))
        return True

    # ---- centre of geometry / centre of mass
    cog = x64.mean(1)
    cmp("cog", "center_of_geometry:value", md.compute_center_of_geometry(t), cog, 8 * e32 * M + 1e-9, "compute_center_of_geometry")
    expr, pred = _select_expr(rng, top, wide)
    for sel in (None, expr):
        idx = np.arange(na) if sel is None else np.array([a.index for a in top.atoms if pred(a)], int)
        label = "select" if sel else "all"
        if len(idx) == 0 or m_el[idx].sum() <= 0:
            ctx.skip("com", "selection empty or of zero total mass")
            continue
        try:
            got = md.compute_center_of_mass(t, select=sel) if sel else md.compute_center_of_mass(t)
        except Exception as e:  # noqa
            ctx.violation("com", f"center_of_mass:{label}:raises", f"compute_center_of_mass(select={sel!r}) raised {type(e).__name__}: {e}")
            continue
        ref = np.stack([F.center_of_mass(x64[f, idx], m_el[idx]) for f in range(nf)])
        ctx.observe("shape.com.select", sel.split()[0] if sel else "None")
        cmp("com", f"center_of_mass:{label}:value", got, ref, 8 * e32 * M + 1e-9, f"compute_center_of_mass(select={sel!r})")
    # ---- radius of gyration
    tol_rg = 64 * e32 * M + 1e-7
    ref = np.array([F.rg(x64[f]) for f in range(nf)])
    cmp("rg", "rg:equal-masses:value", md.compute_rg(t), ref, tol_rg, "compute_rg()")
    mk = ["uniform", "element", "with-zeros", "integers", "one-heavy"][int(rng.integers(5))]
    if mk == "uniform":
        mv = rng.uniform(0.5, 50, na)
    elif mk == "element":
        mv = m_el.copy()
    elif mk == "with-zeros":
        mv = rng.uniform(0.5, 50, na) * (rng.random(na) < 0.6)
    elif mk == "integers":
        mv = rng.integers(1, 20, na).astype(np.float64)
    else:
        mv = np.ones(na)
        mv[int(rng.integers(na))] = 1000.0
    ctx.observe("shape.rg.masses", mk)
    if wide:
        # the documented ndarray in other dtypes / layouts; the oracle uses the values actually handed over
        mform = ["float32", "int64", "strided-view", "float64"][int(rng.integers(4))]
        if mform == "float32":
            mv = mv.astype(np.float32)
        elif mform == "int64":
            mv = np.round(mv).astype(np.int64)
        elif mform == "strided-view":
            W = np.full(3 * na, -1.0)
            W[1::3] = mv
            mv = W[1::3]
        ctx.observe("shape.rg.masses-form", mform)
        marg, mv = mv, np.asarray(mv, np.float64)
    else:
        marg = mv
    if mv.sum() > 0:
        got = np.asarray(md.compute_rg(t, masses=marg), np.float64)
        ref = np.array([F.rg(x64[f], mv) for f in range(nf)])
        alt = np.array([F.rg_mass_weights_about_centroid(x64[f], mv) for f in range(nf)])
        if got.shape != ref.shape:
            ctx.violation("rg.masses", "rg:masses:shape", f"shape {got.shape}")
        elif np.all(np.abs(got - ref) <= tol_rg):
            ctx.ok("rg.masses", nf)
            if np.any(np.abs(alt - ref) > 4 * tol_rg):
                ctx.ok("rg.masses.discriminating", nf)  # the two centres differ measurably on this input
        else:
            j = int(np.argmax(np.abs(got - ref)))
            if np.all(np.abs(got - alt) <= tol_rg):
                ctx.violation("rg.masses", "rg:masses:distances-taken-from-unweighted-mean-position",
                              f"compute_rg(masses=) = {got[j]:.8g}; mass-weighted rms distance from the centre of mass is {ref[j]:.8g}; "
                              f"the reported value is the mass-weighted rms distance from the *unweighted* mean position ({alt[j]:.8g})",
                              masses=mk, n_atoms=na)
            else:
                ctx.violation("rg.masses", "rg:masses:value", f"compute_rg(masses=) = {got[j]:.8g}, definition gives {ref[j]:.8g} "
                              f"(about the unweighted mean it would be {alt[j]:.8g})", masses=mk, n_atoms=na)
    else:
        ctx.skip("rg.masses", "zero total mass")
    # ---- gyration tensor, principal moments, shape descriptors
    S = np.stack([F.gyration_tensor(x64[f]) for f in range(nf)])
    R = np.array([np.linalg.norm(x64[f] - cog[f], axis=1).max() for f in range(nf)])
    tolS = (64 * e32 * M * R + 1e-12)[:, None, None]
    cmp("gyration", "gyration_tensor:value", md.compute_gyration_tensor(t), S, tolS, "compute_gyration_tensor")
    lam = np.stack([np.linalg.eigvalsh(S[f]) for f in range(nf)])
    e = 3 * tolS[:, 0, 0]
    pm = np.asarray(md.principal_moments(t), np.float64)
    if pm.shape != (nf, 3):
        ctx.violation("pm", "principal_moments:shape", f"shape {pm.shape}")
    else:
        ctx.check(bool(np.all(np.diff(pm, axis=1) >= -e[:, None])), "pm.sorted", "principal_moments:not-ascending", "principal moments are not in ascending order")
        cmp("pm", "principal_moments:eigenvalues", pm, lam, e[:, None], "principal_moments vs eigenvalues of the gyration tensor")
        cmp("pm.trace", "principal_moments:trace", pm.sum(1), np.trace(S, axis1=1, axis2=2), 3 * e, "sum of principal moments vs trace")
        l1, l2, l3 = lam.T
        tdet = e * (np.abs(l2 * l3) + np.abs(l1 * l3) + np.abs(l1 * l2)) * 2 + 1e-300
        cmp("pm.det", "principal_moments:determinant", pm.prod(1), np.linalg.det(S), tdet + 64 * 2.2e-16 * np.abs(l3) ** 3, "product of principal moments vs determinant")
    desc = np.array([F.shape_descriptors(lam[f]) for f in range(nf)])
    cmp("asphericity", "asphericity:value", md.asphericity(t), desc[:, 0], 2 * e, "asphericity vs l3 - (l1+l2)/2")
    cmp("acylindricity", "acylindricity:value", md.acylindricity(t), desc[:, 1], 2 * e, "acylindricity vs l2 - l1")
    ssum = lam.sum(1)
    good = ssum > 1e3 * e
    if good.any():
        got = np.asarray(md.relative_shape_antisotropy(t), np.float64)
        if got.shape != (nf,):
            ctx.violation("rsa", "relative_shape_antisotropy:shape", f"shape {got.shape}")
        else:
            cmp("rsa", "relative_shape_antisotropy:value", got[good], desc[good, 2], 12 * e[good] / ssum[good] + 1e-12,
                "relative_shape_antisotropy vs 3/2 sum l^2/(sum l)^2 - 1/2")
            ctx.check(np.array_equal(md.geometry.shape.relative_shape_anisotropy(t), md.relative_shape_antisotropy(t), equal_nan=True),
                      "rsa.alias", "relative_shape_antisotropy:alias-differs", "the two spellings of the function disagree")
    if (~good).any():
        ctx.skip("rsa", "sum of principal moments ~ 0 against float32 rounding (coincident atoms / far from the origin)", int((~good).sum()))
    # ---- inertia tensor
    if m_el.sum() > 0:
        I = np.stack([F.inertia_tensor(x64[f], m_el) for f in range(nf)])
        cm = np.stack([F.center_of_mass(x64[f], m_el) for f in range(nf)])
        Rm = np.array([np.linalg.norm(x64[f] - cm[f], axis=1).max() for f in range(nf)])
        tolI = (64 * e32 * M * Rm * m_el.sum() * 2 + 1e-12)[:, None, None]
        got = md.compute_inertia_tensor(t)
        if cmp("inertia", "inertia_tensor:value", got, I, tolI, "compute_inertia_tensor vs sum m (r^2 d_ab - r_a r_b) about the centre of mass"):
            g = np.asarray(got)
            ctx.check(bool(np.all(np.abs(g - np.swapaxes(g, 1, 2)) <= tolI)), "inertia.symmetric", "inertia_tensor:asymmetric", "inertia tensor not symmetric")
    else:
        ctx.skip("inertia", "zero total mass")


# =============================================================================================== thermo
def _mol_topology(rng, nres, max_size=5):
    import mdtraj as md
    from mdtraj.core import element as elem
    top = md.Topology()
    nch = int(rng.integers(1, 3))
    chains = [top.add_chain() for _ in range(nch)]
    syms = ["H", "C", "N", "O", "Na", "Cl", "S"]
    sizes = []
    for r in range(nres):
        ch = chains[min(nch - 1, r * nch // nres)]
        n = int(rng.integers(1, max_size + 1))
        res = top.add_residue(["HOH", "LIG", "NA", "ALA"][int(rng.integers(4))], ch)
        for k in range(n):
            top.add_atom("A%d" % k, elem.get_by_symbol(syms[int(rng.integers(len(syms)))]), res)
        sizes.append(n)
    return top, sizes


def _not_implemented_thermo(ctx, rng):
    """thermal_expansion_alpha_P ("THIS FUNCTION IS NOT CURRENTLY IMPLEMENTED") and heat_capacity_Cp: documented refusals"""
    import mdtraj as md
    from mdtraj.geometry import thermodynamic_properties as tp
    t = common.random_traj(rng, 5, 4, cell="random", per_frame_cell=True)
    for name, call in (("thermal_expansion_alpha_P", lambda: tp.thermal_expansion_alpha_P(t, 300.0, rng.normal(size=5))),
                       ("heat_capacity_Cp", lambda: tp.heat_capacity_Cp())):
        try:
            call()
        except NotImplementedError:
            ctx.skip("thermo.not-implemented", name + ": documented as not implemented, refused")
            ctx.observe("thermo.not-implemented", name + ":refused")
        else:
            ctx.skip("thermo.not-implemented", name + ": returns a value although documented as not implemented (no formula to judge it by)")
            ctx.observe("thermo.not-implemented", name + ":returns-a-value")


def _run_thermo(case, ctx, rng):
    import mdtraj as md
    sub = ["density", "dipole", "dipole", "dielectric", "kappa"][int(rng.integers(5))]
    ctx.observe("thermo.kind", sub)
    wide = bool(case.get("wide"))
    if wide and rng.random() < 0.1:
        return _not_implemented_thermo(ctx, rng)
    if sub in ("density", "kappa"):
        nf = int(rng.integers(1, 6)) if sub == "density" else int(rng.integers(3, 9))
        if wide:
            nf = _wide_frame_count(rng, ctx, "thermo.wide", many=(101, 300))
            if sub == "kappa":
                nf = max(nf, 2)
        na = int(rng.integers(1, 40))
        cellk = common.CELL_KINDS[int(rng.integers(len(common.CELL_KINDS)))]
        top = common.random_topology(rng, na, rich=True, bonds=False)
        t = common.random_traj(rng, nf, na, cell=cellk, top=top, per_frame_cell=bool(rng.random() < 0.6) or sub == "kappa")
        if wide and nf > 1 and rng.random() < 0.5:
            # the cell CLASS changes along the trajectory (equilibration in a rectangular box, production in a skewed one ...)
            k2 = common.CELL_KINDS[int(rng.integers(len(common.CELL_KINDS)))]
            sw = int(rng.integers(1, nf))
            Ls, As = np.array(t.unitcell_lengths), np.array(t.unitcell_angles)
            for f in range(sw, nf):
                if f == sw or sub == "kappa" or rng.random() < 0.5:
                    l2, a2 = common.random_cell(rng, k2)
                Ls[f], As[f] = l2, a2
            t.unitcell_lengths, t.unitcell_angles = Ls.astype(np.float32), As.astype(np.float32)
            ctx.observe("thermo.wide.cell-class-changes", True)
        ctx.observe("thermo.cell", cellk)
        B = t.unitcell_vectors.astype(np.float64)
        V = np.array([F.cell_volume(b) for b in B])
        if sub == "density":
            m_el = np.array([a.element.mass for a in top.atoms])
            marg = rng.uniform(0.5, 40, na)
            rel_extra = 0.0
            if wide:
                # the documented ndarray in other dtypes / layouts (python's sum() over a float32 array accumulates in float32)
                mform = ["float32", "int64", "strided-view", "with-zeros", "float64"][int(rng.integers(5))]
                if mform == "float32":
                    marg = marg.astype(np.float32)
                    rel_extra = na * F.EPS32
                elif mform == "int64":
                    marg = np.round(marg).astype(np.int64)
                elif mform == "strided-view":
                    W = np.full(2 * na, -3.0)
                    W[::2] = marg
                    marg = W[::2]
                elif mform == "with-zeros":
                    marg = marg * (rng.random(na) < 0.5)
                ctx.observe("thermo.density.masses-form", mform)
            for masses in (None, marg):
                mt = m_el.sum() if masses is None else np.asarray(masses, np.float64).sum()
                if mt <= 0:
                    ctx.skip("density", "zero total mass")
                    continue
                got = np.asarray(md.density(t) if masses is None else md.density(t, masses=masses), np.float64)
                ref = mt / V * F.DALTON_PER_NM3_IN_KG_PER_M3
                lab = "element-masses" if masses is None else "masses-argument"
                if got.shape != ref.shape:
                    ctx.violation("density", f"density:{lab}:shape", f"shape {got.shape}")
                    continue
                bad = ~(np.abs(got - ref) <= (2e-6 + (rel_extra if masses is not None else 0.0)) * ref + 1e-12)
                if bad.any():
                    j = int(np.argmax(bad))
                    ctx.violation("density", f"density:{lab}:value", f"density {got[j]:.9g} kg/m^3, total mass / volume gives {ref[j]:.9g}",
                                  ratio=float(got[j] / ref[j]), cell=cellk)
                else:
                    ctx.ok("density", nf)
        else:
            T = float(rng.uniform(200, 400))
            if wide and rng.random() < 0.5:
                T = int(T)  # a whole number of kelvin typed as an integer
                ctx.observe("thermo.temperature-type", "int")
            got = md.isothermal_compressability_kappa_T(t, T)
            try:
                got = float(got)
            except Exception:  # noqa
                ctx.violation("kappa_T", "kappa_T:not-a-number", f"returned {type(got).__name__}")
                return
            r0, r1 = F.kappa_T(V, T, 0), F.kappa_T(V, T, 1)
            if r1 <= 0:
                ctx.skip("kappa_T", "constant volume")
                return
            if abs(got - r1) <= 1e-5 * r1:
                ctx.ok("kappa_T")
                ctx.observe("thermo.kappa.variance", "sample (n-1)")
            elif abs(got - r0) <= 1e-5 * r0:
                ctx.ok("kappa_T")
                ctx.observe("thermo.kappa.variance", "population (n)")
            else:
                ctx.violation("kappa_T", "kappa_T:value", f"kappa_T = {got:.6g} /bar; var(V)/(kB T <V>) gives {r0:.6g} (n) or {r1:.6g} (n-1)", ratio=got / r1)
        return
    # ---- dipole / dielectric
    nres = int(rng.integers(1, 12))
    top, sizes = _mol_topology(rng, nres)
    na = top.n_atoms
    nf = int(rng.integers(1, 4)) if sub == "dipole" else int(rng.integers(2, 8))
    if wide:
        nf = _wide_frame_count(rng, ctx, "thermo.wide", many=(101, 200))
        if sub == "dielectric":
            nf = max(nf, 2)
    first = np.repeat(np.cumsum([0] + sizes[:-1]), sizes)
    # molecules: compact clusters scattered inside a region smaller than half the cell width
    centres = rng.normal(scale=0.5, size=(nf, nres, 3))
    x = np.repeat(centres, sizes, axis=1) + rng.normal(scale=0.08, size=(nf, na, 3))
    diam = _diameter(x)
    cellk = ["cubic", "ortho", "monoclinic", "hex120", "truncoct", "rhombdod", "triclinic"][int(rng.integers(7))]
    L, A = _make_cell(rng, cellk, 2.3 * diam)
    Kres, Katom = int(rng.choice([0, 1, 2])), int(rng.choice([0, 0, 1]))
    t = md.Trajectory(np.zeros((nf, na, 3), np.float32), top)
    # per-frame volume fluctuation (never below the half-cell requirement)
    sc = 1.0 + (rng.uniform(0, 0.3, nf) if rng.random() < 0.6 else np.zeros(nf))
    t.unitcell_lengths = (np.asarray(L)[None, :] * sc[:, None]).astype(np.float32)
    t.unitcell_angles = np.tile(np.asarray(A, np.float32), (nf, 1))
    if wide and nf > 1 and rng.random() < 0.6:
        # per-frame cells whose angles, or whose class, change along the trajectory (each wide enough for the molecules)
        ccls = ["angles-vary", "class-changes", "one-length-varies"][int(rng.integers(3))]
        Ls, As = _wide_cells(rng, nf, 2.3 * diam, ccls)
        t.unitcell_lengths, t.unitcell_angles = Ls.astype(np.float32), As.astype(np.float32)
        ctx.observe("thermo.wide.cell", ccls)
    Bf = t.unitcell_vectors.astype(np.float64)
    for f in range(nf):
        x[f] = x[f] + rng.uniform(0, 1, 3) @ Bf[f]
        if Kres:
            x[f] = x[f] + np.repeat(rng.integers(-Kres, Kres + 1, (nres, 3)), sizes, axis=0).astype(np.float64) @ Bf[f]
        if Katom:
            x[f] = x[f] + rng.integers(-Katom, Katom + 1, (na, 3)).astype(np.float64) @ Bf[f]
    t.xyz = x.astype(np.float32)
    ctx.observe("thermo.cell", cellk)
    ctx.observe("thermo.dipole.scatter", f"residue+-{Kres},atom+-{Katom}")
    qk = ["neutral-residues", "random", "integer"][int(rng.integers(3))]
    q = rng.normal(size=na)
    if qk == "neutral-residues":
        offs = np.cumsum([0] + sizes)
        for r in range(nres):
            q[offs[r]:offs[r + 1]] -= q[offs[r]:offs[r + 1]].mean()
    elif qk == "integer":
        q = rng.integers(-2, 3, na).astype(np.float64)
    ctx.observe("thermo.dipole.charges", qk)
    qarg = q
    if wide:
        # the documented ndarray in other dtypes / layouts; the oracle uses the values actually handed over
        qform = ["float32", "int64", "strided-view", "float64"][int(rng.integers(4))]
        if qform == "float32":
            qarg = q.astype(np.float32)
        elif qform == "int64":
            qarg = np.round(2 * q).astype(np.int64)
        elif qform == "strided-view":
            W = np.full((na, 3), 0.5)
            W[:, 1] = q
            qarg = W[:, 1]
        q = np.asarray(qarg, np.float64)
        ctx.observe("thermo.dipole.charges-form", qform)
    x64 = t.xyz.astype(np.float64)
    Bt = t.unitcell_vectors.astype(np.float64)
    ref = np.zeros((nf, 3))
    dmax = 0.0
    for f in range(nf):
        ref[f], loc, mol = F.dipole(x64[f], q, first, Bt[f])
        dmax = max(dmax, float(np.abs(loc + mol).max()))
    tau = _tau_d(t.xyz, Bt)
    tolM = np.abs(q).sum() * 2 * tau + 1e-9
    if qarg.dtype == np.float32:
        tolM += na * F.EPS32 * np.abs(q).sum() * dmax  # float32 charges: the product is accumulated in float32
    got = np.asarray(md.geometry.dipole_moments(t, qarg), np.float64)
    if got.shape != (nf, 3):
        ctx.violation("dipole", "dipole:shape", f"shape {got.shape}")
        return
    scale = np.abs(ref).max()
    if sub == "dipole":
        if np.all(np.abs(got - ref) <= tolM):
            ctx.ok("dipole", nf)
        elif np.all(np.abs(got + ref) <= tolM) and scale > 4 * tolM:
            ctx.violation("dipole", "dipole:sign-reversed", f"dipole_moments returns {got[0]}, sum_i q_i r_i (positions relative to atom 0, "
                          f"minimum image, built residue-wise as documented) is {ref[0]}: every component has the opposite sign", charges=qk)
            ctx.ok("dipole.magnitude", nf)
        else:
            j = int(np.argmax(np.abs(np.abs(got) - np.abs(ref)).max(1)))
            ctx.violation("dipole", "dipole:value", f"dipole_moments {got[j]} vs sum q r {ref[j]} (tol {tolM:.2g})", charges=qk, cell=cellk)
        return
    # dielectric: insensitive to the overall sign
    T = float(rng.uniform(200, 400))
    if wide and rng.random() < 0.5:
        T = int(T)
        ctx.observe("thermo.temperature-type", "int")
    V = np.array([F.cell_volume(b) for b in Bt])
    refd = F.static_dielectric(ref, V, T)
    var = (ref * ref).sum(1).mean() - (ref.mean(0) ** 2).sum()
    if var <= 0 or np.sqrt(var) < 100 * tolM:
        ctx.skip("dielectric", "dipole fluctuation too small against float32 rounding")
        return
    gotd = float(md.geometry.static_dielectric(t, qarg, T))
    tol = abs(refd - 1) * (4 * tolM / np.sqrt(var) + 1e-5)
    ctx.check(abs(gotd - refd) <= tol, "dielectric", "static_dielectric:value",
              f"static_dielectric = {gotd:.9g}; 1 + (<M.M>-<M>.<M>)/(3 eps0 <V> kB T) = {refd:.9g}", ratio=(gotd - 1) / (refd - 1))


# =============================================================================================== rdf
def _run_rdf(case, ctx, rng):
    import mdtraj as md
    big = case["big"]
    wide = bool(case.get("wide"))
    na = int(rng.integers(3, 60 if big else 30))
    nf = int(rng.integers(1, 5))
    cellk = common.CELL_KINDS[int(rng.integers(len(common.CELL_KINDS)))]
    perframe = bool(rng.random() < 0.4)
    sub = "rdf_t" if rng.random() < (0.45 if wide else 0.2) else "rdf"
    if sub == "rdf_t":
        perframe = False
    if wide:
        nf = _wide_frame_count(rng, ctx, "rdf.wide", many=(101, 140))
        if nf > 100:
            na = int(rng.integers(3, 13))
    t = common.random_traj(rng, nf, na, cell=cellk, per_frame_cell=perframe)
    if wide and sub == "rdf" and nf > 1 and rng.random() < 0.4:
        # the cell class changes along the trajectory
        k2 = common.CELL_KINDS[int(rng.integers(len(common.CELL_KINDS)))]
        sw = int(rng.integers(1, nf))
        Ls, As = np.array(t.unitcell_lengths), np.array(t.unitcell_angles)
        l2, a2 = common.random_cell(rng, k2)
        for f in range(sw, nf):
            if perframe:
                l2, a2 = common.random_cell(rng, k2)
            Ls[f], As[f] = l2, a2
        t.unitcell_lengths, t.unitcell_angles = Ls.astype(np.float32), As.astype(np.float32)
        perframe = True
        cellk = cellk + "->" + k2
        ctx.observe("rdf.wide.cell-class-changes", True)
    B = t.unitcell_vectors.astype(np.float64)
    x = np.stack([rng.uniform(-0.5, 1.5, (na, 3)) @ B[f] for f in range(nf)])
    t.xyz = x.astype(np.float32)
    x64 = t.xyz.astype(np.float64)
    orth = bool(np.all(t.unitcell_angles == 90.0))
    wmin = min(common.cell_widths(b).min() for b in B)
    pk = int(rng.integers(3))
    if pk == 0:
        pairs = np.array([(i, j) for i in range(na) for j in range(i + 1, na)])
    elif pk == 1:
        pairs = rng.integers(0, na, (int(rng.integers(1, 80)), 2))
        pairs = pairs[pairs[:, 0] != pairs[:, 1]]
        if len(pairs) == 0:
            pairs = np.array([[0, 1]])
    else:
        g1 = np.where(rng.random(na) < 0.4)[0]
        g2 = np.setdiff1d(np.arange(na), g1)
        if len(g1) == 0 or len(g2) == 0:
            g1, g2 = np.array([0]), np.arange(1, na)
        pairs = np.array([(i, j) for i in g1 for j in g2])
    periodic = bool(rng.random() < 0.7)
    opt = bool(rng.random() < 0.7)
    # range / bins: decimal grids (what a user types)
    bw = float(rng.choice([0.005, 0.01, 0.02, 0.05, 0.1, 0.25]))
    r0 = float(rng.choice([0.0, 0.0, 0.1, 0.25]))
    rmax_allowed = (0.45 * wmin) if (periodic and not orth) else 3.0
    kmax = int((rmax_allowed - r0) / bw)
    if kmax < 1:
        r0, bw = 0.0, rmax_allowed / 4
        kmax = 4
    kb = int(rng.integers(1, min(kmax, 300) + 1))
    r1 = r0 + kb * bw
    # a range that is NOT a whole number of bin_widths (what (0, 1) with 0.03 gives): the labels r, the bins counted into and the
    # shell volumes must still describe the same bins
    if kb < kmax and rng.random() < 0.25:
        r1 = r0 + (kb + float(rng.choice([0.3, 0.5, 0.7]))) * bw
        ctx.observe("rdf.range-vs-bin_width", "not a multiple")
    else:
        ctx.observe("rdf.range-vs-bin_width", "multiple")
    binmode = ["default", "bin_width", "n_bins", "both"][int(rng.integers(4))]
    kw = dict(periodic=periodic, opt=opt)
    if binmode == "default":
        if periodic and not orth and 1.0 > 0.45 * wmin:
            binmode = "bin_width"
        else:
            r0, r1, bw = 0.0, 1.0, 0.005
    if binmode != "default":
        kw["r_range"] = (r0, r1)
    nb_arg = None
    if binmode in ("bin_width", "both"):
        kw["bin_width"] = bw
    if binmode in ("n_bins", "both"):
        nb_arg = int(rng.integers(1, 120))
        kw["n_bins"] = nb_arg
    pairs_arg = pairs
    if wide:
        pairs_arg, pform = _pairs_container(rng, pairs)
        ctx.observe("rdf.pairs-container", pform)
        if "r_range" in kw:
            rform = ["tuple", "list", "ndarray", "float32-ndarray", "ints"][int(rng.integers(5))]
            if rform == "list":
                kw["r_range"] = [r0, r1]
            elif rform == "ndarray":
                kw["r_range"] = np.array([r0, r1])
            elif rform == "float32-ndarray" and float(np.float32(r0)) == r0 and float(np.float32(r1)) == r1:
                kw["r_range"] = np.array([r0, r1], np.float32)
            elif rform == "ints" and float(int(r0)) == r0 and float(int(r1)) == r1:
                kw["r_range"] = (int(r0), int(r1))
            else:
                rform = "tuple"
            ctx.observe("rdf.r_range-form", rform)
        if nb_arg is not None and rng.random() < 0.5:
            kw["n_bins"] = [np.int64, np.int32][int(rng.integers(2))](nb_arg)
            ctx.observe("rdf.n_bins-type", type(kw["n_bins"]).__name__)
        for name, default in (("periodic", True), ("opt", True)):
            if kw[name] == default and rng.random() < 0.5:
                kw.pop(name)
                ctx.observe("rdf.default-omitted", name)
    ctx.observe("rdf.kind", sub)
    ctx.observe("rdf.cell", (cellk if not wide else cellk.split("->")[0]) + (":per-frame" if perframe else ""))
    ctx.observe("rdf.bins", binmode)
    ctx.observe("rdf.periodic/opt", f"{periodic}/{opt}")
    V = np.array([F.cell_volume(b) for b in B])
    tau = _tau_d(t.xyz, B)

    def judge_bins(r, name):
        r = np.asarray(r, np.float64)
        n = len(r)
        if nb_arg is not None:
            if not ctx.check(n == nb_arg, name, "rdf:n_bins:bin-count", f"n_bins={nb_arg} requested, {n} bins returned"):
                return None
        else:
            ratio = (r1 - r0) / bw
            k = round(ratio)
            if abs(ratio - k) <= 1e-9 * max(k, 1):
                if not ctx.check(n == k, name, "rdf:bin_width:bin-count-when-range-is-a-multiple-of-bin_width",
                                 f"r_range=({r0!r},{r1!r}) is {k} x bin_width={bw!r} but {n} bins were returned "
                                 f"(their width is {(r1 - r0) / max(n, 1):.6g}, not bin_width)", n_returned=n, n_expected=k):
                    pass
            else:
                ctx.skip(name, "range is not a multiple of bin_width: bin count convention not documented")
        if n == 0:
            return None
        edges = F.rdf_edges(r0, r1, n)
        centred = bool(np.all(np.abs(r - 0.5 * (edges[1:] + edges[:-1])) <= 1e-9 * max(r1, 1.0)))
        if not centred and nb_arg is None and abs((r1 - r0) / bw - round((r1 - r0) / bw)) > 1e-9 * max(round((r1 - r0) / bw), 1):
            # range not a multiple of bin_width: the other reading (bins of exactly bin_width starting at r_range[0]) is accepted for
            # the labels; g is then judged on THOSE bins, so labels that describe other bins than the ones counted still show
            alt = r0 + bw * np.arange(n + 1)
            if bool(np.all(np.abs(r - 0.5 * (alt[1:] + alt[:-1])) <= 1e-9 * max(r1, 1.0))):
                ctx.observe("rdf.bins-convention", "bin_width kept, range truncated")
                return alt
        ctx.check(centred, name,
                  "rdf:r-is-not-bin-centres", "returned r are not the centres of n equal bins spanning r_range")
        return edges

    def _rdf_lost_only_bin(exc):
        """range == 1 x bin_width truncated to zero bins: same mechanism (and key) as the lost last bin"""
        ratio = (r1 - r0) / bw
        if nb_arg is None and "bins" in str(exc) and round(ratio) == 1 and abs(ratio - 1) <= 1e-9:
            ctx.violation("rdf.bins", "rdf:bin_width:bin-count-when-range-is-a-multiple-of-bin_width",
                          f"r_range=({r0!r},{r1!r}) is 1 x bin_width={bw!r} but the bin count was truncated to 0 ({type(exc).__name__}: {exc})",
                          n_returned=0, n_expected=1)
            return True
        return False

    if sub == "rdf":
        try:
            r, g = md.compute_rdf(t, pairs_arg, **kw)
        except Exception as e:  # noqa
            if not _rdf_lost_only_bin(e):
                ctx.violation("rdf.g", "rdf:raises", f"compute_rdf raised {type(e).__name__}: {e}", kw=str(kw))
            return
        edges = judge_bins(r, "rdf.bins")
        if edges is None:
            return
        g = np.asarray(g, np.float64)
        if g.shape != (len(edges) - 1,):
            ctx.violation("rdf.g", "rdf:g-shape", f"g_r shape {g.shape} for {len(edges) - 1} bins")
            return
        d = []
        for f in range(nf):
            raw = x64[f, pairs[:, 1]] - x64[f, pairs[:, 0]]
            d.append(geom.min_image(raw, B[f])[1] if periodic else np.linalg.norm(raw, axis=1))
        d = np.concatenate(d)
        lo, hi, namb = F.histogram_bounds(d, edges, tau)
        norm = F.rdf_norm(edges, len(pairs), (1.0 / V).sum())
        glo, ghi = lo / norm, hi / norm
        bad = (g < glo * (1 - 1e-6) - 1e-300) | (g > ghi * (1 + 1e-6) + 1e-300)
        if bad.any():
            j = int(np.argmax(bad))
            # classify: counts right but normalisation off by a constant factor?
            nz = (lo == hi) & (lo > 0)
            fac = np.median(g[nz] / glo[nz]) if nz.any() else float("nan")
            const = nz.any() and np.allclose(g[nz] / glo[nz], fac, rtol=1e-5)
            key = "rdf:normalisation" if (const and abs(fac - 1) > 1e-5) else "rdf:bin-content"
            ctx.violation("rdf.g", key + (":periodic" if periodic else ":plain"), f"g(r) bin {j} [{edges[j]:.5g},{edges[j + 1]:.5g}) = {g[j]:.8g}; "
                          f"count/(N_pairs sum(1/V) shell volume) lies in [{glo[j]:.8g}, {ghi[j]:.8g}]" + (f"; constant factor {fac:.6g}" if const else ""),
                          n_pairs=len(pairs), n_frames=nf, cell=cellk, opt=opt)
        else:
            ctx.ok("rdf.g", int((hi > 0).sum()) or 1)
            ctx.ok("rdf.g.empty-bins", int((hi == 0).sum()))
        if namb:
            ctx.observe("rdf.edge-ambiguous-distances", "some")
        return
    # ---- compute_rdf_t (light): constant cell, no self correlation, optional chunking of the pair list
    ntp = int(rng.integers(1, 4))
    times = rng.integers(0, nf, (ntp, 2))
    if rng.random() < 0.5:
        times[0] = (times[0, 0], times[0, 0])  # g(r, 0)
    ncp = int(rng.choice([100000, 7, len(pairs)]))
    kwt = dict(self_correlation=False, n_concurrent_pairs=ncp)
    times_arg = times
    pairs_eff = pairs
    if wide:
        # self_correlation (default True): the pairs (i, i) of every atom named in `pairs` are added, see ASSUMPTIONS
        sc = ["default", "True", "False"][int(rng.integers(3))]
        if sc == "default":
            kwt.pop("self_correlation")
        elif sc == "True":
            kwt["self_correlation"] = True
        if sc != "False":
            u = np.unique(pairs)
            pairs_eff = np.vstack([np.stack([u, u], axis=1), pairs])
        ctx.observe("rdf_t.self_correlation", sc)
        if rng.random() < 0.4:
            kwt.pop("n_concurrent_pairs")
            ncp = 100000
            ctx.observe("rdf.default-omitted", "n_concurrent_pairs")
        elif rng.random() < 0.3:
            ncp = kwt["n_concurrent_pairs"] = int(rng.integers(1, len(pairs_eff) + 1))
        if rng.random() < 0.5:
            times_arg = [(int(a), int(b)) for a, b in times]
            ctx.observe("rdf_t.times-form", "list-of-tuples")
        else:
            ctx.observe("rdf_t.times-form", "ndarray")
        if nf > 100:
            ctx.observe("rdf_t.frame-lag", "up to more than 100 frames")
    try:
        r, g = md.compute_rdf_t(t, pairs_arg, times_arg, **kwt, **kw)
    except Exception as e:  # noqa
        if not _rdf_lost_only_bin(e):
            ctx.violation("rdf_t", "rdf_t:raises", f"compute_rdf_t raised {type(e).__name__}: {e}", kw=str(kw))
        return
    edges = judge_bins(r, "rdf_t.bins")
    if edges is None:
        return
    g = np.asarray(g, np.float64)
    if g.shape != (ntp, len(edges) - 1):
        ctx.violation("rdf_t", "rdf_t:g-shape", f"g_r_t shape {g.shape}")
        return
    norm = F.rdf_norm(edges, len(pairs_eff), (1.0 / V).mean())
    for k, (a, b) in enumerate(times):
        raw = x64[b, pairs_eff[:, 1]] - x64[a, pairs_eff[:, 0]]
        d = geom.min_image(raw, B[a])[1] if periodic else np.linalg.norm(raw, axis=1)
        if periodic and not orth and a != b:
            # displacement between different frames is not confined to half the cell: only distances < w/2 are in the C05 domain
            if d[d < edges[-1] + tau].size and wmin / 2 - tau < edges[-1]:
                ctx.skip("rdf_t", "skewed cell: range reaches beyond half the cell width")
                continue
        lo, hi, _ = F.histogram_bounds(d, edges, tau)
        glo, ghi = lo / norm, hi / norm
        bad = (g[k] < glo * (1 - 1e-6) - 1e-300) | (g[k] > ghi * (1 + 1e-6) + 1e-300)
        if bad.any():
            j = int(np.argmax(bad))
            ctx.violation("rdf_t", "rdf_t:value" + (":self_correlation" if len(pairs_eff) != len(pairs) else "") + (":chunked" if ncp < len(pairs_eff) else ""),
                          f"g(r,t) for frames ({a},{b}) bin {j} = {g[k, j]:.8g}; "
                          f"count/(N_pairs <1/V> shell) in [{glo[j]:.8g},{ghi[j]:.8g}]", n_concurrent_pairs=ncp, n_pairs=len(pairs_eff))
        else:
            ctx.ok("rdf_t", int((hi > 0).sum()) or 1)


# =============================================================================================== drid
def _run_drid(case, ctx, rng):
    import mdtraj as md
    big = case["big"]
    wide = bool(case.get("wide"))
    na = int(rng.integers(3, 80 if big else 40))
    nf = int(rng.integers(1, 4))
    if wide:
        nf = _wide_frame_count(rng, ctx, "drid.wide", many=(101, 300))
        if nf > 100:
            na = int(rng.integers(3, 25))
        elif rng.random() < 0.15:
            na = int(rng.integers(200, 420))  # more atoms than any team size / vector width / small scratch buffer
            ctx.observe("drid.wide.atoms", "200-420")
    top = common.random_topology(rng, na, rich=bool(rng.random() < 0.5), bonds=True)
    scale = float(rng.choice([0.3, 1.0, 3.0]))
    xyz = (rng.normal(scale=scale, size=(nf, na, 3)) + rng.normal(scale=float(rng.choice([0, 0, 20])), size=3)).astype(np.float32)
    t = md.Trajectory(xyz, top)
    if wide and rng.random() < 0.4:
        L, A = common.random_cell(rng, None)
        _set_cell(t, L, A)
        ctx.observe("drid.wide.cell", "present (to be ignored)")
    mode = ["all", "sorted-subset", "shuffled-subset"][int(rng.integers(3))]
    if wide:
        mode = ["all-explicit", "all-omitted", "sorted-subset", "shuffled-subset", "descending-subset"][int(rng.integers(5))]
    if mode == "all":
        ai, arg = np.arange(na), None
    elif mode == "all-omitted":
        ai, arg, mode = np.arange(na), "omitted", "all"
    elif mode == "all-explicit":
        ai = arg = np.arange(na)
        mode = "all"
    else:
        k = int(rng.integers(2, na + 1))
        ai = rng.permutation(na)[:k]
        if mode == "sorted-subset":
            ai = np.sort(ai)
        elif mode == "descending-subset":
            ai = np.sort(ai)[::-1].copy()
            mode = "shuffled-subset"
            ctx.observe("drid.atom_indices.order", "descending")
        arg = ai
    if wide and isinstance(arg, np.ndarray):
        form = ["int64", "int32", "list", "strided-view", "reversed-view"][int(rng.integers(5))]
        if form == "int32":
            arg = ai.astype(np.int32)
        elif form == "list":
            arg = [int(v) for v in ai]
        elif form == "strided-view":
            W = np.full(2 * len(ai), -1, np.int64)
            W[::2] = ai
            arg = W[::2]
        elif form == "reversed-view":
            arg = ai[::-1].copy()[::-1]  # negative stride
        ctx.observe("drid.atom_indices-form", form)
    ctx.observe("drid.atom_indices", mode)
    ctx.observe("drid.n_bonds", "0" if top.n_bonds == 0 else ("<n" if top.n_bonds < na else ">=n"))
    bonded = {}
    for a, b in top.bonds:
        bonded.setdefault(a.index, set()).add(b.index)
        bonded.setdefault(b.index, set()).add(a.index)
    x64 = xyz.astype(np.float64)
    # domain: every selected atom keeps at least one partner
    selset = set(int(v) for v in ai)
    if any(len(selset - {i} - bonded.get(i, set())) == 0 for i in selset):
        ctx.skip("drid.mean", "an atom has no non-bonded partner in the selection (moments undefined)")
        return
    got = np.asarray(md.compute_drid(t) if isinstance(arg, str) else md.compute_drid(t, atom_indices=arg), np.float64)
    if got.shape != (nf, 3 * len(ai)):
        ctx.violation("drid.shape", "drid:shape", f"shape {got.shape}, expected {(nf, 3 * len(ai))}")
        return
    ctx.ok("drid.shape")
    got = got.reshape(nf, len(ai), 3)
    n1 = n2 = n3 = 0
    for f in range(nf):
        ref, m3, npart, rmax = F.drid(x64[f], [int(v) for v in ai], bonded)
        if np.isnan(ref).any():
            ctx.skip("drid.mean", "coincident atoms")
            continue
        delta = 8 * F.EPS32 * rmax * (1 + np.abs(x64[f]).max() * rmax)  # float32 subtraction of coordinates of size M at distance d
        sig = ref[:, 1]
        tol = np.stack([delta, 2 * delta + 1e-12, np.zeros_like(delta)], axis=1)
        dm3 = 3 * sig ** 2 * delta + 3 * sig * delta ** 2 + delta ** 3
        cond3 = np.abs(m3) > 100 * dm3
        with np.errstate(divide="ignore", invalid="ignore"):
            tol[:, 2] = np.where(cond3, 8 * dm3 / (3 * np.abs(m3) ** (2 / 3)), np.inf) + 1e-12
        err = np.abs(got[f] - ref)
        for col, name, keyn in ((0, "drid.mean", "mean"), (1, "drid.second", "second-moment-root"), (2, "drid.third", "third-moment-root")):
            dec = np.isfinite(tol[:, col])
            bad = dec & ~(err[:, col] <= tol[:, col])
            if bad.any():
                j = int(np.argmax(bad))
                # does the reported triple belong to another selected atom?  (slot bookkeeping)
                other = [k for k in range(len(ai)) if k != j and np.all(np.abs(got[f, j] - ref[k]) <= np.where(np.isfinite(tol[k]), tol[k], 1e-3) * 4)]
                key = f"drid:{mode}:slot-holds-another-atom" if other else f"drid:{keyn}" + ("" if mode == "all" else ":subset")
                ctx.violation(name, key, f"atom_indices[{j}]={int(ai[j])}: reported {got[f, j, col]:.10g}, formula {ref[j, col]:.10g} "
                              f"(tol {tol[j, col]:.2g}, {npart[j]} partners, {len(bonded.get(int(ai[j]), ()))} bonded)", frame=f, mode=mode)
            cnt = int((dec & ~bad).sum())
            if col == 0:
                n1 += cnt
            elif col == 1:
                n2 += cnt
            else:
                n3 += cnt
                if (~dec).any():
                    ctx.skip("drid.third", "third central moment ~ 0: cube root ill-conditioned", int((~dec).sum()))
        excl = sum(1 for i in selset if bonded.get(i, set()) & selset)
        if excl:
            ctx.ok("drid.bonded-exclusion-exercised", excl)
    if n1:
        ctx.ok("drid.mean", n1)
    if n2:
        ctx.ok("drid.second", n2)
    if n3:
        ctx.ok("drid.third", n3)


# =============================================================================================== order (nematic / directors / karplus)
def _run_order(case, ctx, rng):
    if rng.random() < 0.45:
        return _run_karplus(case, ctx, rng)
    import mdtraj as md
    from mdtraj.core import element as elem
    wide = bool(case.get("wide"))
    nf = int(rng.integers(1, 4))
    if wide:
        nf = _wide_frame_count(rng, ctx, "order.wide", many=(101, 200))
    ngroups = int(rng.integers(1, 10))
    layout = ["chains", "residues", "lists"][int(rng.integers(3))]
    if wide and rng.random() < 0.5:
        layout = "lists"
    ordered = bool(rng.random() < 0.5)
    top = md.Topology()
    syms = ["H", "C", "N", "O", "S", "Cl"]
    xs = []
    main_axis = common.random_rotation(rng)[0]
    ch = top.add_chain()
    groups = []
    k = 0
    for g in range(ngroups):
        if layout == "chains" and g:
            ch = top.add_chain()
        n = int(rng.integers(2, 12))
        res = top.add_residue("LIG", ch)
        for i in range(n):
            if layout == "chains" and i and i % 4 == 0:
                res = top.add_residue("LIG", ch)
            top.add_atom("C%d" % i, elem.get_by_symbol(syms[int(rng.integers(len(syms)))]), res)
        axis = main_axis + (0.15 if ordered else 3.0) * rng.normal(size=3)
        axis /= np.linalg.norm(axis)
        s = np.sort(rng.uniform(-1, 1, n)) * rng.uniform(0.3, 1.5)
        pts = s[None, :, None] * axis + rng.normal(scale=0.05, size=(nf, n, 3)) + rng.normal(scale=2.0, size=3)
        xs.append(pts)
        groups.append(list(range(k, k + n)))
        k += n
    xyz = np.concatenate(xs, axis=1).astype(np.float32)
    t = md.Trajectory(xyz, top)
    omit_indices = False
    if layout == "lists":
        # user lists: sub-ranges, not aligned with residues
        groups = [g[: max(2, len(g) - int(rng.integers(0, 3)))] for g in groups]
        arg = [list(map(int, g)) for g in groups]
        if wide:
            # the same kind of request, the groups written down differently (a group is a set of atoms)
            variant = ["non-ascending", "non-ascending", "interleaved", "overlapping", "tuples", "two-atom-groups"][int(rng.integers(6))]
            if variant == "interleaved" and len(groups) >= 2:
                new = []
                for k in range(0, len(groups) - 1, 2):
                    u = sorted(groups[k] + groups[k + 1])
                    new += [u[0::2], u[1::2]]
                groups = [g for g in new if len(g) >= 2] + (groups[len(groups) - 1:] if len(groups) % 2 else [])
            elif variant == "overlapping" and len(groups) >= 2:
                groups = [sorted(set(groups[k] + groups[(k + 1) % len(groups)][: int(rng.integers(1, 4))])) for k in range(len(groups))]
            elif variant == "two-atom-groups":
                groups = [[g[0], g[-1]] for g in groups]
            elif variant == "non-ascending":
                groups = [[int(v) for v in rng.permutation(g)] for g in groups]
                if all(g == sorted(g) for g in groups):
                    groups[0] = groups[0][::-1]
            elif variant in ("interleaved", "overlapping"):
                variant = "ascending"
            arg = [list(map(int, g)) for g in groups]
            if variant == "tuples":
                arg = tuple(tuple(g) for g in arg)
            layout = "lists-" + variant
    else:
        arg = layout
        if wide and layout == "chains" and rng.random() < 0.6:
            omit_indices = True  # indices='chains' is the documented default
            layout = "chains-by-default"
    ctx.observe("order.indices", layout)
    ctx.observe("order.ordered", ordered)
    x64 = xyz.astype(np.float64)
    m_el = np.array([a.element.mass for a in top.atoms], np.float64)
    dirs = np.asarray(md.compute_directors(t) if omit_indices else md.compute_directors(t, indices=arg))
    if dirs.shape != (nf, len(groups), 3):
        ctx.violation("directors", "directors:shape", f"shape {dirs.shape}, expected {(nf, len(groups), 3)}")
        return
    if np.iscomplexobj(dirs):
        ctx.violation("directors", "directors:complex", "complex directors returned")
        return
    S2 = np.asarray(md.compute_nematic_order(t) if omit_indices else md.compute_nematic_order(t, indices=arg))
    ctx.observe("order.nematic.dtype", str(S2.dtype))
    if S2.shape != (nf,):
        ctx.violation("nematic", "nematic:shape", f"shape {S2.shape}")
        return
    if np.iscomplexobj(S2):
        # numpy >= 2 returns complex eigenvalues from eigvals(); a zero imaginary part is the same number
        if np.any(S2.imag != 0):
            ctx.violation("nematic", "nematic:complex-value", f"order parameter with non-zero imaginary part {S2}")
            return
        S2 = S2.real
    nd = 0
    for f in range(nf):
        odirs = np.zeros((len(groups), 3))
        derr = np.zeros(len(groups))
        for gi, g in enumerate(groups):
            I = F.inertia_tensor(x64[f, g], m_el[g])
            w, v = np.linalg.eigh(I)
            odirs[gi] = v[:, 0]
            nI = np.abs(I).max()
            dI = 256 * F.EPS32 * nI + 1e-12
            d = dirs[f, gi].astype(np.float64)
            okn = abs(np.linalg.norm(d) - 1) <= 1e-6
            ray = d @ I @ d
            res = np.linalg.norm(I @ d - ray * d)
            if okn and res <= 2 * dI and abs(ray - w[0]) <= 2 * dI:
                nd += 1
            else:
                ctx.violation("directors", f"directors:{layout}:not-eigenvector-of-smallest-inertia-eigenvalue",
                              f"group {gi} ({len(g)} atoms): |d|={np.linalg.norm(d):.7g}, Rayleigh quotient {ray:.8g} vs smallest eigenvalue {w[0]:.8g} "
                              f"(others {w[1]:.6g},{w[2]:.6g}), residual {res:.3g} (tol {2 * dI:.2g})", frame=f)
            derr[gi] = dI / max(w[1] - w[0], 1e-300)
        # Q tensor from the returned directors (formula only) and from the oracle directors (whole chain)
        ctx.check(abs(float(S2[f]) - F.nematic_s2(dirs[f].astype(np.float64))) <= 1e-9, "nematic.q", "nematic:S2-is-not-largest-eigenvalue-of-Q",
                  f"S2 = {float(S2[f]):.10g}, largest eigenvalue of 1/(2N) sum(3 e e^T - 1) over the returned directors = {F.nematic_s2(dirs[f].astype(np.float64)):.10g}")
        if derr.max() > 1e-2:
            ctx.skip("nematic", "a group's long axis is ill-conditioned (near-degenerate smallest inertia eigenvalues)")
        else:
            tol = 3 * derr.mean() * 2 + 1e-9
            ref = F.nematic_s2(odirs)
            ctx.check(abs(float(S2[f]) - ref) <= tol, "nematic", f"nematic:{layout}:value", f"S2 = {float(S2[f]):.10g}, formula on the groups' long axes {ref:.10g} (tol {tol:.2g})",
                      n_groups=len(groups))
    if nd:
        ctx.ok("directors", nd)


KARPLUS_SOURCES = ["2EQQ.pdb", "bpti.pdb", "1bpi.pdb", "1vii.pdb", "4OH9.pdb", "ala_ala_ala.pdb", "1vii_sustiva_water.pdb"]


def _run_karplus(case, ctx, rng):
    import mdtraj as md
    name = KARPLUS_SOURCES[int(rng.integers(len(KARPLUS_SOURCES)))]
    t0, res_atoms, prot, first = _src(name)
    fr = int(rng.integers(t0.n_frames))
    # a random run of residues (whole chains sometimes), noise added
    chains = [c for c in t0.top.chains if sum(prot[r.index] for r in c.residues) >= 3]
    sel = []
    for c in chains:
        rl = [r.index for r in c.residues]
        if rng.random() < 0.5 or len(chains) == 1:
            Lr = int(rng.integers(2, min(len(rl), 30 if case["big"] else 12) + 1))
            s = int(rng.integers(0, len(rl) - Lr + 1))
            sel += rl[s:s + Lr]
    if not sel:
        sel = [r.index for r in chains[0].residues][:6]
    atoms = np.concatenate([res_atoms[r] for r in sel])
    wide = bool(case.get("wide"))
    if wide and rng.random() < 0.5:
        # backbone atoms missing here and there: the phi list must lose exactly the angles that need them
        bb = [int(i) for i in atoms if t0.topology.atom(int(i)).name in ("N", "CA", "C")]
        drop = set(int(v) for v in rng.choice(bb, size=min(len(bb), int(rng.integers(1, 4))), replace=False))
        atoms = np.array([i for i in atoms if int(i) not in drop])
        ctx.observe("karplus.wide.backbone-atoms-deleted", len(drop))
    sub = t0[fr].atom_slice(atoms)
    nf = int(rng.integers(1, 4))
    if wide:
        nf = _wide_frame_count(rng, ctx, "karplus.wide", many=(101, 200))
    x = sub.xyz[0].astype(np.float64) + rng.normal(scale=float(rng.choice([0.0, 0.01, 0.05])), size=(nf, sub.n_atoms, 3))
    x = x + rng.normal(size=3) * float(rng.choice([0, 0, 5.0]))
    t = md.Trajectory(x.astype(np.float32), sub.topology)
    if rng.random() < 0.5:
        L, A = _make_cell(rng, None, 2.5 * _diameter(t.xyz))
        _set_cell(t, L, A)
        ctx.observe("karplus.cell", "large-cell")
    else:
        ctx.observe("karplus.cell", "none")
    fam = ["HN_HA", "HN_C", "HN_CB"][int(rng.integers(3))]
    models = list(F.KARPLUS[fam])
    model = models[int(rng.integers(len(models)))] if rng.random() < 0.8 else None
    fn = getattr(md, "compute_J3_" + fam)
    if wide and rng.random() < 0.15:
        # "Must be one of ...": a model name outside the documented table is refused, never silently given some coefficients
        bogus = ["Bax1999", "bax2007", "Karplus1963", "Ruterjans1999" if fam != "HN_HA" else "Bax97", ""][int(rng.integers(5))]
        try:
            fn(t, model=bogus)
        except KeyError:
            ctx.ok("karplus.unknown-model-refused")
        except Exception as e:  # noqa
            ctx.skip("karplus.unknown-model-refused", f"refused with {type(e).__name__} instead of the KeyError in the code (not documented)")
        else:
            ctx.violation("karplus.unknown-model-refused", f"karplus:{fam}:unknown-model-accepted", f"model={bogus!r} is not in the documented table "
                          "but a coupling was returned")
        if bogus == "Bax1999" and fam == "HN_HA":
            ctx.observe("karplus.docstring-names-Bax1999-table-has-Bax1997", "Bax1999 refused")
    idx, J = fn(t) if model is None else fn(t, model=model)
    A_, B_, C_, phi0 = F.KARPLUS[fam][model or "Bax2007"]
    ctx.observe("karplus.function", fam + ":" + (model or "default"))
    idx = np.asarray(idx)
    J = np.asarray(J, np.float64)
    if len(idx) == 0:
        ctx.skip("karplus.J", "no phi angle in this fragment")
        return
    if idx.shape[1:] != (4,) or J.shape != (nf, len(idx)):
        ctx.violation("karplus.J", "karplus:shape", f"indices {idx.shape}, J {J.shape}")
        return
    atoms_l = list(t.topology.atoms)
    badlab = None
    for row in idx:
        a = [atoms_l[int(v)] for v in row]
        names = [q.name for q in a]
        r = [q.residue.index for q in a]
        same_chain = len({q.residue.chain.index for q in a}) == 1
        if names != ["C", "N", "CA", "C"] or not (r[1] == r[2] == r[3] == r[0] + 1) or not same_chain:
            badlab = (names, r)
    if badlab:
        ctx.violation("karplus.labels", "karplus:indices-are-not-phi-atoms", f"indices row names {badlab[0]} residues {badlab[1]} is not C(i-1),N,CA,C(i)")
        return
    ctx.ok("karplus.labels", len(idx))
    if wide:
        # completeness: every residue i whose N, CA, C and whose predecessor's (same chain) C exist once has its phi listed once
        want = []
        for ch in t.topology.chains:
            prev = None
            for r in ch.residues:
                nm = {}
                for a in r.atoms:
                    nm.setdefault(a.name, []).append(a.index)
                if prev is not None and all(len(nm.get(k, [])) == 1 for k in ("N", "CA", "C")) and len(prev.get("C", [])) == 1:
                    want.append((prev["C"][0], nm["N"][0], nm["CA"][0], nm["C"][0]))
                elif prev is not None and (any(len(nm.get(k, [])) > 1 for k in ("N", "CA", "C")) or len(prev.get("C", [])) > 1):
                    want = None
                    break
                prev = nm
            if want is None:
                break
        if want is None:
            ctx.skip("karplus.complete", "a residue holds two atoms of the same backbone name")
        else:
            gotrows = [tuple(int(v) for v in row) for row in idx]
            ctx.check(sorted(gotrows) == sorted(want), "karplus.complete", "karplus:phi-list-incomplete-or-duplicated",
                      f"{len(gotrows)} phi rows returned, {len(want)} residues have C(i-1), N, CA, C", missing=[w for w in want if w not in gotrows][:4],
                      extra=[g for g in gotrows if g not in want][:4])
    x64 = t.xyz.astype(np.float64)
    M = float(np.abs(t.xyz).max())
    nok = 0
    for f in range(nf):
        p = x64[f][idx]
        b1, b2, b3 = p[:, 1] - p[:, 0], p[:, 2] - p[:, 1], p[:, 3] - p[:, 2]
        phi = geom.dihedral_vec(b1, b2, b3)
        n2 = np.linalg.norm(b2, axis=1)
        s1 = np.linalg.norm(np.cross(b1, b2), axis=1) / (np.linalg.norm(b1, axis=1) * n2)
        s2 = np.linalg.norm(np.cross(b2, b3), axis=1) / (n2 * np.linalg.norm(b3, axis=1))
        h = np.minimum(np.linalg.norm(b1, axis=1) * s1, np.linalg.norm(b3, axis=1) * s2)
        smin = np.minimum(s1, s2)
        dec = (smin > 0.05) & (h > 1e-3)
        with np.errstate(divide="ignore", invalid="ignore"):
            tphi = 64 * F.EPS32 * (M / h + 1) / smin ** 2 + 1e-6
        ref = F.karplus(phi, A_, B_, C_, phi0)
        tol = F.karplus_slope(A_, B_) * tphi + 1e-5
        bad = dec & ~(np.abs(J[f] - ref) <= tol)
        if bad.any():
            j = int(np.argmax(bad))
            ctx.violation("karplus.J", f"karplus:{fam}:{model or 'default'}:value", f"J = {J[f, j]:.7g} Hz for phi = {np.degrees(phi[j]):.4f} deg; "
                          f"A cos^2(phi+phi0) + B cos(phi+phi0) + C = {ref[j]:.7g} (A,B,C,phi0 = {A_},{B_},{C_},{np.degrees(phi0):.0f} deg)", frame=f)
        nok += int((dec & ~bad).sum())
        if (~dec).any():
            ctx.skip("karplus.J", "near-collinear backbone atoms: torsion ill-conditioned", int((~dec).sum()))
    if nok:
        ctx.ok("karplus.J", nok)
