"""C20 — existing files are never modified unless overwriting was requested.

Monitor M7 (file-system monitor), four observers per execution of the REAL entry point:
  * snapshots   sha256 + size + mtime_ns + ctime_ns + inode + mode of every pre-existing path (whole directory tree
                for dtr, every numbered `path.N` of multi-frame restart output) before and after the call.  Before the
                first snapshot the mtime of every pre-existing path is set back to 2001, so a rewrite with identical
                bytes still shows (mtime/ctime/inode);
  * audit hook  one `sys.addaudithook` listener per worker process records Python-level open (with mode/flags),
                os.remove/unlink, os.rename/replace, os.truncate, os.rmdir, os.mkdir, os.chmod, os.utime, os.link,
                os.symlink, shutil.rmtree/copyfile/move events on the case directory while the entry point runs;
  * fd flags    while an md.open(...) read handle is alive, /proc/self/fdinfo of every descriptor pointing at the file
                is inspected: a native fopen("rb+") shows as O_RDWR although no byte changes (both tiers);
  * strace      (thorough) a reduced table is executed in a child under `strace -f -e trace=openat,unlink,...`;
                the log is cut into per-call windows by marker syscalls and searched for write-mode opens, unlinks,
                renames, truncates of the watched paths (native fopen("wb")/open(O_TRUNC) of xdrfile/dcdplugin/dtrplugin
                are invisible to the audit hook).

force_overwrite=False: the call must raise (key ...:no-error otherwise), every pre-existing path must be identical in
every snapshot field (key ...:modified[field]), and no write-ish event on them may be in the audit/strace log.
force_overwrite=True: the call must succeed; every output path must load bit-for-bit like the same content written by
the same entry point to a fresh path, identify as the NEW frames, have the size of the fresh file, and equal its bytes
where the format is time-independent (decided by bracketing: two fresh references written immediately before and
after must agree; dcd: 160-byte title block masked (time stamp + uninitialised padding); gz: decompressed bytes; h5/nc:
content + size only), and the unique marker of the old content must be absent (decompressed for gz, whole tree for dtr,
whose listing must equal the fresh tree's).
Read-only clause: every read entry point on every readable format leaves all snapshot fields unchanged and performs
no write-ish event on the path.

Domain decisions (skip, never ok/violation): multi-frame rst7/ncrst write `path.N`, so "a path that already exists"
is an existing OUTPUT path; when only `path` itself pre-exists and no `path.N`, nothing the call writes pre-exists
(skip, the base file is still monitored for modification).  With force_overwrite=True, numbered files of a longer old
save that are not outputs of the new save survive; whether the numbered set is one unit is not said by the
statement: skipped and counted (`observed.stale_numbered_survivors`).  atime is not part of the property.

Round 5 (widened input classes, same monitors): entry "class" (format class constructor), `style` (how force_overwrite is
handed over: pos / default / npbool / int / opts), `form` (path forms, see FORMS; the form CLASS is part of the key:
`file[pathobj]`, `file[relpath]`, `file[name]`, `file[link]`, `file[perm]`), contents `otherfmt` / `dir` / `none`
(dangling link), ops `badmode`, `append` (HDF5 'a': monitor append.keeps-old), `seq`, `defaults` (monitor
default.documented), and for the read-only clause the monitors read.no-sidecar (directory listing, mtime and mode of the
file's directory unchanged; the directory mtime is set back to 2001 first) and read.readonly-ok (a 0444 file / 0555
directory must still be readable; skipped when running as root)."""
from __future__ import annotations

import atexit
import gc
import gzip
import hashlib
import itertools
import json
import os
import pathlib
import re
import shutil
import stat
import subprocess
import sys
import tempfile

import numpy as np

from vlib.gen import common, files

PROPERTY = "C20"
LEVEL = "exploration"
NATIVE = ["mdtraj.formats.xtc", "mdtraj.formats.trr", "mdtraj.formats.dcd", "mdtraj.formats.dtr"]
RULE = ("case = (extension, pre-existing content class, single/multi-frame new trajectory, entry point, force_overwrite) "
        "- the complete cross product over the 18 extensions of Trajectory.save/md.open('w') (+5 extensions only md.open "
        "accepts) x {valid same-shape file, longer valid file, unrelated marker bytes, empty file; dtr: valid/longer/"
        "unrelated directory tree, empty directory, regular file; multi-frame rst7/ncrst: all/longer/unrelated/first/"
        "middle/last/two numbered files, base only, base+numbered} x {1, 3 frames} x {Trajectory.save, save_<fmt>, "
        "md.open('w')} x {False, True}; plus (readable format x read entry point) for the read-only clause.  Both tiers "
        "enumerate that table completely; thorough adds shape/path-form/content variants, every non-empty subset of "
        "numbered files, repository test-data files, and the strace group.  Round 5 adds, in both tiers: the file class "
        "constructors called directly; force_overwrite passed positionally / omitted (pinned default decides the clause) / as "
        "numpy bool / int / with the saver's other options; 21 path forms (pathlib, generic os.PathLike, bytes, relative to a "
        "changed cwd, './', '../', '/./', '//', trailing separator, several dots, upper/mixed-case extension, blanks, "
        "non-ascii, symlink absolute/relative/dangling/to a directory, hard link, read-only file, read-only directory) x "
        "every extension x every entry point x both force_overwrite values; .pdb.bz2/.xyz.bz2/.gro.gz through the savers; "
        "pre-existing valid file of ANOTHER format and directory at a file path; undocumented mode strings; HDF5 mode 'a'; "
        "second call on a file the same process just wrote / that is held open for reading; docstring default vs "
        "signature; 10 more read entry points (format loaders with options, load(frame=), load(top=<file>) with the "
        "topology file watched, class constructors, force_overwrite=True on a read, seek whence, offsets, open+close, read "
        "past EOF) x 8 path forms incl. read-only file/directory, and the directory of the file must be untouched (no "
        "sidecar).  quick rotates frame count / content / read form with the seed, thorough takes the cross product.  "
        "non-trivial = a monitor decided; distinct = distinct descriptors")
WORKERS = {"quick": 8, "thorough": 16}
BUDGET = {"quick": 90, "thorough": 600}
EXHAUSTIVE = {"quick": True, "thorough": True}
FLOORS = {"quick": {"fo=False.raises": 2200, "fo=False.unchanged": 4000, "fo=False.audit": 2700, "fo=True.loads-new": 2500,
                    "fo=True.size": 2500, "fo=True.marker-absent": 900, "read.unchanged": 1000, "read.audit": 750, "read.fdflags": 220,
                    "read.no-sidecar": 750, "append.keeps-old": 12, "default.documented": 10},
          # no floor on the strace monitors: where ptrace is not permitted they are skipped by design
          "thorough": {"fo=False.raises": 9000, "fo=False.unchanged": 16000, "fo=True.loads-new": 10000, "fo=True.size": 10000,
                       "read.unchanged": 8000, "read.audit": 6000, "read.fdflags": 1200, "read.no-sidecar": 6000}}
ASSUMPTIONS = ["fidelity of what is written/loaded is C01's subject: 'loads to the new content' is judged against the same "
               "content written by the same entry point to a fresh path, plus self-identifying frames (new frames start at "
               "0, old ones at 20)",
               "for multi-frame rst7/ncrst the paths 'saved at' are the numbered files path.N",
               "any exception type counts as 'raises an error'; the type is recorded",
               "lh5 and gsd are out of scope (optional dependencies / legacy)",
               "positional calls use the documented parameter order of the pinned API ((filename, mode, force_overwrite); "
               "save_hdf5: (filename, mode, force_overwrite); MDCRDTrajectoryFile: (filename, n_atoms, mode, has_box, force_overwrite)) and "
               "omitted force_overwrite means the pinned default (True; AmberNetCDFRestartFile: False)",
               "a dangling symlink, a trailing separator after a regular file's name, and a directory where a single-file format is "
               "written are outside 'a path that already exists' for the raises clause; the paths are still monitored for modification",
               "as root the permission bits of read-only files/directories do not bind: those forms then only exercise the mode/"
               "snapshot monitors (recorded in observed.read_only_forms_run_as)"]

# --------------------------------------------------------------------------------------------------------------------
# the table
# kind: writer family; saver: Trajectory method; bytes: how the overwritten file is compared with a fresh one
EXT = {
    "xtc": dict(kind="xtc", saver="save_xtc", bytes="exact"),
    "trr": dict(kind="trr", saver="save_trr", bytes="exact"),
    "pdb": dict(kind="pdb", saver="save_pdb", bytes="exact", self_top=True),
    "pdb.gz": dict(kind="pdb", saver="save_pdb", bytes="gz", self_top=True),
    "dcd": dict(kind="dcd", saver="save_dcd", bytes="dcd"),
    "h5": dict(kind="h5", saver="save_hdf5", bytes="content", self_top=True),
    "nc": dict(kind="nc", saver="save_netcdf", bytes="content"),
    "netcdf": dict(kind="nc", saver="save_netcdf", bytes="content"),
    "ncdf": dict(kind="nc", saver="save_netcdf", bytes="content"),
    "ncrst": dict(kind="ncrst", saver="save_netcdfrst", bytes="exact", restart=True),
    "crd": dict(kind="mdcrd", saver="save_mdcrd", bytes="exact"),
    "mdcrd": dict(kind="mdcrd", saver="save_mdcrd", bytes="exact"),
    "lammpstrj": dict(kind="lammpstrj", saver="save_lammpstrj", bytes="exact"),
    "xyz": dict(kind="xyz", saver="save_xyz", bytes="exact"),
    "xyz.gz": dict(kind="xyz", saver="save_xyz", bytes="gz"),
    "gro": dict(kind="gro", saver="save_gro", bytes="exact", self_top=True),
    "rst7": dict(kind="rst7", saver="save_amberrst7", bytes="exact", restart=True),
    "dtr": dict(kind="dtr", saver="save_dtr", bytes="exact", tree=True),
}
# extensions md.open(mode='w') accepts beyond the property's list (same classes under other names, and PDBx)
OPEN_EXTRA = {
    "hdf5": dict(kind="h5", bytes="content"),  # md.load('.hdf5') wants top= (load_topology does not know the alias)
    "inpcrd": dict(kind="rst7", bytes="exact", single=True),
    "restrt": dict(kind="rst7", bytes="exact", single=True),
    "pdbx": dict(kind="pdbx", bytes="exact", self_top=True),
    "cif": dict(kind="pdbx", bytes="exact", self_top=True),
}
ALLEXT = dict(EXT, **OPEN_EXTRA)
CONTENTS_FILE = ["same", "longer", "junk", "empty"]
CONTENTS_DTR = ["same", "longer", "junkdir", "emptydir", "junkfile"]
CONTENTS_RST1 = ["same", "longer", "junk", "empty", "base+num"]
CONTENTS_RSTN = ["num-same", "num-longer", "num-junk", "num-first", "num-mid", "num-last", "num-two", "base-only", "base+num"]
ENTRIES = ["save", "saver", "open"]
NA_NEW, NA_OLD_LONG = 6, 9
F0_OLD = 20

READ_FMTS = ["h5", "hdf5", "xtc", "trr", "dcd", "nc", "netcdf", "ncdf", "mdcrd", "crd", "xyz", "xyz.gz", "lammpstrj", "gro",
             "pdb", "pdb.gz", "dtr", "rst7", "inpcrd", "restrt", "ncrst", "arc", "pdbx", "cif"]
READ_ENTRIES = ["load", "load-stride-atoms", "load_frame-first", "load_frame-last", "iterload-1", "iterload-2-stride2",
                "iterload-2-skip1", "iterload-0", "load-list", "load_topology", "open-read", "open-cursor", "open-len",
                "open-read_as_traj", "open-noclose"]
TOP_FILES = ["alanine-dipeptide-explicit.prmtop", "ala3_chamber.parm7", "ala_ala_ala.psf", "3pqr_memb.psf", "adp.mol2",
             "imatinib.mol2", "no_chains.hoomdxml", "4waters.arc", "native.pdb", "1vii.pdb.gz", "mol.gro", "frame0.h5"]
TESTDATA = ["frame0.xtc", "frame0.trr", "frame0.dcd", "frame0.h5", "frame0.nc", "frame0.mdcrd", "frame0.pdb", "frame0.pdb.gz",
            "frame0.gro", "frame0.lammpstrj", "frame0.xyz", "frame0.xyz.gz", "frame0.dtr", "ncinpcrd.rst7", "4waters.arc",
            "nitrogen.arc", "mdcrd.nc", "multiframe.pdb", "inpcrd", "test_good.nc", "traj.h5", "two_residues_same_resnum.gro",
            "thf200.arc", "tip3p_300K_1ATM.xtc"]
DATA = os.path.join(os.environ.get("VERIF_REPO", "/repo"), "tests", "data")
STRACE_SYSCALLS = "openat,open,creat,unlink,unlinkat,rename,renameat,renameat2,truncate,ftruncate,rmdir,mkdir,mkdirat,link,linkat,symlink,symlinkat,chmod,fchmodat,utimensat"
N_STRACE = 16


# ---- widened input classes (round 5) ------------------------------------------------------------------------------
# entry "class": the format's file class constructed directly (mdtraj.formats.<Class>(path, 'w', ...))
CLASSES = {"xtc": "XTCTrajectoryFile", "trr": "TRRTrajectoryFile", "dcd": "DCDTrajectoryFile", "dtr": "DTRTrajectoryFile",
           "h5": "HDF5TrajectoryFile", "nc": "NetCDFTrajectoryFile", "ncrst": "AmberNetCDFRestartFile", "rst7": "AmberRestartFile",
           "mdcrd": "MDCRDTrajectoryFile", "lammpstrj": "LAMMPSTrajectoryFile", "xyz": "XYZTrajectoryFile", "gro": "GroTrajectoryFile",
           "pdb": "PDBTrajectoryFile", "pdbx": "PDBxTrajectoryFile"}
ENTRIES4 = ENTRIES + ["class"]
# how force_overwrite reaches the entry point: by keyword (base table), positionally, omitted (the entry point's own
# default decides which clause applies), as numpy bool / int, together with the saver's other options
STYLES = [("saver", "pos"), ("saver", "default"), ("save", "default"), ("open", "pos"), ("open", "default"),
          ("class", "kw"), ("class", "pos"), ("class", "default"),
          ("save", "npbool"), ("saver", "int"), ("open", "npbool"), ("class", "int"), ("save", "opts")]
# path forms; the class of a form goes into the mechanism key
FORMS = {"pathlib": "pathobj", "pathlike": "pathobj", "bytes": "pathobj",
         "relative": "relpath", "dotslash": "relpath", "reldotdot": "relpath", "dotdot": "relpath", "dotmid": "relpath",
         "dblslash": "relpath", "trailsep": "relpath",
         "blank": "name", "unicode": "name", "upper": "name", "multidot": "name", "extupper": "name", "extmixed": "name",
         "symlink": "link", "symlink-rel": "link", "symlink-dangling": "link", "hardlink": "link",
         "rofile": "perm", "rodir": "perm", "tilde": "shellspelling", "envvar": "shellspelling"}
# tilde / envvar: the path as a shell user would type it ('~/traj.h5', '$VERIF_C20_DIR/traj.h5') with HOME / the variable pointing
# at the directory that holds the existing file.  mdtraj does not expand such spellings (the call fails, also on a fresh path);
# only force_overwrite=False is run: whatever the call does, the existing file it would name after expansion must stay as it is.
NEW_FORMS = ["pathlib", "pathlike", "bytes", "relative", "dotslash", "reldotdot", "dotdot", "dotmid", "dblslash", "trailsep",
             "blank", "unicode", "multidot", "extupper", "extmixed", "symlink", "symlink-rel", "symlink-dangling", "hardlink",
             "rofile", "rodir", "tilde", "envvar"]
# extensions only the format-specific savers / classes understand (Trajectory.save and md.open refuse them by name)
SAVER_EXTRA = {
    "pdb.bz2": dict(kind="pdb", saver="save_pdb", bytes="bz2", self_top=True),
    "xyz.bz2": dict(kind="xyz", saver="save_xyz", bytes="bz2"),
    "gro.gz": dict(kind="gro", saver="save_gro", bytes="exact", self_top=True),
}
ALLEXT.update(SAVER_EXTRA)
# a valid file of ANOTHER format under this name
OTHER = {"xtc": "trr", "trr": "xtc", "dcd": "xtc", "h5": "nc", "nc": "h5", "ncrst": "nc", "pdb": "gro", "gro": "pdb",
         "mdcrd": "xyz", "xyz": "mdcrd", "lammpstrj": "xyz", "rst7": "mdcrd", "pdbx": "pdb"}
BAD_MODES = ["a", "x", "r+", "wb", "rw", "W", ""]
READ_ENTRIES_NEW = ["load_fn", "load_fn-opts", "load-frame-kw", "load-topfile", "open-r-fo", "class-r", "open-seek-whence",
                    "open-offsets", "open-nothing", "open-past-eof"]
READ_FORMS = ["pathlib", "relative", "dotdot", "symlink", "rofile", "rodir", "unicode", "extupper"]
TOP_FMTS = ["pdb", "gro", "h5", "pdb.gz"]
TESTDATA_LOAD = ["adp.mol2", "imatinib.mol2", "no_chains.hoomdxml", "no_ions.hoomdxml", "alanine-dipeptide-explicit.prmtop"]
_ROOT = hasattr(os, "geteuid") and os.geteuid() == 0


def _widened_table(seed, full):
    """the input classes added in round 5.  quick (full=False): one representative of every (extension, form/style,
    entry, force_overwrite) with frame count and content class rotating with the seed; thorough: the cross product"""
    multi, na = 3 + seed % 3, NA_NEW + seed % 4
    j = seed
    # (a) how force_overwrite is passed, and the direct class constructors
    for ext in ALLEXT:
        m = ALLEXT[ext]
        for nf in (1, multi):
            cs = _contents(ext, nf)
            pick = [cs[0], cs[2]] + (["num-last", "base-only"] if m.get("restart") and nf > 1 else [])
            for content in (cs if full else pick):
                for entry, style in STYLES:
                    if ext in OPEN_EXTRA and entry in ("save", "saver") or ext in SAVER_EXTRA and entry in ("save", "open"):
                        continue
                    if style == "opts" and m["kind"] not in ("pdb", "gro", "h5"):
                        continue
                    for fo in ((None,) if style == "default" else (False, True)):
                        yield dict(op="ow", ext=ext, nf=nf, na=na, content=content, entry=entry, fo=fo, style=style)
    # (a') extensions only the savers/classes know, by keyword
    for ext in SAVER_EXTRA:
        for nf in (1, multi):
            for content in CONTENTS_FILE:
                for fo in (False, True):
                    yield dict(op="ow", ext=ext, nf=nf, na=na, content=content, entry="saver", fo=fo)
    # (b) path forms
    for ext in ALLEXT:
        m = ALLEXT[ext]
        for form in NEW_FORMS:
            for entry in ENTRIES4:
                if ext in OPEN_EXTRA and entry in ("save", "saver") or ext in SAVER_EXTRA and entry in ("save", "open"):
                    continue
                for fo in ((False,) if form in ("tilde", "envvar") else (False, True)):
                    j += 1
                    for nf in ((1, multi) if full else ((1, multi)[j % 2],)):
                        for c in (("same", "junk") if full else (("same", "junk")[(j // 2) % 2],)):
                            content = c
                            if m.get("tree"):
                                content = {"same": "same", "junk": "junkdir"}[c]
                                if form in ("hardlink", "rofile"):
                                    continue
                            if m.get("restart") and nf > 1 and entry != "open":
                                content = "num-" + c
                                if form in ("symlink", "symlink-rel", "symlink-dangling", "hardlink"):
                                    continue
                            if form == "symlink-dangling":
                                content = "none"
                            yield dict(op="ow", ext=ext, nf=nf, na=na, content=content, entry=entry, fo=fo, form=form)
    # (c) pre-existing content of another class: a valid file of another format, a directory where a file goes
    for ext in ALLEXT:
        if ALLEXT[ext].get("tree"):
            continue
        for content in ("otherfmt", "dir"):
            for nf in (1, multi):
                for entry in ENTRIES4:
                    if ext in OPEN_EXTRA and entry in ("save", "saver") or ext in SAVER_EXTRA and entry in ("save", "open"):
                        continue
                    for fo in (False, True):
                        yield dict(op="ow", ext=ext, nf=nf, na=na, content=content, entry=entry, fo=fo)
    # (c') a symbolic link to a directory where a single-file format is to be written
    for ext in ALLEXT:
        if ALLEXT[ext].get("tree"):
            continue
        for entry in ENTRIES4:
            if ext in OPEN_EXTRA and entry in ("save", "saver") or ext in SAVER_EXTRA and entry in ("save", "open"):
                continue
            for fo in (False, True):
                yield dict(op="ow", ext=ext, nf=1, na=na, content="dir", entry=entry, fo=fo, form="symlink")
    # (d) a mode string that is not a documented write mode must not touch the file
    for ext in ALLEXT:
        if ext in SAVER_EXTRA:
            continue
        for mode in BAD_MODES:
            for entry in ("open", "class"):
                yield dict(op="badmode", ext=ext, mode=mode, entry=entry)
    # (e) HDF5 append mode: the old frames stay whatever force_overwrite says
    for entry in ("saver", "class", "open"):
        for fo in (False, True, None):
            for nf in (1, multi):
                yield dict(op="append", ext="h5", entry=entry, fo=fo, nf=nf, na=na)
    # (f) the existing file was created by the same process a moment ago / a read handle on it is still open
    for ext in ALLEXT:
        for entry in ENTRIES4:
            if ext in OPEN_EXTRA and entry in ("save", "saver") or ext in SAVER_EXTRA and entry in ("save", "open"):
                continue
            for variant in ("created-now", "read-handle-open"):
                for nf in ((1, multi) if full else ((1, multi)[(j + len(ext)) % 2],)):
                    yield dict(op="seq", ext=ext, entry=entry, variant=variant, nf=nf, na=na)
    # (g) documented default of force_overwrite against the signature, for every entry point
    yield dict(op="defaults")
    # (h) read-only clause: more entry points, path forms, read-only files/directories, the topology file of load(top=)
    k = seed
    for fmt in READ_FMTS:
        for entry in READ_ENTRIES_NEW:
            k += 1
            yield dict(op="read", fmt=fmt, entry=entry, src="mdtraj", topfmt=TOP_FMTS[k % len(TOP_FMTS)])
        for entry in READ_ENTRIES + READ_ENTRIES_NEW:
            for form in (READ_FORMS if full else (None,)):
                k += 1
                yield dict(op="read", fmt=fmt, entry=entry, src="mdtraj", form=form or READ_FORMS[k % len(READ_FORMS)],
                           topfmt=TOP_FMTS[k % len(TOP_FMTS)])
    for name in TESTDATA_LOAD:
        for entry in ("load", "load_fn", "load_frame-first", "iterload-2-stride2", "load_topology"):
            yield dict(op="read", fmt=name, entry=entry, src="testdata")


def _contents(ext, nf):
    m = ALLEXT[ext]
    if m.get("tree"):
        return CONTENTS_DTR
    if m.get("restart"):
        return CONTENTS_RST1 if nf == 1 else CONTENTS_RSTN
    return CONTENTS_FILE


def _base_table(seed=0):
    # the table is the same for every seed; the seed only moves the shape of the new trajectory (3..5 frames, 6..9 atoms)
    multi, na = 3 + seed % 3, NA_NEW + seed % 4
    for ext in EXT:
        for nf in (1, multi):
            for content in _contents(ext, nf):
                for entry in ENTRIES:
                    for fo in (False, True):
                        yield dict(op="ow", ext=ext, nf=nf, na=na, content=content, entry=entry, fo=fo)
    for ext in OPEN_EXTRA:
        for nf in (1, multi):
            for content in CONTENTS_FILE:
                for fo in (False, True):
                    yield dict(op="ow", ext=ext, nf=nf, na=na, content=content, entry="open", fo=fo)
    # the same table once more under a name with capital letters (extensions are recognised case-insensitively,
    # the path that is tested for existence must still be the one that is written)
    for ext in list(EXT) + list(OPEN_EXTRA):
        for nf in (1, multi):
            for content in (_contents(ext, nf) if ext in EXT else CONTENTS_FILE)[:3]:
                for entry in (ENTRIES if ext in EXT else ("open",)):
                    for fo in (False, True):
                        yield dict(op="ow", ext=ext, nf=nf, na=na, content=content, entry=entry, fo=fo, form="upper")
    for fmt in READ_FMTS:
        for entry in READ_ENTRIES:
            yield dict(op="read", fmt=fmt, entry=entry, src="mdtraj")
    for name in TOP_FILES:
        yield dict(op="read", fmt=name, entry="load_topology", src="testdata")


def _thorough_extra(seed):
    # shape variants: new trajectory shorter/longer/wider than the old content
    for ext in EXT:
        for nf, na in ((2, 3), (10, 12), (5, 6)):
            for content in _contents(ext, nf):
                for entry in ENTRIES:
                    for fo in (False, True):
                        yield dict(op="ow", ext=ext, nf=nf, na=na, content=content, entry=entry, fo=fo)
    # content variants
    for ext in EXT:
        for nf in (1, 3):
            cs = ["junk-short", "same-bytes"] if not EXT[ext].get("tree") else ["same-bytes"]
            if EXT[ext].get("restart") and nf > 1:
                cs = ["num-width2", "num-junk-short"]
            for content in cs:
                for entry in ENTRIES:
                    for fo in (False, True):
                        yield dict(op="ow", ext=ext, nf=nf, content=content, entry=entry, fo=fo)
    # path forms (relative to cwd, blanks + non-ascii, capital letters, symlink and hard link to the pre-existing file)
    for ext in EXT:
        for form in ("relative", "blank", "unicode", "upper", "symlink", "hardlink"):
            for nf in (1, 3):
                for content in (["same", "junk"] if not EXT[ext].get("tree") else ["same", "junkdir"]):
                    if EXT[ext].get("restart") and nf > 1:
                        content = "num-" + content
                    if form in ("symlink", "hardlink") and (EXT[ext].get("tree") or content.startswith("num-")):
                        continue
                    for entry in ENTRIES:
                        for fo in ((False,) if form in ("symlink", "hardlink") else (False, True)):
                            yield dict(op="ow", ext=ext, nf=nf, content=content, entry=entry, fo=fo, form=form)
    # every non-empty subset of numbered files (n = 3 and n = 4), valid and junk
    for ext in ("rst7", "ncrst"):
        for nf in (3, 4):
            for mask in range(1, 2 ** nf):
                for junk in (False, True):
                    for entry in ("save", "saver"):
                        for fo in (False, True):
                            yield dict(op="ow", ext=ext, nf=nf, content="num-subset", mask=mask, junk=junk, entry=entry, fo=fo)
    # seeded random shapes over the base contents
    rng = common.rng_for("C20", seed)
    exts = list(EXT)
    for j in range(4000):
        ext = exts[j % len(exts)]
        nf = int(rng.choice([1, 2, 3, 4, 7, 11, 13]))
        cs = _contents(ext, nf)
        yield dict(op="ow", ext=ext, nf=nf, na=int(rng.choice([1, 2, 3, 5, 8, 9, 10, 17])), content=cs[int(rng.integers(len(cs)))],
                   entry=ENTRIES[int(rng.integers(3))], fo=bool(rng.integers(2)), nold=int(rng.choice([1, 2, 5, 12, 30])),
                   naold=int(rng.choice([1, 3, 6, 9, 33])))
    # read-only clause: repository test data, and an iterload/read grid
    for name in TESTDATA:
        for entry in READ_ENTRIES:
            yield dict(op="read", fmt=name, entry=entry, src="testdata")
    for fmt in READ_FMTS:
        for chunk in (0, 1, 2, 3, 5, 100):
            for stride in (1, 2, 3):
                for skip in (0, 1, 4):
                    for ai in (0, 1):
                        yield dict(op="read", fmt=fmt, entry="iterload-grid", src="mdtraj", chunk=chunk, stride=stride, skip=skip, ai=ai)
        for n in (1, 2, 7):
            for entry in READ_ENTRIES:
                yield dict(op="read", fmt=fmt, entry=entry, src="mdtraj", n=n)


def _strace_table():
    for ext in EXT:
        for nf in (1, 3):
            cs = _contents(ext, nf)
            for content in (cs[0], cs[2]):
                for entry in ENTRIES:
                    yield dict(op="ow", ext=ext, nf=nf, content=content, entry=entry, fo=False)
        # round 5: the class constructor, positional / omitted force_overwrite, path objects and links (native opens
        # are invisible to the audit hook)
        yield dict(op="ow", ext=ext, nf=1, content=_contents(ext, 1)[0], entry="class", fo=False)
        yield dict(op="ow", ext=ext, nf=1, content=_contents(ext, 1)[2], entry="class", fo=False, style="pos")
        if EXT[ext]["kind"] == "ncrst":
            yield dict(op="ow", ext=ext, nf=1, content="same", entry="class", fo=None, style="default")
        for form in ("pathlib", "dblslash", "dotdot") + (() if EXT[ext].get("tree") else ("symlink", "hardlink", "rofile")):
            yield dict(op="ow", ext=ext, nf=1, content="same", entry="saver", fo=False, form=form)
    for ext in OPEN_EXTRA:
        yield dict(op="ow", ext=ext, nf=1, content="same", entry="open", fo=False)
    for fmt in READ_FMTS:
        for entry in ("load", "load_frame-last", "iterload-2-stride2", "load_topology", "open-cursor", "open-noclose"):
            yield dict(op="read", fmt=fmt, entry=entry, src="mdtraj")
        for entry, form in (("load_fn", "plain"), ("class-r", "plain"), ("open-r-fo", "symlink"), ("open-seek-whence", "rofile"),
                            ("load-topfile", "dotdot")):
            yield dict(op="read", fmt=fmt, entry=entry, src="mdtraj", form=form)
    for name in TOP_FILES:
        yield dict(op="read", fmt=name, entry="load_topology", src="testdata")


def gen_cases(tier, seed):
    i = 0
    for c in _base_table(seed):
        c.update(i=i, seed=seed)
        i += 1
        yield c
    for c in _widened_table(seed, tier == "thorough"):
        c.update(i=i, seed=seed)
        i += 1
        yield c
    if tier != "thorough":
        return
    for k in range(N_STRACE):
        yield dict(op="strace", part=k, parts=N_STRACE, i=i, seed=seed)
        i += 1
    for c in _thorough_extra(seed):
        c.update(i=i, seed=seed)
        i += 1
        yield c


# --------------------------------------------------------------------------------------------------------------------
# worker state, audit hook
_TMP = None
_AUD = dict(installed=False, armed=False, root=None, events=[])
_STATS = dict(audit_events=0, audit_armed_windows=0, snapshots=0)
_WRITE_FLAGS = os.O_WRONLY | os.O_RDWR | os.O_APPEND | os.O_CREAT | os.O_TRUNC
_PATH_EVENTS = {"os.remove": 1, "os.rename": 2, "os.truncate": 1, "os.rmdir": 1, "os.mkdir": 1, "os.chmod": 1, "os.utime": 1,
                "os.link": 2, "os.symlink": 2, "shutil.rmtree": 1, "shutil.copyfile": 2, "shutil.move": 2, "os.chown": 1,
                "shutil.copymode": 2, "shutil.copystat": 2, "os.setxattr": 1, "os.removexattr": 1}
_CHILD_WINDOWS = None  # in the strace child: list of (index, watched paths)


def _as_path(p):
    try:
        if isinstance(p, int):
            return os.readlink("/proc/self/fd/%d" % p)
        p = os.fspath(p)
        if isinstance(p, bytes):
            p = p.decode("utf-8", "surrogateescape")
        return os.path.abspath(p)
    except Exception:
        return None


def _audit(event, args):
    if not _AUD["armed"]:
        return
    try:
        if event == "open":
            path, mode, flags = args[0], args[1], args[2]
            p = _as_path(path)
            if p is None or not p.startswith(_AUD["root"]):
                return
            w = bool(mode and any(ch in mode for ch in "wax+")) or bool(isinstance(flags, int) and (flags & _WRITE_FLAGS))
            _AUD["events"].append(("open-write" if w else "open-read", p, f"mode={mode!r} flags={flags:#o}" if isinstance(flags, int) else f"mode={mode!r}"))
        elif event in _PATH_EVENTS:
            for a in args[:_PATH_EVENTS[event]]:
                p = _as_path(a)
                if p is not None and p.startswith(_AUD["root"]):
                    _AUD["events"].append((event, p, ""))
    except Exception:
        pass


def worker_init(tier, seed):
    global _TMP
    _TMP = tempfile.mkdtemp(prefix="c20-", dir="/var/tmp")
    atexit.register(shutil.rmtree, _TMP, True)
    if not _AUD["installed"]:
        sys.addaudithook(_audit)  # cannot be removed: stays for the life of the worker, inert unless armed
        _AUD["installed"] = True


def worker_summary():
    return dict(_STATS)


def _mark(tag, idx):
    try:
        fd = os.open("/c20-mark/%s/%d" % (tag, idx), os.O_RDONLY)
        os.close(fd)
    except OSError:
        pass


def _arm(root, watch, idx):
    _AUD["events"] = []
    _AUD["root"] = root
    _STATS["audit_armed_windows"] += 1
    if _CHILD_WINDOWS is not None:
        _CHILD_WINDOWS.append(dict(i=idx, watch=sorted(watch)))
        _mark("B", idx)
    _AUD["armed"] = True


def _disarm(idx):
    gc.collect(1)  # destructors of handles dropped by the entry point run inside the window (young generations: cheap)
    _AUD["armed"] = False
    if _CHILD_WINDOWS is not None:
        _mark("E", idx)
    _STATS["audit_events"] += len(_AUD["events"])
    return list(_AUD["events"])


# --------------------------------------------------------------------------------------------------------------------
# snapshots
OLD_NS = 1_000_000_000 * 10 ** 9  # 2001-09-09


def _sha(path):
    h = hashlib.sha256()
    with open(path, "rb") as f:
        for b in iter(lambda: f.read(1 << 20), b""):
            h.update(b)
    return h.hexdigest()


def _entry(path):
    st = os.lstat(path)
    if stat.S_ISLNK(st.st_mode):
        return dict(type="link", target=os.readlink(path), ino=st.st_ino)
    if stat.S_ISDIR(st.st_mode):
        return dict(type="dir", ino=st.st_ino, mtime=st.st_mtime_ns, ctime=st.st_ctime_ns, mode=st.st_mode,
                    listing=sorted(os.listdir(path)))
    return dict(type="file", sha=_sha(path), size=st.st_size, mtime=st.st_mtime_ns, ctime=st.st_ctime_ns, ino=st.st_ino,
                mode=st.st_mode, nlink=st.st_nlink)


def _walk(path):
    out = [path]
    if os.path.isdir(path) and not os.path.islink(path):
        for d, ds, fs in os.walk(path):
            out.extend(os.path.join(d, x) for x in sorted(ds) + sorted(fs))
    return out


def _age(paths):
    for p in paths:
        for q in reversed(_walk(p)):
            if not os.path.islink(q):
                os.utime(q, ns=(OLD_NS, OLD_NS))


def _snapshot(paths):
    _STATS["snapshots"] += 1
    snap = {}
    for p in paths:
        for q in _walk(p):
            snap[q] = _entry(q)
        if os.path.islink(p):
            t = os.path.realpath(p)
            if os.path.exists(t):
                snap[t] = _entry(t)
    return snap


def _diff(before, paths_after=None):
    """-> list of (path, field) that changed; the 'after' state is read now"""
    out = []
    for q, b in before.items():
        if not os.path.lexists(q):
            out.append((q, "removed"))
            continue
        try:
            a = _entry(q)
        except OSError:
            out.append((q, "unreadable"))
            continue
        if a["type"] != b["type"]:
            out.append((q, "type"))
            continue
        for k in ("sha", "size", "listing", "target", "ino", "mtime", "ctime", "mode", "nlink"):
            if k in b and a.get(k) != b[k]:
                out.append((q, {"sha": "bytes", "ino": "inode"}.get(k, k)))
                break
    return out


# --------------------------------------------------------------------------------------------------------------------
# writing through the three entry points
def _marker(case):
    return ("<<C20-MARKER-%d-%d>>" % (case.get("seed", 0), case.get("i", 0))).encode()


def _junk(marker, short=False):
    if short:
        return marker
    line = marker + b" unrelated bytes, not a trajectory \x00\x01\xfe\xff\n"
    return line * (49152 // len(line) + 1)


def _open_write(f, kind, t):
    xyz, L, A, tm, n = t.xyz, t.unitcell_lengths, t.unitcell_angles, t.time, t.n_frames
    if kind == "xtc":
        f.write(xyz, time=tm, step=np.arange(n), box=t.unitcell_vectors)
    elif kind == "trr":
        f.write(xyz, time=tm, step=np.arange(n), box=t.unitcell_vectors, lambd=np.zeros(n, np.float32))
    elif kind == "dcd":
        f.write(xyz * 10, cell_lengths=L * 10, cell_angles=A)
    elif kind == "dtr":
        f.write(xyz * 10, cell_lengths=L * 10, cell_angles=A, times=tm)
    elif kind == "h5":
        f.write(coordinates=xyz, time=tm, cell_lengths=L, cell_angles=A)
        f.topology = t.topology
    elif kind == "nc":
        f.write(coordinates=xyz * 10, time=tm, cell_lengths=L * 10, cell_angles=A)
    elif kind == "mdcrd":
        f.write(xyz * 10, L * 10)
    elif kind == "lammpstrj":
        f.write(xyz * 10, L * 10, A)
    elif kind == "xyz":
        f.write(xyz * 10, types=[a.name for a in t.topology.atoms])
    elif kind == "gro":
        f.write(xyz, t.topology, tm, t.unitcell_vectors)
    elif kind == "pdb":
        for i in range(n):
            f.write(xyz[i] * 10, t.topology, modelIndex=i if n > 1 else None, unitcell_lengths=tuple(L[i] * 10),
                    unitcell_angles=tuple(A[i]))
    elif kind == "pdbx":
        for i in range(n):
            f.write(xyz[i] * 10, t.topology, modelIndex=i if n > 1 else None, unitcell_lengths=tuple(L[i] * 10),
                    unitcell_angles=tuple(A[i]))
    elif kind in ("rst7", "ncrst"):
        f.write(coordinates=xyz[0] * 10, time=tm[0], cell_lengths=L[0] * 10, cell_angles=A[0])
    else:
        raise AssertionError(kind)


class _PL:
    """an os.PathLike that is not a pathlib.Path"""

    def __init__(self, p):
        self._p = p

    def __fspath__(self):
        return self._p

    def __str__(self):  # deliberately NOT the path (but inside the case directory): code that uses str(obj) instead of
        return os.path.join(os.path.dirname(self._p), "STR-OF-PATHLIKE-" + os.path.basename(self._p))  # os.fspath(obj) shows


def _cls(kind):
    import mdtraj.formats as F
    return getattr(F, CLASSES[kind])


def _sig_params(fn):
    """[(name, default)] of the parameters after the file name, from the signature or (Cython) the docstring's first line"""
    import inspect
    try:
        ps = list(inspect.signature(fn).parameters.values())
        ps = [q for q in ps if q.name != "self" and q.kind in (q.POSITIONAL_ONLY, q.POSITIONAL_OR_KEYWORD)]
        return [(q.name, q.default) for q in ps[1:]]
    except (TypeError, ValueError):
        first = (fn.__doc__ or "").strip().splitlines()[0]
        mm = re.match(r"\w+\((.*)\)\s*$", first)
        out = []
        for part in (mm.group(1).split(",")[1:] if mm else []):
            part = part.strip()
            if part.startswith("*"):
                continue
            nm, _, dv = part.partition("=")
            out.append((nm.strip(), {"True": True, "False": False, "'r'": "r", "None": None}.get(dv.strip(), dv.strip())))
        return out


def _positional(fn, fo, mode=None):
    """positional arguments after the file name up to and including force_overwrite, in the DOCUMENTED order of the
    pinned API (deliberately not read from the live signature: a reordered or keyword-only parameter must show)"""
    name = getattr(fn, "__name__", "")
    if name == "save_hdf5":
        return ["w", fo]
    if name.startswith("save_"):
        return [fo]
    if name == "MDCRDTrajectoryFile":
        return [None, mode, "detect", fo]
    return [mode, fo]  # md.open and every other file class: (filename, mode, force_overwrite)


def _default_fo(ext, entry):
    """the default of force_overwrite in the pinned API (signatures at the pinned commit; every saver docstring says
    default=True): True everywhere except the AmberNetCDFRestartFile constructor.  Pinned, not read from the live
    signature, so that a changed default shows as a refused / unrequested overwrite in the style='default' cases; what
    the live signature and the docstrings say is compared by the 'defaults' case"""
    return not (entry == "class" and ALLEXT[ext]["kind"] == "ncrst")


def _documented_default(fn):
    mm = re.search(r"force_overwrite\s*:\s*bool\s*,\s*(?:optional\s*,\s*)?default\s*=\s*(True|False)", fn.__doc__ or "")
    return None if not mm else mm.group(1) == "True"


def _fo_value(fo, style):
    if style == "npbool":
        return np.bool_(fo)
    if style == "int":
        return int(fo)
    return fo


def _produce(path, ext, t, entry, fo, style="kw", write=None, mode="w"):
    """run one entry point.  style: how force_overwrite is handed over (kw/pos/default/npbool/int/opts); for the handle
    entries (open, class) frames are written unless the effective force_overwrite is false (write=True forces it)"""
    import mdtraj as md
    m = ALLEXT[ext]
    eff = _default_fo(ext, entry) if style == "default" else fo
    fov = _fo_value(fo, style)
    if entry == "save":
        if style == "default":
            t.save(path)
        elif style == "opts":
            opts = {"pdb": dict(bfactors=np.full(t.n_atoms, 1.5), ter=False, header=False), "gro": dict(precision=4),
                    "h5": dict(mode="w")}[m["kind"]]
            t.save(path, force_overwrite=fov, **opts)
        else:
            t.save(path, force_overwrite=fov)
    elif entry == "saver":
        fn = getattr(t, m["saver"])
        if style == "default":
            fn(path)
        elif style == "pos":
            fn(path, *_positional(getattr(md.Trajectory, m["saver"]), fov, mode="w"))
        else:
            fn(path, force_overwrite=fov)
    else:
        if entry == "open":
            if style == "default":
                f = md.open(path, mode)
            elif style == "pos":
                f = md.open(path, mode, fov)
            else:
                f = md.open(path, mode, force_overwrite=fov)
        else:
            cls = _cls(m["kind"])
            if style == "default":
                f = cls(path, mode=mode)
            elif style == "pos":
                f = cls(path, *_positional(cls, fov, mode=mode))
            else:
                f = cls(path, mode=mode, force_overwrite=fov)
        try:
            if bool(eff) if write is None else write:
                _open_write(f, m["kind"], t)
        finally:
            f.close()
            del f


def _outputs(path, ext, nf, entry):
    m = ALLEXT[ext]
    if m.get("restart") and nf > 1 and entry != "open":
        return [_numbered(path, k, nf) for k in range(1, nf + 1)]
    return [path]


def _numbered(path, k, n):
    return "%s.%0*d" % (path, len(str(n)), k)


def _load(p, ext, top, explicit=False):
    import mdtraj as md
    m = ALLEXT[ext]
    if (explicit or ext in SAVER_EXTRA) and m["kind"] not in ("rst7", "ncrst"):
        # the name carries an extension md.load does not map (upper case, .bz2): the format's own loader
        from mdtraj.formats.registry import FormatRegistry
        base = {"pdb.bz2": "pdb", "xyz.bz2": "xyz", "gro.gz": "gro"}.get(ext, ext)
        fn = FormatRegistry.loaders["." + base]
        return fn(p) if m.get("self_top") else fn(p, top=top)
    if m["kind"] == "rst7":
        return md.load_restrt(p, top=top)
    if m["kind"] == "ncrst":
        return md.load_ncrestrt(p, top=top)
    if m.get("self_top"):
        return md.load(p)
    return md.load(p, top=top)


def _bytes(p, mode):
    """all bytes of a path: for a directory the concatenation over the tree"""
    if os.path.isdir(p):
        return b"".join(_bytes(q, mode) for q in _walk(p)[1:] if os.path.isfile(q))
    with open(p, "rb") as f:
        b = f.read()
    if mode == "gz":
        try:
            return gzip.decompress(b)
        except Exception:
            return b
    if mode == "bz2":
        import bz2
        try:
            return bz2.decompress(b)
        except Exception:
            return b
    return b


def _tree(p):
    if not os.path.isdir(p):
        return None
    return sorted(os.path.relpath(q, p) + ("/" if os.path.isdir(q) else "") for q in _walk(p)[1:])


def _masked(b, mode):
    if mode == "dcd" and len(b) >= 264:
        return b[:100] + b"\0" * 160 + b[260:]
    return b


def _old_traj(case, nf_new, na_new, single):
    content = case["content"]
    if content in ("same", "num-same", "base+num", "base-only", "num-first", "num-mid", "num-last", "num-two", "num-subset"):
        return files.ident_traj(nf_new, na_new, cell="ortho", f0=F0_OLD)
    if content == "same-bytes":
        return files.ident_traj(nf_new, na_new, cell="ortho", f0=0)
    nold = case.get("nold", 12)
    naold = case.get("naold", na_new + 3)
    if content == "num-longer":
        return files.ident_traj(case.get("nold", nf_new + 2), naold, cell="ortho", f0=F0_OLD)
    if content == "num-width2":
        return files.ident_traj(12, naold, cell="ortho", f0=F0_OLD)
    if single:
        return files.ident_traj(1, case.get("naold", 30), cell="ortho", f0=F0_OLD)
    return files.ident_traj(nold, naold, cell="ortho", f0=F0_OLD)


def _produce_at(d, path, ext, told, wentry):
    """write `told` through a standard-named scratch file and move the result to `path` (whose name the high-level
    entry points may not recognise: upper-case extensions); multi-frame restart output is moved file by file"""
    tmp = os.path.join(d, "pre-src." + ext)
    _produce(tmp, ext, told, wentry, True)
    outs = _outputs(tmp, ext, told.n_frames, wentry)
    if outs == [tmp]:
        os.rename(tmp, path)
        return [path]
    res = []
    for k, o in enumerate(outs, 1):
        q = _numbered(path, k, told.n_frames)
        os.rename(o, q)
        res.append(q)
    return res


def _make_preexisting(case, d, path, ext, nf, na):
    """create the pre-existing content; returns (list of pre-existing top-level paths, marker or None)"""
    m = ALLEXT[ext]
    content = case["content"]
    marker = _marker(case)
    wentry = "open" if ext in OPEN_EXTRA else "saver" if ext in SAVER_EXTRA else "save"
    single = bool(m.get("restart") or m.get("single"))
    pre = []
    if content == "none":
        return [], None
    if content == "otherfmt":
        # a valid, longer file of another format under this name (written by that format's own saver)
        other = OTHER[m["kind"]]
        told = files.ident_traj(1 if ALLEXT[other].get("restart") else 12, na + 3, cell="ortho", f0=F0_OLD)
        tmp = os.path.join(d, "other-src." + other)
        _produce(tmp, other, told, "save", True)
        os.rename(tmp, path)
        return [path], None
    if content == "dir":
        os.mkdir(path)
        os.mkdir(os.path.join(path, "sub"))
        for rel in ("keep.txt", "sub/keep2.txt"):
            with open(os.path.join(path, rel), "wb") as f:
                f.write(_junk(marker)[:2048])
        return [path], marker
    if content in ("same", "longer", "same-bytes"):
        told = _old_traj(case, 1 if single else nf, na, single)
        if single and told.n_frames > 1:
            told = told[0]
        _produce_at(d, path, ext, told, wentry)
        return [path], None
    if content in ("junk", "junk-short", "junkfile"):
        with open(path, "wb") as f:
            f.write(_junk(marker, content == "junk-short"))
        return [path], marker
    if content == "empty":
        open(path, "wb").close()
        return [path], None
    if content == "emptydir":
        os.mkdir(path)
        return [path], None
    if content == "junkdir":
        os.makedirs(os.path.join(path, "not_hashed"))
        os.makedirs(os.path.join(path, "sub", "deeper"))
        for rel in ("frame000000000", "timekeys", "metadata", "clickme.dtr", "not_hashed/.ddparams", "sub/deeper/keep.txt", "frame000000007"):
            with open(os.path.join(path, rel), "wb") as f:
                f.write(_junk(marker)[:4096])
        return [path], marker
    # numbered layouts (restart formats)
    if content == "base+num":
        told = _old_traj(case, max(nf, 3), na, False)
        _produce_at(d, path, ext, told[0], "save")
        pre.append(path)
        for k in range(1, told.n_frames + 1):
            q = _numbered(path, k, told.n_frames)
            _produce(q + "." + ext, ext, told[k - 1], "save", True)
            os.rename(q + "." + ext, q)
            pre.append(q)
        return pre, None
    if content == "base-only":
        told = _old_traj(case, nf, na, False)
        _produce_at(d, path, ext, told[0], "save")
        return [path], None
    if content in ("num-same", "num-longer", "num-width2"):
        told = _old_traj(case, nf, na, False)
        if told.n_frames == 1:
            told = files.ident_traj(2, told.n_atoms, cell="ortho", f0=F0_OLD)
        return _produce_at(d, path, ext, told, "save"), None
    if content in ("num-junk", "num-junk-short"):
        for k in range(1, nf + 1):
            q = _numbered(path, k, nf)
            with open(q, "wb") as f:
                f.write(_junk(marker, content.endswith("short")))
            pre.append(q)
        return pre, marker
    if content in ("num-first", "num-mid", "num-last", "num-two", "num-subset"):
        ks = {"num-first": [1], "num-mid": [(nf + 1) // 2 if nf > 2 else nf], "num-last": [nf], "num-two": [1, nf]}.get(content)
        if ks is None:
            ks = [k for k in range(1, nf + 1) if case["mask"] >> (k - 1) & 1]
        told = _old_traj(case, nf, na, False)
        for k in sorted(set(ks)):
            q = _numbered(path, k, nf)
            if case.get("junk"):
                with open(q, "wb") as f:
                    f.write(_junk(marker))
            else:
                _produce(q + "." + ext, ext, told[k - 1], "save", True)
                os.rename(q + "." + ext, q)
            pre.append(q)
        return pre, (marker if case.get("junk") else None)
    raise AssertionError(content)


def _layout(ext, content):
    if content == "none":
        return "dangling-symlink"
    if ALLEXT[ext].get("tree"):
        return "regular-file-at-path" if content == "junkfile" else "directory"
    if content == "dir":
        return "directory-at-file-path"
    if content.startswith("num-"):
        return "numbered-files"
    if content == "base+num":
        return "base+numbered-files"
    if content == "base-only":
        return "base-only"
    return "file"


def _case_dir(case):
    base = _TMP or tempfile.mkdtemp(prefix="c20-", dir="/var/tmp")
    d = os.path.join(base, "k%d" % case.get("i", 0))
    if os.path.exists(d):
        shutil.rmtree(d)
    os.mkdir(d)
    return d


def run_case(case, ctx):
    if case["op"] == "strace":
        return _run_strace(case, ctx)
    d = _case_dir(case)
    cwd = os.getcwd()
    try:
        if case["op"] == "ow":
            _run_overwrite(case, ctx, d)
        elif case["op"] == "badmode":
            _run_badmode(case, ctx, d)
        elif case["op"] == "append":
            _run_append(case, ctx, d)
        elif case["op"] == "seq":
            _run_seq(case, ctx, d)
        elif case["op"] == "defaults":
            _run_defaults(case, ctx)
        else:
            _run_read(case, ctx, d)
    finally:
        _AUD["armed"] = False
        os.chdir(cwd)
        _unlock(d)
        shutil.rmtree(d, ignore_errors=True)


def _forbidden(events, watched_top):
    """audit events that touch a pre-existing path (or anything inside a pre-existing directory) in a write-ish way"""
    bad = []
    for ev, p, info in events:
        if ev == "open-read":
            continue
        for w in watched_top:
            if p == w or p.startswith(w + os.sep):
                bad.append((ev, p, info))
                break
    return bad


def _release(exc):
    """keep the exception for classification but let go of everything its traceback holds alive (frames, and through them
    the half-built file object of a refused call): what that object does when it is collected belongs to the call, so the
    collection must happen BEFORE the file system is compared"""
    import gc
    exc._verif_in_file_class = _raised_in_file_class(exc)
    exc.__traceback__ = None
    exc.__context__ = None
    exc.__cause__ = None
    gc.collect()
    return exc


def _raised_in_file_class(exc):
    """is the innermost mdtraj frame of the traceback inside mdtraj/formats (the file class), not trajectory.py?"""
    import traceback
    if hasattr(exc, "_verif_in_file_class"):
        return exc._verif_in_file_class
    inner = None
    for fr in traceback.extract_tb(exc.__traceback__):
        fn = fr.filename.replace(os.sep, "/")
        if "mdtraj/" in fn and "/vlib/" not in fn:
            inner = fn
    return bool(inner) and "mdtraj/formats/" in inner


def _form_name(form, ext):
    if form == "extupper":
        return "traj." + ext.upper()
    if form == "extmixed":
        return "traj." + ".".join(q.capitalize() if j == 0 else q.upper() for j, q in enumerate(ext.split(".")))
    return {"blank": "my traj (1) file." + ext, "unicode": "tr\u00e4j-\u03b2\u03b3." + ext, "upper": "Run_B-Traj." + ext,
            "multidot": "run.2024-01.v1.2.traj." + ext}.get(form, "traj." + ext)


def _call_path(form, dirpath, name):
    """the object handed to mdtraj for the canonical absolute path dirpath/name (may change the cwd; helper directories
    are created idempotently)"""
    path = os.path.join(dirpath, name)
    if form == "relative":
        os.chdir(dirpath)
        return name
    if form == "dotslash":
        os.chdir(dirpath)
        return "." + os.sep + name
    if form == "reldotdot":
        os.makedirs(os.path.join(dirpath, "cwd-sub"), exist_ok=True)
        os.chdir(os.path.join(dirpath, "cwd-sub"))
        return os.pardir + os.sep + name
    if form == "dotdot":
        os.makedirs(os.path.join(dirpath, "sub-x"), exist_ok=True)
        return os.sep.join([dirpath, "sub-x", os.pardir, name])
    if form == "dotmid":
        return os.sep.join([dirpath, os.curdir, name])
    if form == "dblslash":
        return dirpath + os.sep + os.sep + name
    if form == "trailsep":
        return path + os.sep
    if form == "tilde":
        os.environ["HOME"] = dirpath
        return "~" + os.sep + name
    if form == "envvar":
        os.environ["VERIF_C20_DIR"] = dirpath
        return "$VERIF_C20_DIR" + os.sep + name
    if form == "pathlib":
        return pathlib.Path(path)
    if form == "pathlike":
        return _PL(path)
    if form == "bytes":
        return os.fsencode(path)
    return path


def _with_form(form, dirpath, name, fn):
    cwd = os.getcwd()
    home = os.environ.get("HOME")
    try:
        if form in ("tilde", "envvar"):
            os.chdir(dirpath)  # a literal '~' or '$VAR' directory the call may create lands in the case directory
        return fn(_call_path(form, dirpath, name))
    finally:
        os.chdir(cwd)
        if home is None:
            os.environ.pop("HOME", None)
        else:
            os.environ["HOME"] = home
        os.environ.pop("VERIF_C20_DIR", None)


def _chmod_tree(paths, fmode, dmode):
    for p in paths:
        for q in reversed(_walk(p)):
            if not os.path.islink(q):
                os.chmod(q, dmode if os.path.isdir(q) else fmode)


def _unlock(d):
    """make everything under d writable again (read-only forms), so that the case directory can be removed"""
    try:
        for dd, ds, fs in os.walk(d):
            os.chmod(dd, 0o755)
    except OSError:
        pass


def _run_overwrite(case, ctx, d):
    ext, nf, content, entry = case["ext"], case["nf"], case["content"], case["entry"]
    style = case.get("style", "kw")
    fo_arg = case["fo"]
    m = ALLEXT[ext]
    na = case.get("na", NA_NEW)
    form = case.get("form", "plain")
    idx = case.get("i", 0)
    ctx.observe("extension", ext)
    ctx.observe("entry", entry)
    ctx.observe("content", content)
    if style != "kw":
        ctx.observe("force_overwrite_style", f"{entry}:{style}")
    if form != "plain":
        ctx.observe("path_form", form)
    single = bool(m.get("restart") or m.get("single"))
    if entry in ("open", "class") and single and nf > 1:
        ctx.skip("table", "a restart file object holds exactly one frame: (md.open, multi-frame) does not exist for rst7/ncrst/inpcrd/restrt")
        return
    if content == "num-mid" and nf < 3 or content == "num-two" and nf < 2:
        ctx.skip("table", "layout needs more frames")
        return
    fo = fo_arg
    if style == "default":
        # the entry point's own default decides which clause of the property the call falls under
        try:
            fo = _default_fo(ext, entry)
        except Exception as e:
            fo = None
            ctx.note(repr(e))
        if fo not in (True, False):
            ctx.skip("table", f"{ext}/{entry}: the default of force_overwrite cannot be read from the signature")
            return
        ctx.observe("pinned_default_force_overwrite", f"{entry}:{ALLEXT[ext]['kind']}={fo}")
    ctx.observe("force_overwrite", fo)
    fo_label = f"default({fo})" if style == "default" else str(fo)
    tnew = files.ident_traj(nf, na, cell="ortho", f0=0)
    name = _form_name(form, ext)
    base = d
    if form == "rodir":
        base = os.path.join(d, "ro")
        os.mkdir(base)
    path = os.path.join(base, name)
    real = path
    if form in ("symlink", "symlink-rel", "symlink-dangling", "hardlink"):
        real = os.path.join(base, "target." + ext)
    try:
        pre, marker = _make_preexisting(case, d, real, ext, nf, na)
    except Exception as e:
        ctx.skip("setup", f"pre-existing content could not be produced for {ext}/{content}: {type(e).__name__}")
        return
    if form in ("symlink", "symlink-dangling"):
        os.symlink(real, path)
        pre = pre + [path]
    elif form == "symlink-rel":
        os.symlink(os.path.basename(real), path)
        pre = pre + [path]
    elif form == "hardlink":
        os.link(real, path)
        pre = pre + [path]
    explicit_load = form in ("extupper", "extmixed")
    _with_form(form, base, name, lambda obj: None)  # helper directories of the form exist before the listing is taken
    outs = _outputs(path, ext, nf, entry)
    pre_set = set(pre)
    hit = [o for o in outs if o in pre_set]
    lay = _layout(ext, content)
    if m.get("tree") and form in ("symlink", "symlink-rel"):
        lay = "symlink-to-directory"
    not_the_file = form == "trailsep" and not m.get("tree")
    if form != "plain":
        lay += f"[{FORMS[form]}]"
    ename = (m["saver"] if entry == "saver" else entry) + ("" if style == "kw" else f"[{style}]")
    tag = f"{ext}:{ename}:force_overwrite={fo_label}:{lay}"
    what = (f"{ext} {entry}(force_overwrite={fo_label}{'' if style in ('kw', 'default') else ' passed as ' + style}), {nf} frame(s) x {na} atoms "
            f"over pre-existing '{content}' ({len(pre)} path(s)){'' if form == 'plain' else ', path form ' + form}")

    def call(dirpath, fo_):
        return _with_form(form, dirpath, name, lambda obj: _produce(obj, ext, tnew, entry, fo_, style))

    def lock():
        if form == "rofile":
            _chmod_tree(pre, 0o444, 0o555)
        elif form == "rodir":
            os.chmod(base, 0o555)

    def unlock():
        if form == "rodir":
            os.chmod(base, 0o755)

    if form in ("rofile", "rodir"):
        ctx.observe("read_only_forms_run_as", "root (permission bits do not bind)" if _ROOT else "unprivileged user")

    if fo is False:
        # control: the same call on a fresh sibling path must succeed, otherwise an error cannot be attributed to the
        # existing file (missing optional dependency, a path the native layer cannot encode, ...)
        os.mkdir(os.path.join(d, "ctl"))
        control = None
        try:
            call(os.path.join(d, "ctl"), fo_arg)
        except Exception as e:
            control = _release(e)
        misplaced = control is None and entry in ("save", "saver") and not all(
            os.path.lexists(r) for r in _outputs(os.path.join(d, "ctl", name), ext, nf, entry))
        lock()
        _age(pre)
        before = _snapshot(pre)
        listing0 = sorted(os.listdir(base))
        _arm(d, pre, idx)
        raised = None
        try:
            call(base, fo_arg)
        except Exception as e:
            raised = _release(e)
        events = _disarm(idx)
        unlock()
        created = sorted(set(os.listdir(base)) - set(listing0))
        changes = _diff(before)
        bad = _forbidden(events, pre)
        if form == "symlink-dangling":
            # opening the link for writing creates its target; only operations on the link itself (remove, rename) count
            bad = [b for b in bad if b[0] != "open-write"]
        if changes:
            fields = sorted({f for _, f in changes})
            ctx.violation("fo=False.unchanged", f"{tag}:modified",
                          f"{what}: pre-existing path changed [{'+'.join(fields)}] ({'; '.join(os.path.basename(p) + ':' + f for p, f in changes[:6])}); call "
                          f"{'raised ' + type(raised).__name__ if raised else 'did not raise'}", events=[list(e) for e in events[:12]])
        else:
            ctx.ok("fo=False.unchanged", len(before))
        if not_the_file and bad and all(b[0] == "open-write" for b in bad):
            ctx.skip("fo=False.audit", "a trailing separator after a regular file's name: the open-for-writing the audit hook sees names 'file/' and is "
                                       "refused by the operating system (ENOTDIR) without touching the file (snapshot monitor)")
        elif bad:
            ctx.violation("fo=False.audit", f"{tag}:audit[{'+'.join(sorted({e for e, _, _ in bad}))}]",
                          f"{what}: write-ish operation on a pre-existing path seen by the audit hook: {bad[:4]}")
        else:
            ctx.ok("fo=False.audit")
        ctx.observe("audit_events_fo=False", len(events))
        if not_the_file:
            ctx.skip("fo=False.raises", "a trailing separator after a regular file's name does not name the file (os.path.exists is false, any open fails with "
                                        "ENOTDIR): outside 'a path that already exists'; the file is monitored for modification")
            ctx.observe("fo=False_trailing_separator_call", "raised " + type(raised).__name__ if raised else "did not raise")
        elif misplaced:
            ctx.skip("fo=False.raises", f"{ext}/{entry}: on a fresh path the call returns but its output is not at os.fspath(path) (path form {form}): what "
                                        "pre-exists is not a path this call writes; where a save lands is C01's subject")
            ctx.observe("fresh_path_output_not_at_fspath", f"{m['kind']}:{entry}:{form}")
        elif form in ("tilde", "envvar"):
            ctx.skip("fo=False.raises", "a '~' / '$VAR' spelling names the existing file only after an expansion mdtraj does not perform: the literal path "
                                        "does not exist, so no refusal is required; the file it would expand to is monitored for modification")
            ctx.observe("fo=False_shell_spelling_call", "raised " + type(raised).__name__ if raised else "did not raise")
        elif form == "symlink-dangling":
            ctx.skip("fo=False.raises", "a dangling symbolic link at the path: no existing FILE can be modified (os.path.exists is false); whether the "
                                        "link counts as 'a path that already exists' is not said - the link itself is monitored")
            ctx.observe("fo=False_dangling_symlink_call", "raised" if raised else "did not raise (wrote through the link)")
        elif not hit:
            ctx.skip("fo=False.raises", f"{lay}: no path the call writes pre-exists (multi-frame restart output goes to path.N) - outside 'a path that already exists'")
            ctx.observe("fo=False_no_output_preexists_call", "raised" if raised else "did not raise")
        elif raised is None:
            ctx.violation("fo=False.raises", f"{tag}:no-error", f"{what}: the call returned without raising; created {created}")
        elif control is not None:
            ctx.skip("fo=False.raises", f"{ext}: the same call fails on a fresh path too ({type(control).__name__}): the error is not attributable to the existing file")
            ctx.observe("refused_on_fresh_path_too", f"{form}:{entry}:{type(control).__name__}")
        else:
            ctx.ok("fo=False.raises")
            ctx.observe("error_type", type(raised).__name__)
            if created:
                ctx.observe("partial_output_created_before_refusal", lay)
        return

    # ------------------------------------------------------------------ force_overwrite=True
    refdir = os.path.join(d, "ref")
    os.mkdir(refdir)
    ref1 = os.path.join(refdir, "r1", name)
    ref2 = os.path.join(refdir, "r2", name)
    os.mkdir(os.path.dirname(ref1))
    os.mkdir(os.path.dirname(ref2))
    try:
        call(os.path.dirname(ref1), fo_arg)
    except Exception as e:
        ctx.skip("fo=True", f"{ext}/{entry}: the new content cannot be written even to a fresh path ({type(e).__name__}): outside the domain")
        ctx.observe("refused_on_fresh_path_too", f"{form}:{entry}:{type(e).__name__}")
        return
    if not all(os.path.lexists(r) for r in _outputs(ref1, ext, nf, entry)):
        ctx.skip("fo=True", f"{ext}/{entry}: on a fresh path the call returns but the output is not at os.fspath(path) (path form {form}): where a "
                            "save lands is C01's subject, outside the domain")
        ctx.observe("fresh_path_output_not_at_fspath", f"{m['kind']}:{entry}:{form}")
        return
    lock()
    _age(pre)
    before = _snapshot(pre)
    _arm(d, pre, idx)
    raised = None
    try:
        call(base, fo_arg)
    except Exception as e:
        raised = _release(e)
    events = _disarm(idx)
    unlock()
    how = sorted({e for e, p, _ in _forbidden(events, pre)})
    ctx.observe("replace_method_python_level", "+".join(how) if how else "native-only")
    if raised is not None and isinstance(raised, PermissionError) and form in ("rofile", "rodir") and not _ROOT:
        ctx.skip("fo=True", "the operating system refuses to replace a read-only file / write into a read-only directory: not mdtraj's decision")
        if _diff(before):
            ctx.violation("fo=True.no-error", f"{tag}:raises-and-modifies", f"{what}: raised PermissionError after modifying the old content")
        return
    if raised is not None and content == "dir":
        # a directory where a file is to be written is outside the quantifier (directory: dtr only); it must not be half-destroyed
        # overwriting WAS requested, so nothing the call does to the directory contradicts the property; what happened is recorded
        ch = _diff(before)
        ctx.skip("fo=True", "a directory (or a link to one) at the path of a single-file format, overwriting requested: the call raised; outside the "
                            "quantifier (directory: dtr only)")
        ctx.observe("fo=True_directory_at_file_path", f"{m['kind']}:{form}:raised {type(raised).__name__}, " +
                    ("left intact" if not ch else "changed " + "+".join(sorted({os.path.basename(q) + ":" + f for q, f in ch}))[:80]))
        return
    if raised is not None:
        unchanged = not _diff(before)
        if _raised_in_file_class(raised):
            # the refusal comes from the format's file class, which all three entry points construct: one mechanism, one key
            tag = f"{ext}:fileobject:force_overwrite={fo}:{lay}"
        ctx.violation("fo=True.no-error", f"{tag}:raises:{type(raised).__name__}",
                      f"{what}: overwriting was requested but the call raised {type(raised).__name__}: {str(raised)[:160]}; old content "
                      f"{'left intact' if unchanged else 'MODIFIED'}")
        if not unchanged:
            ctx.violation("fo=True.no-error", f"{tag}:raises-and-modifies", f"{what}: raised {type(raised).__name__} after modifying the old content")
        return
    ctx.ok("fo=True.no-error")
    call(os.path.dirname(ref2), fo_arg)
    refouts1 = _outputs(ref1, ext, nf, entry)
    refouts2 = _outputs(ref2, ext, nf, entry)
    bmode = m["bytes"]
    top = tnew.topology
    for k, (o, r1, r2) in enumerate(zip(outs, refouts1, refouts2)):
        fr = slice(k, k + 1) if len(outs) > 1 else slice(None)
        if not os.path.lexists(o):
            ctx.violation("fo=True.loads-new", f"{tag}:output-missing", f"{what}: output {os.path.basename(o)} does not exist after the call")
            continue
        # content
        try:
            exp = _load(r1, ext, top, explicit_load)
        except Exception as e:
            ctx.skip("fo=True.loads-new", f"{ext}: the fresh reference cannot be loaded ({type(e).__name__}) - C01's subject")
            exp = None
        if exp is not None:
            try:
                got = _load(o, ext, top, explicit_load)
            except Exception as e:
                ctx.violation("fo=True.loads-new", f"{tag}:result-unloadable", f"{what}: result cannot be loaded ({type(e).__name__}: {str(e)[:120]}) while the same content on a fresh path can")
                got = None
            if got is not None:
                prob = []
                if got.xyz.shape != exp.xyz.shape:
                    prob.append(f"shape {got.xyz.shape} vs fresh {exp.xyz.shape}")
                elif not np.array_equal(got.xyz, exp.xyz):
                    prob.append("coordinates differ from the fresh file's")
                elif not np.array_equal(got.time, exp.time):
                    prob.append("times differ from the fresh file's")
                elif (got.unitcell_lengths is None) != (exp.unitcell_lengths is None) or (
                        exp.unitcell_lengths is not None and not (np.array_equal(got.unitcell_lengths, exp.unitcell_lengths)
                                                                  and np.array_equal(got.unitcell_angles, exp.unitcell_angles))):
                    prob.append("unit cell differs from the fresh file's")
                elif got.n_frames != tnew[fr].n_frames or got.n_atoms != na:
                    prob.append(f"{got.n_frames} frames x {got.n_atoms} atoms, new content has {tnew[fr].n_frames} x {na}")
                else:
                    f_id, a_id = files.identify(got.xyz)
                    want = (np.arange(nf)[fr]) % 40
                    if not np.array_equal(f_id[:, 0], want):
                        prob.append(f"frames identify as {f_id[:, 0].astype(int).tolist()[:6]}, new content is {want.tolist()[:6]}")
                if prob:
                    ctx.violation("fo=True.loads-new", f"{tag}:loads-old-or-mixed-content", f"{what}: {os.path.basename(o)}: " + "; ".join(prob))
                else:
                    ctx.ok("fo=True.loads-new")
        # dtr: the tree must be the fresh tree
        if m.get("tree"):
            t_o, t_r = _tree(o), _tree(r1)
            if t_o != t_r:
                ctx.violation("fo=True.tree", f"{tag}:stale-or-missing-entries-in-directory",
                              f"{what}: directory holds {t_o}, a fresh one {t_r}")
            else:
                ctx.ok("fo=True.tree")
        # size / bytes
        b_o, b_1, b_2 = (_masked(_bytes(x, bmode), bmode) for x in (o, r1, r2))
        if len(b_o) != len(b_1) and len(b_o) != len(b_2):
            ctx.violation("fo=True.size", f"{tag}:size-differs-from-fresh-file",
                          f"{what}: {os.path.basename(o)} has {len(b_o)} bytes{' (decompressed)' if bmode in ('gz', 'bz2') else ''}, the same content on a fresh path {len(b_1)}")
        else:
            ctx.ok("fo=True.size")
        if bmode == "content":
            ctx.skip("fo=True.bytes", "h5/nc embed creation metadata: content and size compared, not bytes")
        elif b_1 != b_2:
            ctx.skip("fo=True.bytes", "two fresh references written around the call differ (time-dependent content)")
        elif b_o != b_1:
            pos = next((j for j, (x, y) in enumerate(zip(b_o, b_1)) if x != y), min(len(b_o), len(b_1)))
            ctx.violation("fo=True.bytes", f"{tag}:bytes-differ-from-fresh-file", f"{what}: {os.path.basename(o)} differs from the fresh file at byte {pos}")
        else:
            ctx.ok("fo=True.bytes")
        # marker
        if marker is not None and o in pre_set or marker is not None and m.get("tree"):
            if marker in _bytes(o, bmode if bmode in ("gz", "bz2") else "raw"):
                ctx.violation("fo=True.marker-absent", f"{tag}:old-bytes-survive", f"{what}: the marker of the old content is still in {os.path.basename(o)}")
            else:
                ctx.ok("fo=True.marker-absent")
    if form in ("symlink", "symlink-rel", "hardlink") and os.path.lexists(real) and not m.get("tree"):
        # replacing by unlink+create leaves the other name with the old content, writing through replaces both: either way
        # the path that was saved to holds the new content only (checked above); recorded, not judged
        try:
            kept = _bytes(real, "raw") != _bytes(path, "raw")
        except OSError:
            kept = None
        ctx.observe("fo=True_other_name_of_linked_file", f"{m['kind']}:{form}:{'keeps old content' if kept else 'replaced too'}")
        return
    stale = [p for p in pre if p not in set(outs) and os.path.lexists(p) and not (m.get("tree"))]
    if stale:
        ctx.skip("fo=True.stale-numbered", "pre-existing numbered/base files that are not outputs of the new save survive; the statement does not say "
                                           "whether the numbered set is one unit", len(stale))
        ctx.observe("stale_numbered_survivors", lay, len(stale))


# --------------------------------------------------------------------------------------------------------------------
# further write-side classes: undocumented mode strings, HDF5 append, same-process sequences, documented defaults
def _setup_same(case, d, ext, nf, na):
    path = os.path.join(d, "traj." + ext)
    c = dict(case, content="same")
    pre, _ = _make_preexisting(c, d, path, ext, nf, na)
    return path, pre


def _run_badmode(case, ctx, d):
    """a mode string that is neither 'r' nor a documented write mode, force_overwrite=False: whatever the entry point
    answers, the existing file stays as it is"""
    import mdtraj as md
    ext, mode, entry = case["ext"], case["mode"], case["entry"]
    m = ALLEXT[ext]
    idx = case.get("i", 0)
    ctx.observe("extension", ext)
    ctx.observe("bad_mode", repr(mode))
    if m["kind"] == "h5" and mode == "a":
        ctx.skip("table", "mode 'a' is a documented mode of the HDF5 file class (append cases)")
        return
    try:
        path, pre = _setup_same(case, d, ext, 1, NA_NEW)
    except Exception as e:
        ctx.skip("setup", f"pre-existing content could not be produced for {ext}: {type(e).__name__}")
        return
    _age(pre)
    before = _snapshot(pre)
    _arm(d, pre, idx)
    raised = None
    try:
        if entry == "open":
            f = md.open(path, mode, force_overwrite=False)
        else:
            f = _cls(m["kind"])(path, mode=mode, force_overwrite=False)
        f.close()
        del f
    except Exception as e:
        raised = _release(e)
    events = _disarm(idx)
    tag = f"{ext}:{entry}:mode={mode!r}:force_overwrite=False"
    changes = _diff(before)
    if changes:
        ctx.violation("fo=False.unchanged", f"{tag}:modified", f"{ext} {entry}(mode={mode!r}, force_overwrite=False) on an existing file changed it "
                      f"[{'+'.join(sorted({f for _, f in changes}))}]; call {'raised ' + type(raised).__name__ if raised else 'did not raise'}")
    else:
        ctx.ok("fo=False.unchanged", len(before))
    bad = _forbidden(events, pre)
    if bad:
        ctx.violation("fo=False.audit", f"{tag}:audit[{'+'.join(sorted({e for e, _, _ in bad}))}]",
                      f"{ext} {entry}(mode={mode!r}, force_overwrite=False): write-ish operation on the existing file: {bad[:4]}")
    else:
        ctx.ok("fo=False.audit")
    ctx.observe("bad_mode_outcome", "returned a handle" if raised is None else type(raised).__name__)


def _run_append(case, ctx, d):
    """HDF5 mode 'a' ("'a' will append to an existing file"): the old frames are kept whatever force_overwrite says"""
    import mdtraj as md
    ext, entry, fo, nf, na = case["ext"], case["entry"], case["fo"], case["nf"], case.get("na", NA_NEW)
    ctx.observe("extension", ext)
    ctx.observe("append_entry", f"{entry}:force_overwrite={'default' if fo is None else fo}")
    told = files.ident_traj(4, na, cell="ortho", f0=F0_OLD)
    tnew = files.ident_traj(nf, na, cell="ortho", f0=0)
    path = os.path.join(d, "traj." + ext)
    try:
        told.save(path)
    except Exception as e:
        ctx.skip("setup", f"pre-existing content could not be produced for {ext}: {type(e).__name__}")
        return
    kw = {} if fo is None else {"force_overwrite": fo}
    tag = f"{ext}:{'save_hdf5' if entry == 'saver' else entry}:mode='a':force_overwrite={'default' if fo is None else fo}"
    try:
        if entry == "saver":
            tnew.save_hdf5(path, mode="a", **kw)
        else:
            f = md.open(path, "a", **kw) if entry == "open" else _cls("h5")(path, "a", **kw)
            try:
                f.write(coordinates=tnew.xyz, time=tnew.time, cell_lengths=tnew.unitcell_lengths, cell_angles=tnew.unitcell_angles)
            finally:
                f.close()
    except Exception as e:
        ctx.skip("append.keeps-old", f"the append call raised {type(e).__name__} (refusal; the file is checked by the other cases)")
        ctx.observe("append_outcome", type(e).__name__)
        return
    got = md.load(path)
    f_id, _ = files.identify(got.xyz)
    want = np.concatenate([np.arange(4) + F0_OLD, np.arange(nf)]) % 40
    if got.n_frames != 4 + nf or not np.array_equal(f_id[:, 0], want):
        ctx.violation("append.keeps-old", f"{tag}:old-frames-not-retained",
                      f"appending {nf} frame(s) to 4 old ones: the file now holds {got.n_frames} frames identifying as {f_id[:, 0].astype(int).tolist()[:8]}, expected {want.tolist()}")
    else:
        ctx.ok("append.keeps-old")
    ctx.observe("append_outcome", "appended")


def _run_seq(case, ctx, d):
    """the existing file is one this very process wrote a moment ago through the same entry point (nothing may be
    remembered about the path from before), or a read handle on it is still open"""
    import mdtraj as md
    ext, entry, variant, nf, na = case["ext"], case["entry"], case["variant"], case["nf"], case.get("na", NA_NEW)
    m = ALLEXT[ext]
    idx = case.get("i", 0)
    ctx.observe("extension", ext)
    ctx.observe("entry", entry)
    ctx.observe("sequence", variant)
    single = bool(m.get("restart") or m.get("single"))
    if entry in ("open", "class") and single and nf > 1:
        ctx.skip("table", "a restart file object holds exactly one frame")
        return
    told = files.ident_traj(nf, na, cell="ortho", f0=F0_OLD)
    tnew = files.ident_traj(nf, na, cell="ortho", f0=0)
    path = os.path.join(d, "traj." + ext)
    os.mkdir(os.path.join(d, "ctl"))
    try:
        _produce(os.path.join(d, "ctl", "traj." + ext), ext, tnew, entry, False, write=True)  # control
        _produce(path, ext, told, entry, False, write=True)  # first call: nothing exists, must go through
    except Exception as e:
        ctx.skip("setup", f"{ext}/{entry}: force_overwrite=False on a fresh path fails ({type(e).__name__}): outside the domain")
        return
    pre = [o for o in _outputs(path, ext, nf, entry) if os.path.lexists(o)]
    if not pre:
        ctx.skip("setup", f"{ext}/{entry}: the first call produced no file")
        return
    handle = None
    if variant == "read-handle-open":
        try:
            okw = {"n_atoms": na} if m["kind"] == "mdcrd" else {}
            handle = md.open(pre[0], **okw)
        except Exception as e:
            ctx.skip("setup", f"{ext}: no read handle through md.open ({type(e).__name__})")
            return
    try:
        _age(pre)
        before = _snapshot(pre)
        _arm(d, pre, idx)
        raised = None
        try:
            _produce(path, ext, tnew, entry, False)
        except Exception as e:
            raised = _release(e)
        events = _disarm(idx)
    finally:
        if handle is not None:
            handle.close()
    lay = {"created-now": "file-created-by-the-same-process", "read-handle-open": "file-held-open-for-reading"}[variant]
    tag = f"{ext}:{m['saver'] if entry == 'saver' else entry}:force_overwrite=False:{lay}"
    what = f"{ext} {entry}(force_overwrite=False) a second time on the output of the first call ({variant}, {nf} frame(s))"
    changes = _diff(before)
    if changes:
        ctx.violation("fo=False.unchanged", f"{tag}:modified", f"{what}: existing path changed [{'+'.join(sorted({f for _, f in changes}))}]; call "
                      f"{'raised ' + type(raised).__name__ if raised else 'did not raise'}")
    else:
        ctx.ok("fo=False.unchanged", len(before))
    bad = _forbidden(events, pre)
    if bad:
        ctx.violation("fo=False.audit", f"{tag}:audit[{'+'.join(sorted({e for e, _, _ in bad}))}]", f"{what}: write-ish operation seen by the audit hook: {bad[:4]}")
    else:
        ctx.ok("fo=False.audit")
    if raised is None:
        ctx.violation("fo=False.raises", f"{tag}:no-error", f"{what}: the call returned without raising")
    else:
        ctx.ok("fo=False.raises")
        ctx.observe("error_type", type(raised).__name__)


def _run_defaults(case, ctx):
    """what the docstring of an entry point promises for an omitted force_overwrite against what the signature does
    (the behaviour under the signature default is exercised by the style='default' cases)"""
    import mdtraj as md
    seen = set()
    targets = [("md.open", md.open), ("Trajectory.save", md.Trajectory.save)]
    for ext, m in ALLEXT.items():
        if "saver" in m:
            targets.append(("Trajectory." + m["saver"], getattr(md.Trajectory, m["saver"])))
        try:
            targets.append((CLASSES[m["kind"]], _cls(m["kind"])))
        except Exception:
            continue
    for name, fn in targets:
        if name in seen:
            continue
        seen.add(name)
        sig = None
        for nm, dv in _sig_params(fn):
            if nm == "force_overwrite":
                sig = dv
        doc = _documented_default(fn)
        ctx.observe("force_overwrite_default", f"{name}: signature={sig} documented={doc}")
        if sig is None or doc is None:
            ctx.skip("default.documented", "the docstring states no default for force_overwrite (or the entry point has no such parameter)")
        elif sig != doc:
            ctx.violation("default.documented", f"{name}:force_overwrite-default:documented={doc}:actual={sig}",
                          f"{name}: the docstring says force_overwrite defaults to {doc}, the signature default is {sig}: a caller who relies on the "
                          f"documentation and omits the argument {'has an existing file overwritten without having asked for it' if sig else 'is refused'}")
        else:
            ctx.ok("default.documented")


# --------------------------------------------------------------------------------------------------------------------
# read-only clause
def _read_file(case, d):
    """-> (path, ext, top or None, n_frames, n_atoms)"""
    import mdtraj as md
    fmt = case["fmt"]
    if case["src"] == "testdata":
        src = os.path.join(DATA, fmt)
        fmt = {"ncinpcrd.rst7": "ncinpcrd.ncrst", "inpcrd": "inpcrd.inpcrd"}.get(fmt, fmt)
        dst = os.path.join(d, fmt)
        if os.path.isdir(src):
            shutil.copytree(src, dst)
        else:
            shutil.copy(src, dst)
        ext = fmt.split(".", 1)[1]
        top = None
        if ext in ("xtc", "trr", "dcd", "nc", "mdcrd", "lammpstrj", "xyz", "xyz.gz", "dtr", "rst7"):
            ref = {"ncinpcrd.ncrst": None, "mdcrd.nc": None, "test_good.nc": None, "tip3p_300K_1ATM.xtc": "tip3p_300K_1ATM.pdb"}.get(fmt, "native.pdb")
            top = md.load_topology(os.path.join(DATA, ref)) if ref else None
        return dst, ext, top, None, (top.n_atoms if top is not None else None)
    n = case.get("n", 5)
    if fmt == "arc":
        dst = os.path.join(d, "4waters.arc")
        shutil.copy(os.path.join(DATA, "4waters.arc"), dst)
        return dst, "arc", None, None, None
    m = ALLEXT[fmt]
    single = bool(m.get("restart") or m.get("single"))
    t = files.ident_traj(1 if single else n, 12, cell="ortho")
    path = os.path.join(d, "read." + fmt)
    _produce(path, fmt, t, "open" if fmt in OPEN_EXTRA else "save", True)
    return path, fmt, (None if m.get("self_top") else t.topology), t.n_frames, 12


def _fd_scan(path):
    """open file descriptors of this process that point at `path` (or into it, for dtr) with their open flags:
    sees native fopen()/open() handles that the audit hook cannot, as long as the handle is alive"""
    out = []
    rp = os.path.realpath(os.fspath(path))
    for fd in os.listdir("/proc/self/fd"):
        try:
            t = os.readlink("/proc/self/fd/" + fd)
            if t == rp or t.startswith(rp + os.sep):
                with open("/proc/self/fdinfo/" + fd) as f:
                    for line in f:
                        if line.startswith("flags:"):
                            out.append(int(line.split()[1], 8))
        except OSError:
            continue
    return out


# The TRR reader overflows a heap buffer when stride > 1 is combined with an atom subset (known finding of C02; it
# corrupts the heap of the worker, which then dies at an unrelated case).  That option combination is therefore not
# generated for trr here; stride and atom_indices are exercised separately.
_TRR_HAZARD = "trr + stride>1 + atom_indices"


def _read_entry(case, path, ext, top, n, na, note):
    import mdtraj as md
    entry = case["entry"]
    kw = {} if top is None else {"top": top}
    okw = {"n_atoms": na} if ext in ("mdcrd", "crd") else {}
    bound = (n or 600) + 3
    kind = ALLEXT[ext]["kind"] if ext in ALLEXT else ext
    if entry in ("load_fn", "load_fn-opts"):
        from mdtraj.formats.registry import FormatRegistry
        fn = FormatRegistry.loaders["." + ext]  # md.load_xtc, load_pdb, load_gro, load_restrt, ... : what md.load dispatches to
        if kind == "h5":
            kw = {}  # load_hdf5 takes no top=
        if entry == "load_fn":
            fn(path, **kw)
        elif ext == "trr":  # see _TRR_HAZARD
            fn(path, stride=3, **kw)
        else:
            fn(path, stride=3, atom_indices=np.array([2, 0]), **kw)
        return
    if entry == "load-frame-kw":
        md.load(path, frame=(n or 2) // 2, **kw)
        return
    if entry == "load-topfile":
        md.load(path, top=case["_topfile"])
        md.load_frame(path, 0, top=case["_topfile"])
        return
    if entry == "class-r":
        cls = _cls(kind) if kind in CLASSES else md.formats.ArcTrajectoryFile
        args = _positional(cls, True, mode="r")
        if kind == "mdcrd":
            args[0] = na
        f = cls(path, *args)  # mode and force_overwrite=True positionally: a read must not care
        note(("fd", _fd_scan(path)))
        try:
            f.read()
        finally:
            f.close()
        return
    if entry == "open-r-fo":
        f = md.open(path, "r", force_overwrite=True, **okw)
        note(("fd", _fd_scan(path)))
        try:
            f.read()
        finally:
            f.close()
        return
    if entry == "open-nothing":
        with md.open(path, **okw):
            note(("fd", _fd_scan(path)))
        return
    if entry in ("open-seek-whence", "open-offsets", "open-past-eof") and kind not in ("pdb", "pdbx", "rst7", "ncrst"):
        with md.open(path, **okw) as f:
            note(("fd", _fd_scan(path)))
            if entry == "open-seek-whence":
                f.read(1)
                f.seek(1, 1)
                f.tell()
                f.seek(-1, 2)
                f.read()
                f.seek(0, 0)
                f.read(1)
            elif entry == "open-offsets":
                getattr(f, "offsets", None)
                getattr(f, "n_atoms", None)
                len(f)
                getattr(f, "offsets", None)
            else:
                f.read()
                f.read()
                f.read(1)
        return
    if entry in ("open-seek-whence", "open-offsets", "open-past-eof"):
        entry = "open-read"
    if entry.startswith("open-") and kind in ("pdb", "pdbx"):
        f = md.open(path)  # the PDB/PDBx file object parses in its constructor and exposes positions/topology
        note(("fd", _fd_scan(path)))
        try:
            f.positions, f.topology, f.unitcell_lengths
            len(f) if entry == "open-len" else None
        finally:
            if entry != "open-noclose":
                f.close()
        return
    if entry.startswith("open-") and kind in ("rst7", "ncrst") and entry != "open-read_as_traj":
        f = md.open(path)  # restart file objects: read(atom_indices=None) only, no cursor
        note(("fd", _fd_scan(path)))
        f.read()
        if entry == "open-cursor":
            f.read(atom_indices=np.array([0, 1]))
        if entry == "open-len":
            len(f)
        if entry != "open-noclose":
            f.close()
        return
    if entry == "load":
        md.load(path, **kw)
    elif entry == "load-stride-atoms":
        if ext == "trr":  # see _TRR_HAZARD
            md.load(path, stride=2, **kw)
            md.load(path, atom_indices=np.array([0, 2]), **kw)
        else:
            md.load(path, stride=2, atom_indices=np.array([0, 2]), **kw)
    elif entry == "load_frame-first":
        md.load_frame(path, 0, **kw)
    elif entry == "load_frame-last":
        md.load_frame(path, (n or 1) - 1, **kw)
    elif entry == "iterload-1":
        note(len(list(itertools.islice(md.iterload(path, chunk=1, **kw), bound))))
    elif entry == "iterload-2-stride2":
        list(itertools.islice(md.iterload(path, chunk=2, stride=2, **kw), bound))
    elif entry == "iterload-2-skip1":
        list(itertools.islice(md.iterload(path, chunk=2, skip=1, **kw), bound))
    elif entry == "iterload-0":
        list(itertools.islice(md.iterload(path, chunk=0, **kw), bound))
    elif entry == "iterload-grid":
        aik = {"atom_indices": np.array([1, 3, 4])} if case.get("ai") and not (ext == "trr" and case["stride"] > 1) else {}
        list(itertools.islice(md.iterload(path, chunk=case["chunk"], stride=case["stride"], skip=case["skip"], **aik, **kw), bound))
    elif entry == "load-list":
        md.load([path, path], **kw)
    elif entry == "load_topology":
        md.load_topology(path)
    elif entry == "open-read":
        with md.open(path, **okw) as f:
            note(("fd", _fd_scan(path)))
            f.read()
    elif entry == "open-cursor":
        with md.open(path, **okw) as f:
            f.read(1)
            note(("fd", _fd_scan(path)))
            f.seek(0)
            f.tell()
            f.read()
            f.seek(0)
            if ext == "trr":  # see _TRR_HAZARD
                f.read(2, stride=2)
            else:
                f.read(2, stride=2, atom_indices=np.array([0, 1]))
    elif entry == "open-len":
        with md.open(path, **okw) as f:
            len(f)
            note(("fd", _fd_scan(path)))
            f.read(1)
    elif entry == "open-read_as_traj":
        with md.open(path, **okw) as f:
            note(("fd", _fd_scan(path)))
            f.read_as_traj(top) if top is not None and kind != "h5" else f.read_as_traj()
    elif entry == "open-noclose":
        f = md.open(path, **okw)
        f.read(1)
        note(("fd", _fd_scan(path)))
        del f
    else:
        raise AssertionError(entry)


def _run_read(case, ctx, d):
    fmt, entry = case["fmt"], case["entry"]
    form = case.get("form", "plain")
    idx = case.get("i", 0)
    try:
        path, ext, top, n, na = _read_file(case, d)
    except Exception as e:
        ctx.skip("setup", f"read fixture for {fmt} could not be produced: {type(e).__name__}")
        return
    ctx.observe("read_format", ext if case["src"] == "mdtraj" else "testdata:" + fmt)
    ctx.observe("read_entry", entry)
    if form != "plain":
        ctx.observe("read_path_form", form)
    if entry == "load_topology" and (case["src"] == "mdtraj" or fmt in TESTDATA) and ext not in ("pdb", "pdb.gz", "pdbx", "cif", "h5", "gro", "arc"):
        ctx.skip("table", "md.load_topology is not offered for this extension")
        return
    pre = [path]
    case = dict(case)
    if entry == "load-topfile":
        if top is None:
            ctx.skip("table", "the format carries its own topology: md.load takes no top= file")
            return
        import mdtraj as md
        tf = os.path.join(d, "topology-file." + case.get("topfmt", "pdb"))
        try:
            md.Trajectory(np.zeros((1, top.n_atoms, 3), np.float32), top).save(tf)
        except Exception as e:
            ctx.skip("setup", f"topology file could not be produced: {type(e).__name__}")
            return
        case["_topfile"] = tf
        pre.append(tf)
        ctx.observe("read_topology_file_format", case.get("topfmt", "pdb"))
    # path forms of the read-only clause
    name = os.path.basename(path)
    if form in ("unicode", "extupper"):
        stem, _, e2 = name.partition(".")
        name = ("l\u00e4s \u03b2." + e2) if form == "unicode" else stem + "." + e2.upper()
        os.rename(path, os.path.join(d, name))
        path = os.path.join(d, name)
        pre[0] = path
    call_name, call_form = name, form
    if form == "symlink":
        call_name = "ln-" + name
        os.symlink(path, os.path.join(d, call_name))
        pre.append(os.path.join(d, call_name))
        call_form = "plain"
    elif form in ("rofile", "rodir", "unicode", "extupper"):
        call_form = "plain"
    _with_form(call_form, d, call_name, lambda obj: None)
    if form == "rofile":
        _chmod_tree(pre, 0o444, 0o555)
    _age(pre)
    os.utime(d, ns=(OLD_NS, OLD_NS))
    if form == "rodir":
        os.chmod(d, 0o555)
    before = _snapshot(pre)
    listing0 = sorted(os.listdir(d))
    dstat0 = os.stat(d)
    seen = []
    _arm(d, pre, idx)
    raised = None
    try:
        _with_form(call_form, d, call_name, lambda obj: _read_entry(case, obj, ext, top, n, na, seen.append))
    except BaseException as e:  # a reader that fails has still run on the file
        if isinstance(e, (KeyboardInterrupt, SystemExit)):
            raise
        raised = _release(e)
    events = _disarm(idx)
    dstat1 = os.stat(d)
    if form == "rodir":
        os.chmod(d, 0o755)
    lab = ext
    ename = re.sub(r"-.*", "", entry) if entry.startswith(("iterload", "load_frame")) else entry
    changes = _diff(before)
    if changes:
        fields = sorted({f for _, f in changes})
        ctx.violation("read.unchanged", f"{lab}:{ename}:file-modified",
                      f"reading {lab} through {entry} changed the file [{'+'.join(fields)}]: {[(os.path.basename(p), f) for p, f in changes[:6]]}")
    else:
        ctx.ok("read.unchanged", len(before))
    bad = _forbidden(events, pre)
    if bad:
        ctx.violation("read.audit", f"{lab}:{ename}:audit[{'+'.join(sorted({e for e, _, _ in bad}))}]",
                      f"reading {lab} through {entry} performed a write-ish operation on the file: {bad[:4]}")
    else:
        ctx.ok("read.audit")
    fds = [fl for x in seen if isinstance(x, tuple) and x[0] == "fd" for fl in x[1]]
    if entry.startswith("open-") or entry == "class-r":
        wr = [fl for fl in fds if (fl & os.O_ACCMODE) != os.O_RDONLY or fl & os.O_APPEND]
        if wr:
            ctx.violation("read.fdflags", f"{lab}:{ename}:descriptor-open-for-writing",
                          f"while a {lab} read handle ({entry}) is alive the process holds the file open with flags {[oct(x) for x in wr]}")
        elif fds:
            ctx.ok("read.fdflags", len(fds))
        ctx.observe("live_descriptors_on_the_file_while_handle_open", min(len(fds), 9))
    nr = sum(1 for e, p, _ in events if e == "open-read" and (p == path or p.startswith(path + os.sep)))
    ctx.observe("python_level_read_opens_of_the_file", min(nr, 9))
    listing1 = sorted(os.listdir(d))
    created = sorted(set(listing1) - set(listing0))
    if listing1 != listing0:
        ctx.observe("read_created_sidecar_files", lab)
        ctx.violation("read.no-sidecar", f"{lab}:{ename}:directory-listing-changed",
                      f"reading {lab} through {entry} changed the directory of the file: created {created}, removed {sorted(set(listing0) - set(listing1))}")
    elif (dstat1.st_mtime_ns, dstat1.st_mode) != (dstat0.st_mtime_ns, dstat0.st_mode):
        ctx.violation("read.no-sidecar", f"{lab}:{ename}:directory-touched",
                      f"reading {lab} through {entry} modified the directory of the file (an entry was created and removed again, or the mode changed)")
    else:
        ctx.ok("read.no-sidecar")
    wr_any = [(e, os.path.basename(p_)) for e, p_, _ in events if e != "open-read"]
    if wr_any:
        # python-level write-ish operation anywhere in the directory of the file (the watched paths have their own monitor)
        ctx.observe("read_python_level_writes_in_directory", f"{lab}:{ename}")
    if form in ("rofile", "rodir"):
        if _ROOT:
            ctx.skip("read.readonly-ok", "running as root: permission bits do not bind, a reader that asks for write access would not be refused "
                                         "(the descriptor-flag and snapshot monitors still apply)")
        elif isinstance(raised, PermissionError):
            ctx.violation("read.readonly-ok", f"{lab}:{ename}:read-needs-write-permission[{form}]",
                          f"reading a {lab} file that is read-only ({form}) through {entry} fails with PermissionError: {str(raised)[:120]}")
        else:
            ctx.ok("read.readonly-ok")
    ctx.observe("read_call_outcome", "returned" if raised is None else type(raised).__name__)


# --------------------------------------------------------------------------------------------------------------------
# strace group (thorough): a child process runs a slice of the reduced table under strace
_RX = re.compile(r'^(\d+\s+)?(?:<\.\.\. )?(\w+)\((.*)$')
_STR = re.compile(r'"((?:[^"\\]|\\.)*)"')


def _unescape(s):
    try:
        return s.encode("latin-1", "backslashreplace").decode("unicode_escape").encode("latin-1").decode("utf-8", "surrogateescape")
    except Exception:
        return s


def parse_strace(log):
    """-> {window index: [(syscall, [paths], flags-text)]} for write-ish syscalls inside marker windows"""
    out, cur = {}, None
    with open(log, errors="replace") as f:
        for line in f:
            mm = _RX.match(line)
            if not mm:
                continue
            sysc, rest = mm.group(2), mm.group(3)
            if "resumed>" in line[:60]:
                continue
            paths = [_unescape(s) for s in _STR.findall(rest)]
            if paths and paths[0].startswith("/c20-mark/"):
                _, _, tag, k = paths[0].split("/")
                cur = int(k) if tag == "B" else None
                if cur is not None:
                    out.setdefault(cur, [])
                continue
            if cur is None or not paths:
                continue
            if sysc in ("openat", "open") and not re.search(r"O_WRONLY|O_RDWR|O_CREAT|O_TRUNC|O_APPEND", rest):
                sysc = "open-readonly"
            out[cur].append((sysc, paths, rest[:200]))
    return out


def _run_strace(case, ctx):
    sub = [c for j, c in enumerate(_strace_table()) if j % case["parts"] == case["part"]]
    for j, c in enumerate(sub):
        c.update(i=j, seed=case.get("seed", 0))
    d = tempfile.mkdtemp(prefix="c20-strace-", dir="/var/tmp")
    try:
        spec, res, log = os.path.join(d, "spec.json"), os.path.join(d, "res.json"), os.path.join(d, "strace.log")
        with open(spec, "w") as f:
            json.dump(sub, f)
        probe = subprocess.run(["strace", "-f", "-o", os.path.join(d, "probe.log"), "-e", "trace=openat", "/bin/true"],
                               stdout=subprocess.PIPE, stderr=subprocess.STDOUT, text=True, timeout=60)
        if probe.returncode != 0:
            ctx.skip("strace", "strace/ptrace is not usable in this sandbox: " + probe.stdout.strip()[:120])
            ctx.observe("strace", "unavailable")
            return
        env = dict(os.environ, C20_TMP=d)
        cmd = ["strace", "-f", "-o", log, "-e", "trace=" + STRACE_SYSCALLS, sys.executable, "-u", "-m", "vlib.props.c20",
               "--strace-child", spec, res]
        p = subprocess.run(cmd, env=env, stdout=subprocess.PIPE, stderr=subprocess.STDOUT, text=True, timeout=1500,
                           cwd=os.path.dirname(os.path.dirname(os.path.dirname(os.path.abspath(__file__)))))
        if p.returncode != 0 or not os.path.exists(res):
            # the child's cases are a subset of the table the plain workers run, so a crash of mdtraj itself surfaces there
            ctx.skip("strace", f"the strace child did not complete (rc={p.returncode}); strace verdicts not available for this slice")
            ctx.note(p.stdout[-300:])
            ctx.observe("strace", "child-failed")
            return
        with open(res) as f:
            out = json.load(f)
        windows = parse_strace(log)
        ctx.observe("strace_windows", "seen", len(windows))
        st = {c[0] for c in windows.get(-1, []) if any(x.startswith(out["selftest"]) for x in c[1])}
        if not ({"openat", "open"} & st and {"rename", "renameat", "renameat2"} & st and {"unlink", "unlinkat"} & st):
            ctx.skip("strace", f"the strace log does not show the child's self-test write/rename/unlink (saw {sorted(st)}): strace verdicts not used")
            windows = {}
        else:
            ctx.ok("strace.selftest")
        # merge what the in-child monitors (snapshots + audit hook) decided
        for rec in out["records"]:
            for k, n in rec["ok"].items():
                ctx.ok(k, n)
            for k, n in rec["skips"].items():
                chk, _, reason = k.partition(": ")
                ctx.skip(chk, reason, n)
            for v in rec["violations"]:
                ctx.violation(v["check"], v["key"], v["what"])
        for w in out["windows"]:
            if w["i"] < 0:
                continue
            c = sub[w["i"]]
            calls = windows.get(w["i"])
            mon = "strace.fo=False" if c["op"] == "ow" else "strace.read"
            if calls is None:
                ctx.skip(mon, "marker window not found in the strace log")
                continue
            bad, ro = [], 0
            for sysc, paths, rest in calls:
                for pth in paths:
                    pa = os.path.normpath(pth) if os.path.isabs(pth) else None  # ('..' after a real directory, '//', './')
                    if pa is None:
                        continue
                    if any(pa == x or pa.startswith(x + os.sep) for x in w["watch"]):
                        if sysc == "open-readonly":
                            ro += 1
                        else:
                            bad.append((sysc, os.path.basename(pa), rest[:120]))
            ctx.observe("strace_syscalls_in_window", min(len(calls), 9))
            ctx.observe("strace_readonly_opens_of_watched_path:" + mon, min(ro, 9))
            if c["op"] == "read" and not bad and ro == 0:
                ctx.skip(mon, "no open of the file in the window (the entry point refused before touching it)")
                continue
            if bad:
                if c["op"] == "ow":
                    m = ALLEXT[c["ext"]]
                    key = (f"{c['ext']}:{m['saver'] if c['entry'] == 'saver' else c['entry']}:force_overwrite=False:"
                           f"{_layout(c['ext'], c['content'])}:strace[{'+'.join(sorted({b[0] for b in bad}))}]")
                else:
                    key = f"{c['fmt']}:{c['entry']}:strace[{'+'.join(sorted({b[0] for b in bad}))}]"
                ctx.violation(mon, key, f"{json.dumps({k: v for k, v in c.items() if k not in ('i', 'seed')})}: system calls on a pre-existing path: {bad[:4]}")
            else:
                ctx.ok(mon)
    finally:
        shutil.rmtree(d, ignore_errors=True)


def _child_main(spec, res):
    global _CHILD_WINDOWS, _TMP
    import warnings
    from vlib import overlay
    overlay.install()
    warnings.filterwarnings("ignore")
    np.seterr(all="ignore")
    from vlib.ctx import Ctx
    with open(spec) as f:
        sub = json.load(f)
    _TMP = os.environ["C20_TMP"]
    sys.addaudithook(_audit)
    _AUD["installed"] = True
    _CHILD_WINDOWS = []
    import mdtraj  # noqa: F401  (imported before the first window)
    selftest = os.path.join(_TMP, "strace-selftest")
    _CHILD_WINDOWS.append(dict(i=-1, watch=[selftest]))
    _mark("B", -1)
    open(selftest, "wb").close()
    os.rename(selftest, selftest + ".2")
    os.unlink(selftest + ".2")
    _mark("E", -1)
    records = []
    for c in sub:
        ctx = Ctx(PROPERTY, c)
        try:
            run_case(c, ctx)
        except Exception as e:
            ctx.violation("harness", "strace-child:unexpected-exception:" + type(e).__name__, repr(e)[:300])
        records.append(ctx.record())
    with open(res, "w") as f:
        json.dump(dict(records=records, windows=_CHILD_WINDOWS, selftest=selftest), f)
    return 0


if __name__ == "__main__":
    if len(sys.argv) == 4 and sys.argv[1] == "--strace-child":
        sys.exit(_child_main(sys.argv[2], sys.argv[3]))
