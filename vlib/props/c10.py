"""C10 — neighbour searches return exactly the atoms within the cutoff.

Technique: runtime monitoring.  The real `md.compute_neighborlist` / `md.compute_neighbors` run on generated frames
(uniform / clustered / on-voxel-boundary / on-cell-face / outside-the-primary-cell placements, every cell class of
`common.CELL_KINDS`, no cell, periodic=False, cutoff from 1e-3 nm to half the smallest cell width) and two independent
references observe every execution:

  * `md.compute_distances` on the same frame (the reference the property names; float32, judged itself by C05), and
  * a float64 minimum-image distance written from the definition: d - round(d B^-1) B.  For a pair whose true
    minimum-image distance is below w_min/2 (w_min = smallest perpendicular width of the cell B) every fractional
    component of the minimum image is below 1/2 in magnitude, so the rounded vector IS the minimum image; a pair whose
    rounded vector is >= w_min/2 long has a true distance >= w_min/2 >= cutoff.  Hence inside the stated domain
    (cutoff <= w_min/2) "rounded distance < cutoff" decides membership exactly.  `vlib.oracle.geom.min_image` (reduced
    basis, 125 images) re-derives a sample of those distances in every case (monitor `oracle.selfcheck`).

A pair is judged only when both references put it on the same side of the cutoff and neither lies in the ambiguity band
    band = max(1e-5, 14 * 2^-24 * max|coordinate|)
(1e-5 is the band of the statement; the second term is the float32 rounding of the code under observation: sqrt(3)
components x 4 roundings x half-ulp relative error 2^-24 of a raw displacement of up to 2 max|x| -- it exceeds 1e-5 only
for atoms pushed several cells away from the origin).  Everything in the band, everything outside the domain
(periodic and cutoff > w_min/2) is `skip`.

Monitors
  neighborlist.pairs        every unordered pair of the frame: reported <=> within the cutoff
  neighborlist.structure    list length, dtype, index range, irreflexive, duplicate-free, symmetric (raw output, no band)
  neighborlist.threads      OpenMP team sizes 1,2,3,5,8,16: per-atom neighbour sets identical to the first run
  neighbors.members         every haystack atom: reported <=> within the cutoff of a query atom other than itself
  neighbors.order           the reported atoms come in haystack order
  neighbors.structure       one array per frame, dtype, members of the haystack, duplicate-free
  oracle.selfcheck          float64 rounding oracle == brute-force image search on a sample of pairs

Violation keys name the mechanism.  Missing neighbour-list pairs are split by where the atoms of the frame sit relative
to the primary cell the voxel hash of neighborlist.cpp assumes (the brick 0<=z<c_z, 0<=y<b_y, 0<=x<a_x of the reduced
box vectors), because positions are hashed without being wrapped first:
  neighborlist:missing-pairs:atoms-outside-primary-cell         (some atom of the frame lies outside that brick)
  neighborlist:missing-pairs:skewed-c-vector-cutoff-above-third-of-c_z   (all atoms inside, reduced c vector has a y
                                     component, cutoff > c_z/3: three voxels along z, search range capped at nz/2 = 1)
  neighborlist:missing-pairs:atoms-inside-primary-cell:{ortho,triclinic}   (anything else)
When pairs are missing and atoms lie outside the brick, the same atoms are moved into it by lattice vectors and that
frame is judged as well (by its own references): clean there => the first key; still missing there => the key of the
moved frame (plus the first key only if the original frame lost strictly more pairs).  The position class / reduced box
are used for naming the mechanism and for generating inputs only, never for a verdict.

Workload notes: compute_neighborlist allocates (b_y/0.6c)*(c_z/0.6c) voxel bins, so for that entry point the "tiny"
cutoffs (1e-3 .. 3e-2 nm) are raised until the grid has at most MAXBINS bins (1e-3 is reached in the smallest cells
only; compute_neighbors gets the tiny cutoffs unchanged).  One case in twenty is pinned to the regime where the voxel
count along y or z switches from five to three (skewed cell, atoms inside the primary cell, cutoff 0.78..1.45 times
b_y/3 or c_z/3).
The thorough tier adds 3000-atom frames and 28x the cases.
"""
from __future__ import annotations

import ctypes

import numpy as np

from vlib.gen import common
from vlib.oracle import geom

PROPERTY = "C10"
LEVEL = "exploration"
NATIVE = ["mdtraj.geometry.neighbors", "mdtraj.geometry.neighborlist", "mdtraj.geometry._geometry"]
RULE = ("cases = (entry point, cell class or no-cell or periodic=False, placement class, cutoff mode, atom count, "
        "query/haystack subsets) from a seeded stream; a case is non-trivial when at least one pair/atom was decided "
        "against both references (compute_distances and the float64 minimum image); distinct = distinct descriptors; "
        "a second stream (w=1) varies argument containers and scalar types, the origin of the Trajectory object, per-frame "
        "cell patterns over up to 260 frames, cell scale, atom counts at SIMD widths, atoms +-50 cells away, call histories "
        "on one object, and sweeps OpenMP team sizes for compute_neighbors with more than 65536 query x haystack pairs")
WORKERS = {"quick": 8, "thorough": 16}
BUDGET = {"quick": 90, "thorough": 900}
ENV = {"OMP_WAIT_POLICY": "PASSIVE"}
FLOORS = {"quick": {"neighborlist.pairs": 4000000, "neighborlist.structure": 120, "neighborlist.threads": 150,
                    "neighbors.members": 12000, "neighbors.order": 100, "neighbors.structure": 130,
                    "oracle.selfcheck": 100000},
          "thorough": {"neighborlist.pairs": 400000000, "neighborlist.structure": 4000, "neighborlist.threads": 6000,
                       "neighbors.members": 500000, "neighbors.order": 4000, "neighbors.structure": 5000,
                       "oracle.selfcheck": 4000000}}
ASSUMPTIONS = [
    "haystack_indices are given without repetition (they denote a set of atoms); query_indices may repeat",
    "the cell widths of the domain condition are the perpendicular widths of traj.unitcell_vectors as reported",
    "compute_distances itself is judged by C05; a pair on which it disagrees with the float64 minimum image outside "
    "the band is skipped here (counted under 'references disagree')",
]

NCASES = {"quick": 2400, "thorough": 24000}
KINDS = ["nl", "nb", "nl", "nb", "nl", "nlt"]
CELLS = common.CELL_KINDS + ["none", "nonperiodic"]
PLACES = ["brick", "brick", "cell", "cluster", "voxel", "voxel", "faces", "shift1", "shift5"]
CUTMODES = ["tiny", "frac", "frac", "frac", "big", "half", "third", "thirdyz", "over"]
SKEWED = ["truncoct", "rhombdod", "rhombdod2", "triclinic"]
TEAMS = [1, 2, 3, 5, 8, 16]
DEFAULT_TEAM = 4
MAXBINS = 6.3e6


# ------------------------------------------------------------------------------------------------ generation
def _natoms(rng, tier, kind):
    r = rng.random()
    if r < 0.08:
        return int(rng.integers(1, 4))
    if r < 0.60:
        return int(rng.integers(4, 80))
    if r < 0.90:
        return int(rng.integers(80, 400))
    if tier == "thorough" and r > 0.985:
        return 3000
    return int(rng.integers(400, 1300))


# thorough tier: every 25-th case also runs in a worker whose extensions are ASan/UBSan-instrumented (vlib/sanitize.py)
ASAN_EVERY = {"quick": 0, "thorough": 25}
GROUPS = {"thorough": [dict(name="asan", flavour="asan", workers=2)]}


def gen_cases(tier, seed):
    from vlib.gen import common as _common
    return _common.with_asan_slice(_gen_cases(tier, seed), ASAN_EVERY[tier])


def _gen_cases(tier, seed):
    n = NCASES[tier]
    for i in range(n):
        rng = common.rng_for("C10", seed, i)
        kind = KINDS[i % len(KINDS)]
        cell = CELLS[(i // len(KINDS)) % len(CELLS)]
        place = PLACES[int(rng.integers(len(PLACES)))]
        cutmode = CUTMODES[int(rng.integers(len(CUTMODES)))]
        natoms = _natoms(rng, tier, kind)
        if i % 20 == 4:
            # boundary regime of the voxel grid: skewed cell, every atom inside the primary cell, cutoff just above
            # c_z/3 or b_y/3 (three voxels along that axis), enough atoms for pairs across the cell faces
            kind, cell, place, cutmode = "nl", SKEWED[(i // 20) % len(SKEWED)], "brick", "thirdyz"
            natoms = int(rng.integers(150, 500))
            if (i // 20) % 2:  # flat skewed cell (b_y > 2.2 c_z, c_y != 0): many y voxels, three z voxels
                cell, cutmode = "triclinic-flat", "thirdz"
        yield dict(i=i, seed=common.case_seed(seed, "C10", i), kind=kind, cell=cell, place=place,
                   cutmode=cutmode, n_atoms=natoms,
                   n_frames=int(rng.integers(1, 5)) if kind == "nb" else int(rng.integers(1, 4)),
                   perframe=bool(rng.random() < 0.4))


def reduce_like_openmm(B):
    """The reduction neighborlist.cpp / neighbors.cpp apply to the box (documented OpenMM reduced form), float64."""
    B = np.array(B, dtype=np.float64)
    B[2] = B[2] - B[1] * np.round(B[2, 1] / B[1, 1])
    B[2] = B[2] - B[0] * np.round(B[2, 0] / B[0, 0])
    B[1] = B[1] - B[0] * np.round(B[1, 0] / B[0, 0])
    return B


def _place(rng, place, na, B, cutoff, scale):
    """positions (na,3) float64.  B None => no cell (a box of edge `scale` with an arbitrary origin)."""
    if B is None:
        origin = rng.uniform(-2 * scale, 2 * scale, 3) if rng.random() < 0.7 else np.zeros(3)
        if place == "cluster":
            return origin + rng.normal(scale=max(cutoff, 1e-3) * rng.uniform(0.3, 1.5), size=(na, 3))
        if place == "voxel":  # exact multiples of the cutoff (= voxel edge without a cell)
            k = rng.integers(0, max(2, int(scale / max(cutoff, 0.05)) + 1), (na, 3))
            pos = origin + k * cutoff
            pos[:, 0] += rng.uniform(-cutoff, cutoff, na)
            return pos
        if place == "faces":  # planar / collinear sets: degenerate y or z extent
            pos = origin + rng.uniform(0, scale, (na, 3))
            pos[:, 2] = pos[0, 2]
            if rng.random() < 0.5:
                pos[:, 1] = pos[0, 1]
            return pos
        pos = origin + rng.uniform(0, scale, (na, 3))
        if place == "shift5":
            pos += 40.0
        return pos
    Br = reduce_like_openmm(B)
    ext = np.array([Br[0, 0], Br[1, 1], Br[2, 2]])
    if place == "brick":
        return rng.uniform(0, 1, (na, 3)) * ext
    if place == "cluster":
        centre = rng.uniform(0, 1, 3) @ B
        return centre + rng.normal(scale=max(cutoff, 1e-3) * rng.uniform(0.3, 1.5), size=(na, 3))
    if place == "voxel":
        # the voxel grid neighborlist.cpp builds: edge = 0.6*w/floor(w/cutoff), n = round(w/edge), size = w/n
        pos = rng.uniform(0, 1, (na, 3)) * ext
        upper = rng.random() < 0.4  # also the (excluded) upper faces y=b_y, z=c_z
        for ax in (1, 2):
            wdt = ext[ax]
            fl = np.floor(wdt / cutoff)
            edge = 0.6 * wdt / fl if fl > 0 else wdt
            nv = max(1, int(np.floor(wdt / edge + 0.5)))
            k = rng.integers(0, nv + (1 if upper else 0), na)
            pos[:, ax] = k * (wdt / nv)
        return pos
    frac = rng.uniform(0, 1, (na, 3))
    if place == "faces":
        frac = np.round(frac * 4) / 4
        jit = rng.random(na) < 0.3
        frac[jit] += rng.uniform(-1e-6, 1e-6, (int(jit.sum()), 3))
    pos = frac @ B
    if place in ("shift1", "shift5"):
        K = 1 if place == "shift1" else 5
        pos = pos + rng.integers(-K, K + 1, (na, 3)).astype(np.float64) @ B
    return pos


def _flat_cell(rng):
    """a general triclinic cell whose reduced box is flat along z (b_y > 2.2 c_z) with a skewed c vector"""
    best = None
    for _ in range(300):
        L, A = common.random_cell(rng, "triclinic")
        Br = reduce_like_openmm(common.cell_vectors64(L, A))
        best = (L, A)
        if Br[1, 1] > 2.2 * Br[2, 2] and abs(Br[2, 1]) > 0.1 * Br[1, 1]:
            break
    return best


def _build(case):
    import mdtraj as md
    rng = common.rng_for("C10case", case["seed"])
    nf, na = case["n_frames"], case["n_atoms"]
    cellkind = case["cell"]
    has_cell = cellkind != "none"
    periodic_flag = cellkind != "nonperiodic"
    top = common.simple_topology(na)
    if has_cell:
        kind = None if cellkind == "nonperiodic" else cellkind
        if cellkind == "triclinic-flat":
            cells = [_flat_cell(rng) for _ in range(nf if case["perframe"] else 1)]
        else:
            cells = [common.random_cell(rng, kind) for _ in range(nf if case["perframe"] else 1)]
        if not case["perframe"]:
            cells = cells * nf
        L = np.array([c[0] for c in cells], dtype=np.float32)
        A = np.array([c[1] for c in cells], dtype=np.float32)
        t = md.Trajectory(np.zeros((nf, na, 3), np.float32), top, unitcell_lengths=L, unitcell_angles=A)
        B = t.unitcell_vectors.astype(np.float64)
        wmin = min(common.cell_widths(B[f]).min() for f in range(nf))
        scale = float(wmin)
    else:
        t = md.Trajectory(np.zeros((nf, na, 3), np.float32), top)
        B = None
        scale = float(rng.uniform(1.5, 6.0))
        wmin = scale
    periodic = has_cell and periodic_flag
    mode = case["cutmode"]
    half = wmin / 2
    if mode == "tiny":
        cutoff = 1e-3 * float(rng.choice([1, 3, 10, 30]))
    elif mode == "frac":
        cutoff = half * float(rng.uniform(0.02, 1.0))
    elif mode == "big":
        cutoff = half * float(rng.uniform(0.6, 1.0))
    elif mode == "half":
        cutoff = half if rng.random() < 0.5 else half * (1 - 1e-6)
    elif mode == "third":
        cutoff = wmin / 3 * float(rng.uniform(0.97, 1.03))
    elif mode in ("thirdyz", "thirdz"):  # around a third of b_y or c_z: the voxel count along that axis switches 5 -> 3
        if has_cell:
            Br = reduce_like_openmm(B[0])
            ax = int(rng.integers(1, 3)) if mode == "thirdyz" else 2
            cutoff = min(half, float(Br[ax, ax]) / 3 * float(rng.uniform(0.78, 1.45)))
        else:
            cutoff = wmin / 3 * float(rng.uniform(0.78, 1.45))
    else:  # over: outside the periodic domain; a legitimate cutoff without periodicity
        cutoff = half * float(rng.uniform(1.02, 2.5))
    if case["kind"] != "nb":
        # the voxel hash of compute_neighborlist allocates (b_y/0.6c)*(c_z/0.6c) bins: keep it below MAXBINS (~100 MB)
        if has_cell:
            ey, ez = float(B[:, 1, 1].max()), float(B[:, 2, 2].max())
        else:
            ey = ez = scale
        cutoff = max(cutoff, float(np.sqrt(ey * ez / (0.36 * MAXBINS))))
    cutoff = float(cutoff)
    xyz = np.zeros((nf, na, 3))
    for f in range(nf):
        xyz[f] = _place(rng, case["place"], na, B[f] if has_cell else None, cutoff, scale)
    t.xyz = xyz.astype(np.float32)
    return t, (B if periodic else None), cutoff, periodic, periodic_flag, rng


# ------------------------------------------------------------------------------------------------ references
def _d64(x, pi, pj, Bf, chunk=400000):
    out = np.empty(len(pi))
    Binv = np.linalg.inv(Bf) if Bf is not None else None
    for s in range(0, len(pi), chunk):
        d = x[pj[s:s + chunk]] - x[pi[s:s + chunk]]
        if Bf is not None:
            d = d - np.round(d @ Binv) @ Bf
        out[s:s + chunk] = np.sqrt(np.einsum("ij,ij->i", d, d))
    return out


def _near_pairs(x, Bf, limit, rows=256):
    """all i<j with float64 distance < limit (chunked over rows); returns i, j, d"""
    n = len(x)
    Binv = np.linalg.inv(Bf) if Bf is not None else None
    I, J, D = [], [], []
    for s in range(0, n - 1, rows):
        e = min(n - 1, s + rows)
        d = x[None, :, :] - x[s:e, None, :]
        if Bf is not None:
            d = d - np.round(d @ Binv) @ Bf
        dd = np.sqrt(np.einsum("ijk,ijk->ij", d, d))
        ii, jj = np.nonzero(dd < limit)
        keep = jj > ii + s
        I.append(ii[keep] + s)
        J.append(jj[keep])
        D.append(dd[ii[keep], jj[keep]])
    if not I:
        return np.zeros(0, np.int64), np.zeros(0, np.int64), np.zeros(0)
    return np.concatenate(I).astype(np.int64), np.concatenate(J).astype(np.int64), np.concatenate(D)


def _d32(md, t, f, pi, pj, periodic, chunk=1000000):
    out = np.empty(len(pi), np.float64)
    fr = t[f]
    for s in range(0, len(pi), chunk):
        pairs = np.stack([pi[s:s + chunk], pj[s:s + chunk]], axis=1)
        out[s:s + chunk] = md.compute_distances(fr, pairs, periodic=periodic, opt=True)[0]
    return out


def _band(x32):
    M = float(np.abs(x32).max()) if x32.size else 0.0
    return max(1e-5, 14 * geom.EPS32 * M)


def _selfcheck(ctx, rng, x, pi, pj, d, Bf, wmin, prefer=None, nmax=1500):
    """float64 rounding oracle vs brute-force image search (reduced basis, 125 images) on a sample of pairs"""
    if Bf is None or not len(pi):
        return
    idx = np.arange(len(pi))
    if len(idx) > nmax:
        idx = np.unique(rng.integers(0, len(pi), nmax))
        if prefer is not None and len(prefer):
            idx = np.unique(np.concatenate([idx, prefer[:500]]))
    raw = x[pj[idx]] - x[pi[idx]]
    _, dmin = geom.min_image(raw, Bf)
    dom = dmin < wmin / 2 - 1e-9
    bad = dom & (np.abs(dmin - d[idx]) > 1e-9)
    bad |= ~dom & (d[idx] < wmin / 2 - 1e-9)
    if bad.any():
        k = int(np.argmax(bad))
        ctx.violation("oracle.selfcheck", "harness:oracle-selfcheck", f"rounding oracle {d[idx][k]:.9g} vs image search {dmin[k]:.9g}",
                      cell=Bf, raw=raw[k])
    else:
        ctx.ok("oracle.selfcheck", len(idx))


def _brick_class(x, Bf, cutoff):
    """where the atoms of the frame sit relative to the primary cell neighborlist.cpp assumes"""
    Br = reduce_like_openmm(Bf)
    ext = np.array([Br[0, 0], Br[1, 1], Br[2, 2]])
    tol = 1e-5
    tri = bool(np.any(np.abs(Br[[0, 0, 1, 1, 2, 2], [1, 2, 0, 2, 0, 1]]) > 0))
    # the primary cell is half open; a coordinate within a few float32 ulp of the upper face is hashed like one on it
    outside = bool((x < 0).any() or (x >= ext * (1 - 4 * geom.EPS32)).any())
    boundary = bool((x < tol).any() or (x > ext - tol).any())
    pfrac = x @ np.linalg.inv(Bf)
    in_par = bool((pfrac > -1e-6).all() and (pfrac < 1 + 1e-6).all())
    # nz = 3 voxels along z and a search range capped at nz/2 = 1 although the cutoff exceeds one voxel; the y range of
    # a z-image is shifted by c_y, so it only matters when the (reduced) c vector has a y component
    third = bool(tri and Br[2, 1] != 0 and cutoff > ext[2] / 3 * (1 - 1e-4))
    return dict(outside=outside, boundary=boundary, tri=tri, in_parallelepiped=in_par, third=third)


def _missing_key(cls):
    if cls is None:
        return "neighborlist:missing-pairs:no-cell"
    if cls["outside"]:
        return "neighborlist:missing-pairs:atoms-outside-primary-cell"
    if cls["third"]:
        return "neighborlist:missing-pairs:skewed-c-vector-cutoff-above-third-of-c_z"
    return "neighborlist:missing-pairs:atoms-inside-primary-cell:" + ("triclinic" if cls["tri"] else "ortho")


def _wrap_into_brick(x32, Bf):
    """the same atoms moved by lattice vectors into 0<=z<c_z, 0<=y<b_y, 0<=x<a_x (float32 result strictly inside)"""
    Br = reduce_like_openmm(Bf)
    x = x32.astype(np.float64)
    for k in (2, 1, 0):
        x = x - np.floor(x[:, k] / Br[k, k])[:, None] * Br[k]
    for _ in range(3):
        x32w = x.astype(np.float32)
        xw = x32w.astype(np.float64)
        done = True
        for k in (2, 1, 0):
            hi = xw[:, k] >= Br[k, k] * (1 - 8 * geom.EPS32)
            lo = xw[:, k] < 0
            if hi.any() or lo.any():
                done = False
                x[hi] -= Br[k]
                x[lo] += Br[k]
                x[:, k] = np.where(hi | lo, np.clip(x[:, k], 0.0, Br[k, k] * (1 - 16 * geom.EPS32)), x[:, k])
        if done:
            break
    return x.astype(np.float32)


# ------------------------------------------------------------------------------------------------ neighbour list
def _nl_structure(ctx, nl, n):
    """raw-output checks; returns (src, dst) directed pair arrays or None"""
    ok = True
    if not isinstance(nl, list) or len(nl) != n:
        ctx.violation("neighborlist.structure", "neighborlist:length", f"result has {len(nl)} entries for {n} atoms")
        return None
    for a in nl:
        if not isinstance(a, np.ndarray) or a.ndim != 1 or a.dtype != np.dtype(int):
            ctx.violation("neighborlist.structure", "neighborlist:dtype", f"entry is {type(a).__name__} {getattr(a, 'dtype', None)} ndim {getattr(a, 'ndim', None)}")
            return None
    lens = np.array([len(a) for a in nl], dtype=np.int64)
    src = np.repeat(np.arange(n, dtype=np.int64), lens)
    dst = np.concatenate(nl).astype(np.int64) if lens.sum() else np.zeros(0, np.int64)
    if len(dst) and (dst.min() < 0 or dst.max() >= n):
        ctx.violation("neighborlist.structure", "neighborlist:index-out-of-range", f"reported index {dst.min()}..{dst.max()} for {n} atoms")
        return None
    if (src == dst).any():
        ok = False
        ctx.violation("neighborlist.structure", "neighborlist:reflexive", f"atom {int(src[src == dst][0])} is listed as its own neighbour")
    code = src * n + dst
    u, cnt = np.unique(code, return_counts=True)
    if (cnt > 1).any():
        ok = False
        c0 = int(u[cnt > 1][0])
        ctx.violation("neighborlist.structure", "neighborlist:duplicate", f"atom {c0 // n} lists atom {c0 % n} {int(cnt[cnt > 1][0])} times")
    rev = np.unique(dst * n + src)
    if len(u) != len(rev) or (u != rev).any():
        ok = False
        asym = np.setdiff1d(u, rev)
        c0 = int(asym[0]) if len(asym) else int(np.setdiff1d(rev, u)[0])
        ctx.violation("neighborlist.structure", "neighborlist:asymmetric", f"atom {c0 // n} lists atom {c0 % n} but not the reverse")
    if ok:
        ctx.ok("neighborlist.structure")
    return src, dst


def _eval_nl(ctx, md, t, f, Bf, cutoff, periodic, nl, rng, monitor_structure=True):
    """compares one neighbour list with both references; returns None (structure broken / nothing to judge) or a dict"""
    n = t.n_atoms
    x = t.xyz[f].astype(np.float64)
    band = _band(t.xyz[f])
    sd = _nl_structure(ctx, nl, n) if monitor_structure else _nl_structure(_Null(), nl, n)
    if sd is None:
        return None
    src, dst = sd
    got = np.unique(np.minimum(src, dst) * n + np.maximum(src, dst))
    got = got[(got // n) != (got % n)]
    wmin = common.cell_widths(Bf).min() if Bf is not None else np.inf
    pi, pj, d = _near_pairs(x, Bf, cutoff + 2 * band)
    cand = pi * n + pj
    extra = np.setdiff1d(got, cand)
    if len(extra):
        ei, ej = extra // n, extra % n
        pi, pj, d = np.concatenate([pi, ei]), np.concatenate([pj, ej]), np.concatenate([d, _d64(x, ei, ej, Bf)])
        cand = pi * n + pj
    total = n * (n - 1) // 2
    # a sample of the remaining (far) pairs goes through compute_distances too
    ns = min(2000, total)
    if ns and n > 1:
        si = rng.integers(0, n, ns)
        sj = rng.integers(0, n, ns)
        m = si != sj
        si, sj = np.minimum(si[m], sj[m]), np.maximum(si[m], sj[m])
        sc = np.setdiff1d(np.unique(si * n + sj), cand)
        if len(sc):
            si, sj = sc // n, sc % n
            pi, pj, d = np.concatenate([pi, si]), np.concatenate([pj, sj]), np.concatenate([d, _d64(x, si, sj, Bf)])
            cand = pi * n + pj
    if not len(cand):
        return dict(total=total, empty=True, nmissing=0)
    d32 = _d32(md, t, f, pi, pj, periodic)
    isgot = np.isin(cand, got)
    amb = (np.abs(d - cutoff) <= band) | (np.abs(d32 - cutoff) <= band)
    s64, s32 = d < cutoff, d32 < cutoff
    conflict = ~amb & (s64 != s32)
    decided = ~amb & ~conflict
    missing = decided & s64 & ~isgot
    spurious = decided & ~s64 & isgot
    _selfcheck(ctx, rng, x, pi, pj, d, Bf, wmin, prefer=np.nonzero(missing | spurious)[0])
    return dict(total=total, empty=False, pi=pi, pj=pj, d=d, d32=d32, amb=amb, conflict=conflict, decided=decided, s64=s64,
                missing=missing, spurious=spurious, nmissing=int(missing.sum()), band=band,
                cls=_brick_class(x, Bf, cutoff) if Bf is not None else None)


class _Null:
    def ok(self, *a, **k):
        pass

    def violation(self, *a, **k):
        pass


def _judge_nl(ctx, md, t, f, Bf, cutoff, periodic, periodic_flag, nl, rng, label):
    n = t.n_atoms
    ev = _eval_nl(ctx, md, t, f, Bf, cutoff, periodic, nl, rng)
    if ev is None:
        return
    if ev["empty"]:
        if ev["total"]:
            ctx.ok("neighborlist.pairs", ev["total"])
        else:
            ctx.skip("neighborlist.pairs", "single atom: no pair to judge")
        return
    pi, pj, d, d32, cls = ev["pi"], ev["pj"], ev["d"], ev["d32"], ev["cls"]
    missing, spurious, decided, s64 = ev["missing"], ev["spurious"], ev["decided"], ev["s64"]
    if cls is not None:
        ctx.observe("nl.atoms-vs-primary-cell", "outside" if cls["outside"] else ("inside-touching-face" if cls["boundary"] else "inside"))
        if cls["third"]:
            ctx.observe("nl.skewed-c-and-cutoff>c_z/3", "outside" if cls["outside"] else "inside")
    nbad = int(missing.sum() + spurious.sum())
    if missing.any():
        k = int(np.argmax(missing))
        a, b = int(pi[k]), int(pj[k])
        keys = [_missing_key(cls)]
        where = ""
        if cls is not None:
            where = (f"; atoms of the frame {'lie partly outside' if cls['outside'] else 'all lie inside'} the primary cell 0<=x<a_x,0<=y<b_y,0<=z<c_z"
                     f"{' (all inside the unit-cell parallelepiped)' if cls['outside'] and cls['in_parallelepiped'] else ''}")
        if cls is not None and cls["outside"]:
            # differential: the same atoms moved by lattice vectors into the primary cell (a frame of its own, judged by
            # its own references).  Clean there => the loss is caused by the position of the atoms relative to the cell.
            tw = md.Trajectory(_wrap_into_brick(t.xyz[f], Bf)[None], t.topology, unitcell_lengths=t.unitcell_lengths[f:f + 1],
                               unitcell_angles=t.unitcell_angles[f:f + 1])
            nlw = md.compute_neighborlist(tw, cutoff, frame=0, periodic=periodic_flag)
            evw = _eval_nl(_Null(), md, tw, 0, Bf, cutoff, periodic, nlw, rng, monitor_structure=False)
            nw = evw["nmissing"] if evw is not None else 0
            ctx.observe("nl.missing-after-moving-atoms-into-primary-cell", "none" if nw == 0 else "some")
            if nw:
                other = _missing_key(evw["cls"])
                keys = [other] + (keys if int(missing.sum()) > nw else [])
                where += f"; {nw} pairs are still missing after moving every atom into the primary cell by lattice vectors"
            else:
                where += "; nothing is missing after moving every atom into the primary cell by lattice vectors"
        for key in keys:
            ctx.violation("neighborlist.pairs", key,
                          f"{label}: {int(missing.sum())} of {int((decided & s64).sum())} pairs within cutoff {cutoff:.6g} are not reported, e.g. atoms {a},{b} at "
                          f"distance {d[k]:.6g} (compute_distances {d32[k]:.6g}){where}",
                          frame=f, cutoff=cutoff, cell=Bf, xyz_a=t.xyz[f, a], xyz_b=t.xyz[f, b], band=ev["band"], n_atoms=n)
    if spurious.any():
        k = int(np.argmax(spurious))
        a, b = int(pi[k]), int(pj[k])
        ctx.violation("neighborlist.pairs", "neighborlist:spurious-pairs" + ("" if Bf is not None else ":no-cell"),
                      f"{label}: {int(spurious.sum())} reported pairs are beyond cutoff {cutoff:.6g}, e.g. atoms {a},{b} at distance {d[k]:.6g} "
                      f"(compute_distances {d32[k]:.6g})", frame=f, cutoff=cutoff, cell=Bf, xyz_a=t.xyz[f, a], xyz_b=t.xyz[f, b], band=ev["band"])
    ctx.ok("neighborlist.pairs", int(decided.sum()) - nbad + (ev["total"] - len(pi)))
    if ev["amb"].any():
        ctx.skip("neighborlist.pairs", "pair within the ambiguity band of the cutoff", int(ev["amb"].sum()))
    if ev["conflict"].any():
        ctx.skip("neighborlist.pairs", "references disagree (compute_distances vs float64 minimum image; C05)", int(ev["conflict"].sum()))
    ctx.observe("nl.pairs-within-cutoff", _bucket(int((decided & s64).sum())))


def _bucket(n):
    for b in (0, 1, 10, 100, 1000, 10000, 100000):
        if n <= b:
            return f"<={b}"
    return ">100000"


_gomp = None


def _set_threads(n):
    global _gomp
    if _gomp is None:
        _gomp = ctypes.CDLL("libgomp.so.1")
    _gomp.omp_set_num_threads(int(n))


def _run_nl(case, ctx, threads):
    import mdtraj as md
    t, B, cutoff, periodic, periodic_flag, rng = (_build_wide if case.get("w") else _build)(case)
    f = int(rng.integers(0, t.n_frames))
    if case.get("w") and t.n_frames > 100 and rng.random() < 0.6:
        f = int(rng.choice([t.n_frames - 1, 100, 127, 128, 129]))
    Bf = B[f] if B is not None else None
    ctx.observe("entry", "compute_neighborlist" + ("+thread-sweep" if threads else ""))
    ctx.observe("cell", case["cell"])
    ctx.observe("place", case["place"])
    ctx.observe("cutmode", case["cutmode"])
    ctx.observe("n_atoms", _bucket(t.n_atoms))
    if periodic:
        w = common.cell_widths(Bf).min()
        ctx.observe("cutoff/w_min", f"{min(cutoff / w, 9.9):.1f}")
        if cutoff > w / 2:
            ctx.skip("neighborlist.pairs", "cutoff exceeds half the smallest cell width (outside the stated domain)")
            return
    label = f"compute_neighborlist(frame={f}, periodic={periodic_flag}) [{case['cell']}, {case['place']}]"
    nl = md.compute_neighborlist(t, _cut_arg(cutoff, case), frame=_frame_arg(f, case), periodic=_pflag_arg(periodic_flag, case))
    _judge_nl(ctx, md, t, f, Bf, cutoff, periodic, periodic_flag, nl, rng, label)
    if case.get("w") and isinstance(nl, list) and len(nl) == t.n_atoms:
        _nl_history(case, ctx, md, t, B, f, cutoff, periodic, periodic_flag, nl, rng, label)
    if threads and isinstance(nl, list) and len(nl) == t.n_atoms:
        base = [np.sort(np.asarray(a)) for a in nl]
        try:
            for team in TEAMS:
                _set_threads(team)
                other = md.compute_neighborlist(t, cutoff, frame=f, periodic=periodic_flag)
                ctx.observe("omp-team", team)
                same = len(other) == len(base) and all(len(a) == len(b) and np.array_equal(np.sort(np.asarray(a)), b) for a, b in zip(other, base))
                if not same:
                    ctx.violation("neighborlist.threads", "neighborlist:result-depends-on-thread-count",
                                  f"{label}: neighbour sets with an OpenMP team of {team} differ from those with {DEFAULT_TEAM}", team=team)
                else:
                    ctx.ok("neighborlist.threads")
                    if not all(np.array_equal(a, b) for a, b in zip(other, nl)):
                        ctx.observe("nl.order-differs-between-teams", team)
        finally:
            _set_threads(DEFAULT_TEAM)


# ------------------------------------------------------------------------------------------------ compute_neighbors
def _subsets(rng, na):
    """query (may repeat, any order) and haystack (unique, any order, may overlap the query, may be empty / None)"""
    mode = int(rng.integers(0, 8))
    allidx = np.arange(na)
    qmax = max(1, min(na, int(400000 // max(na, 1))))
    if mode == 0:
        q = np.zeros(0, np.int64)
    else:
        nq = int(rng.integers(1, min(qmax, max(2, na // 2 + 1)) + 1))
        q = rng.choice(allidx, min(nq, na), replace=False)
        if rng.random() < 0.3 and len(q):
            q = np.concatenate([q, q[: int(rng.integers(1, 3))]])  # repeated query atoms
        if rng.random() < 0.5:
            q = np.sort(q)
    if mode == 1:
        h = np.zeros(0, np.int64)
    elif mode in (2, 3):
        h = None
    elif mode == 4:  # disjoint from the query
        h = np.setdiff1d(allidx, q)
    elif mode == 5:  # exactly the query
        h = np.unique(q)
    else:
        nh = int(rng.integers(1, na + 1))
        h = rng.choice(allidx, nh, replace=False)
        if rng.random() < 0.5:
            h = np.sort(h)
    if h is not None and len(h) and mode != 4 and rng.random() < 0.5:
        h = rng.permutation(h)
    return q.astype(np.int64), (None if h is None else h.astype(np.int64))


def _run_nb(case, ctx):
    import mdtraj as md
    t, B, cutoff, periodic, periodic_flag, rng = (_build_wide if case.get("w") else _build)(case)
    na, nf = t.n_atoms, t.n_frames
    q, h = _subsets(rng, na)
    if case.get("w"):
        q, h = _subsets_wide(rng, na, q, h, case, ctx)
    ctx.observe("entry", "compute_neighbors")
    ctx.observe("cell", case["cell"])
    ctx.observe("place", case["place"])
    ctx.observe("cutmode", case["cutmode"])
    ctx.observe("n_atoms", _bucket(na))
    ctx.observe("haystack", "None" if h is None else ("empty" if not len(h) else ("overlaps-query" if np.isin(h, q).any() else "disjoint")))
    ctx.observe("query", "empty" if not len(q) else ("repeated" if len(np.unique(q)) < len(q) else "unique"))
    if periodic:
        w = min(common.cell_widths(B[f]).min() for f in range(nf))
        ctx.observe("cutoff/w_min", f"{min(cutoff / w, 9.9):.1f}")
        if cutoff > w / 2:
            ctx.skip("neighbors.members", "cutoff exceeds half the smallest cell width (outside the stated domain)")
            return
    label = f"compute_neighbors(periodic={periodic_flag}, haystack={'None' if h is None else 'given'}) [{case['cell']}, {case['place']}]"
    if case.get("w"):
        res = md.compute_neighbors(t, _cut_arg(cutoff, case), common.index_arg(q, case["idx"]),
                                   haystack_indices=None if h is None else common.index_arg(h, case["hidx"]), periodic=_pflag_arg(periodic_flag, case))
    else:
        res = md.compute_neighbors(t, cutoff, q, haystack_indices=h, periodic=periodic_flag)
    H = np.arange(na, dtype=np.int64) if h is None else h
    if not isinstance(res, list) or len(res) != nf:
        ctx.violation("neighbors.structure", "neighbors:length", f"{label}: {len(res)} results for {nf} frames")
        return
    for f in range(nf):
        r = res[f]
        if not isinstance(r, np.ndarray) or r.ndim != 1 or r.dtype != np.dtype(int):
            ctx.violation("neighbors.structure", "neighbors:dtype", f"{label}: frame result is {type(r).__name__} {getattr(r, 'dtype', None)}")
            continue
        r = r.astype(np.int64)
        sok = True
        if len(r) and not np.isin(r, H).all():
            sok = False
            ctx.violation("neighbors.structure", "neighbors:not-in-haystack", f"{label}: reported atom {int(r[~np.isin(r, H)][0])} is not a haystack atom", frame=f)
        if len(np.unique(r)) != len(r):
            sok = False
            ctx.violation("neighbors.structure", "neighbors:duplicate", f"{label}: an atom is reported more than once", frame=f, result=r)
        if sok:
            ctx.ok("neighbors.structure")
        else:
            continue
        if not len(H):
            ctx.ok("neighbors.members")  # empty haystack -> empty result (checked by not-in-haystack)
            continue
        if not len(q):
            ctx.check(len(r) == 0, "neighbors.members", "neighbors:spurious:empty-query", f"{label}: atoms reported for an empty query", frame=f)
            continue
        Bf = B[f] if B is not None else None
        x = t.xyz[f].astype(np.float64)
        band = _band(t.xyz[f])
        wmin = common.cell_widths(Bf).min() if Bf is not None else np.inf
        uq = np.unique(q)
        hh, qq = np.meshgrid(H, uq, indexing="ij")
        valid = hh != qq
        pi, pj = hh[valid], qq[valid]
        d = _d64(x, pi, pj, Bf)
        d32 = _d32(md, t, f, pi, pj, periodic)
        _selfcheck(ctx, rng, x, pi, pj, d, Bf, wmin, nmax=600)
        amb = (np.abs(d - cutoff) <= band) | (np.abs(d32 - cutoff) <= band)
        conflict = ~amb & ((d < cutoff) != (d32 < cutoff))
        inn = ~amb & ~conflict & (d < cutoff)
        pos = np.searchsorted(np.sort(H), pi)  # position of the haystack atom in sorted(H)
        order = np.argsort(H)
        def_in_s = np.bincount(pos[inn], minlength=len(H)) > 0
        unsure_s = np.bincount(pos[amb | conflict], minlength=len(H)) > 0
        def_in = np.zeros(len(H), bool)
        unsure = np.zeros(len(H), bool)
        def_in[order] = def_in_s
        unsure[order] = unsure_s & ~def_in_s
        expected = H[def_in]
        undec = set(H[unsure].tolist())
        gotf = np.array([a for a in r.tolist() if a not in undec], dtype=np.int64)
        miss = np.setdiff1d(expected, gotf)
        spur = np.setdiff1d(gotf, expected)
        inq = set(uq.tolist())
        if len(miss):
            a = int(miss[0])
            sub = "query-atom-in-haystack" if all(int(m) in inq for m in miss) else "haystack-atom"
            dm = d[(pi == a) & inn].min()
            ctx.violation("neighbors.members", f"neighbors:missing:{sub}:{'periodic' if periodic else 'plain'}",
                          f"{label}: {len(miss)} haystack atoms within cutoff {cutoff:.6g} of a query atom are not reported, e.g. atom {a} "
                          f"(nearest other query atom at {dm:.6g})", frame=f, cell=Bf, query=q, band=band)
        if len(spur):
            a = int(spur[0])
            sub = "query-atom-reported-for-itself" if all(int(s) in inq for s in spur) else "haystack-atom"
            sel = pi == a
            dm = d[sel].min() if sel.any() else float("nan")
            ctx.violation("neighbors.members", f"neighbors:spurious:{sub}:{'periodic' if periodic else 'plain'}",
                          f"{label}: {len(spur)} reported atoms have no other query atom within cutoff {cutoff:.6g}, e.g. atom {a} "
                          f"(nearest other query atom at {dm:.6g})", frame=f, cell=Bf, query=q, band=band)
        nb = len(miss) + len(spur)
        ctx.ok("neighbors.members", int((~unsure).sum()) - nb)
        if unsure.any():
            ctx.skip("neighbors.members", "membership decided only by pairs in the ambiguity band / on which the references disagree", int(unsure.sum()))
        if not nb:
            if np.array_equal(gotf, expected):
                ctx.ok("neighbors.order")
            else:
                ctx.violation("neighbors.order", "neighbors:not-in-haystack-order", f"{label}: reported atoms are not in the order of the haystack",
                              frame=f, reported=gotf[:20], expected=expected[:20])
        ctx.observe("nb.reported", _bucket(len(r)))


def run_case(case, ctx):
    if case["kind"] == "nbt":
        _run_nbt(case, ctx)
    elif case["kind"] == "nb":
        _run_nb(case, ctx)
    else:
        _run_nl(case, ctx, threads=case["kind"] == "nlt")


# =====================================================================================================================
# Widening pass (appended stream; the cases above keep their numbers and seeds).  Same two references, same band.
#   arguments    query / haystack tables as int32 / list / tuple / strided or offset view / int16, independently of each
#                other; haystack descending; query = every atom; cutoff as np.float32 / np.float64 / 0-d array; frame as
#                numpy integer; periodic as np.True_ / 1 / np.False_ / 0
#   trajectory   cut out of a longer one (copy or view), every other frame, atom subset, joined, float64 coordinates,
#                cell assigned as vectors; 130 / 260 frames (compute_neighbors judged in every frame; the neighbour list
#                on frames 100..129 and the last one); per-frame cells where one field drifts / the class changes / only
#                the last frames differ / two cells alternate
#   geometry     atom counts 1..9, 15..17, 31..33, 63..65; atoms +-50 cells away; cells of 0.05 nm and of 700 nm
#   history      neighbour list of frame f, of another frame, of frame f again (identical); then the atoms of frame f are
#                moved in place (lattice vectors / small displacement) and the list is judged again on the edited frame
#   nbt          compute_neighbors with n_query x n_haystack > 65536 under OpenMP teams 1,2,3,5,8,16: identical arrays
WIDE_N = {"quick": 520, "thorough": 6000}
WIDE_KINDS = ["nb", "nl", "nb", "nl", "nb", "nbt", "nl", "nb"]
CUT_TYPES = ["float", "float", "np.float32", "np.float64", "0d-array"]
FLOORS["quick"].update({"neighbors.threads": 20, "neighborlist.repeat": 60})


def _gen_wide(tier, seed):
    n0 = NCASES[tier]
    for k in range(WIDE_N[tier]):
        i = n0 + k
        rng = common.rng_for("C10w", seed, i)
        kind = WIDE_KINDS[int(rng.integers(len(WIDE_KINDS)))]
        cell = CELLS[int(rng.integers(len(CELLS)))]
        scale = int(rng.choice([0, 0, 0, 0, -5, 7]))
        long_ = rng.random() < 0.08
        r = rng.random()
        natoms = int(rng.choice(common.SIMD_COUNTS)) if r < 0.45 else (int(rng.integers(4, 120)) if r < 0.9 else int(rng.integers(120, 700)))
        c = dict(i=i, seed=common.case_seed(seed, "C10", i), kind=kind, w=1, cell=cell,
                 place=str(rng.choice(PLACES + ["shift50", "cell", "faces"])),
                 cutmode=str(rng.choice([m for m in CUTMODES if not (scale and m == "tiny")])),
                 n_atoms=natoms, n_frames=int(rng.choice([130, 260])) if long_ else int(rng.integers(1, 6)),
                 perframe=True, pf=str(rng.choice(["const", "const"] + common.PF_MODES)), scale_log2=scale,
                 derived=str(rng.choice(common.DERIVED)) if not long_ else str(rng.choice(["none", "stride-nocopy", "join", "slice-nocopy"])),
                 idx=str(rng.choice(common.INDEX_STYLES)), hidx=str(rng.choice(common.INDEX_STYLES)),
                 hmode=str(rng.choice(["asis", "asis", "desc", "all-query", "query-is-haystack-reversed"])),
                 cut_type=str(rng.choice(CUT_TYPES)), ptrue=int(rng.integers(3)), pfalse=int(rng.integers(3)),
                 frame_type=str(rng.choice(["int", "np.int64", "np.int32"])))
        if long_:
            c["n_atoms"] = min(c["n_atoms"], 40)
        if kind == "nbt":
            c.update(n_atoms=int(rng.integers(520, 1100)), n_frames=int(rng.integers(1, 3)), derived="none", cutmode=str(rng.choice(["frac", "big", "half"])))
        yield c


def gen_cases(tier, seed):  # noqa: F811
    import itertools
    return common.with_asan_slice(itertools.chain(_gen_cases(tier, seed), _gen_wide(tier, seed)), ASAN_EVERY[tier])


def _cut_arg(cutoff, case):
    ct = case.get("cut_type", "float")
    if ct == "np.float32":
        return np.float32(cutoff)
    if ct == "np.float64":
        return np.float64(cutoff)
    if ct == "0d-array":
        return np.array(cutoff)
    return cutoff


def _frame_arg(f, case):
    ft = case.get("frame_type", "int")
    return np.int64(f) if ft == "np.int64" else (np.int32(f) if ft == "np.int32" else f)


def _pflag_arg(flag, case):
    if not case.get("w"):
        return flag
    return [True, np.True_, 1][case["ptrue"]] if flag else [False, np.False_, 0][case["pfalse"]]


def _build_wide(case):
    """_build with per-frame cell patterns, a cell scale, far-away atoms and a derived Trajectory object"""
    import mdtraj as md
    rng = common.rng_for("C10wide", case["seed"])
    nf, na = case["n_frames"], case["n_atoms"]
    cellkind = case["cell"]
    has_cell = cellkind != "none"
    periodic_flag = cellkind != "nonperiodic"
    top = common.simple_topology(na)
    sc = 2.0 ** case["scale_log2"]
    if has_cell:
        kind = None if cellkind == "nonperiodic" else cellkind
        if case["pf"] == "const":
            cells = [common.random_cell(rng, kind)] * nf
        else:
            cells = common.perframe_cells(rng, kind, nf, case["pf"], (lambda: common.random_cell(rng, kind)))
        L = (np.array([c[0] for c in cells]) * sc).astype(np.float32)
        A = np.array([c[1] for c in cells], dtype=np.float32)
        t = md.Trajectory(np.zeros((nf, na, 3), np.float32), top, unitcell_lengths=L, unitcell_angles=A)
        B = t.unitcell_vectors.astype(np.float64)
        wmin = min(common.cell_widths(B[f]).min() for f in range(nf))
        scale = float(wmin)
    else:
        t = md.Trajectory(np.zeros((nf, na, 3), np.float32), top)
        B = None
        scale = float(rng.uniform(1.5, 6.0)) * sc
        wmin = scale
    periodic = has_cell and periodic_flag
    mode = case["cutmode"]
    half = wmin / 2
    if mode == "tiny":
        cutoff = 1e-3 * float(rng.choice([1, 3, 10, 30]))
    elif mode == "frac":
        cutoff = half * float(rng.uniform(0.02, 1.0))
    elif mode == "big":
        cutoff = half * float(rng.uniform(0.6, 1.0))
    elif mode == "half":
        cutoff = half if rng.random() < 0.5 else half * (1 - 1e-6)
    elif mode == "third":
        cutoff = wmin / 3 * float(rng.uniform(0.97, 1.03))
    elif mode in ("thirdyz", "thirdz"):
        if has_cell:
            Br = reduce_like_openmm(B[int(rng.integers(nf))])
            ax = int(rng.integers(1, 3)) if mode == "thirdyz" else 2
            cutoff = min(half, float(Br[ax, ax]) / 3 * float(rng.uniform(0.78, 1.45)))
        else:
            cutoff = wmin / 3 * float(rng.uniform(0.78, 1.45))
    else:
        cutoff = half * float(rng.uniform(1.02, 2.5))
    if case["kind"] not in ("nb", "nbt"):
        if has_cell:
            ey, ez = float(B[:, 1, 1].max()), float(B[:, 2, 2].max())
        else:
            ey = ez = scale
        if not periodic and case["place"] == "shift50":
            # without periodicity the voxel grid spans the coordinate range: atoms scattered over +-50 box lengths
            ey, ez = 101.0 * ey, 101.0 * ez
        cutoff = max(cutoff, float(np.sqrt(ey * ez / (0.36 * MAXBINS))))
    cutoff = float(cutoff)
    xyz = np.zeros((nf, na, 3))
    place = case["place"]
    for f in range(nf):
        Bf = B[f] if has_cell else None
        if place == "shift50":
            pos = _place(rng, "cell", na, Bf, cutoff, scale)
            pos = pos + (rng.integers(-50, 51, (na, 3)).astype(np.float64) @ Bf if has_cell else rng.integers(-50, 51, (na, 3)) * scale)
        else:
            pos = _place(rng, place, na, Bf, cutoff, scale)
            if Bf is None and place == "shift5":
                pos = pos + 40.0 * (sc - 1.0)
        xyz[f] = pos
    t.xyz = xyz.astype(np.float32)
    t = common.derive_traj(t, case["derived"], rng)
    if has_cell:
        B = t.unitcell_vectors.astype(np.float64)
    return t, (B if periodic else None), cutoff, periodic, periodic_flag, rng


def _observe_wide(case, ctx, t):
    ctx.observe("wide.trajectory_origin", case["derived"])
    ctx.observe("wide.per_frame_cells", case["pf"])
    ctx.observe("wide.cell_scale", f"2^{case['scale_log2']}")
    ctx.observe("wide.cutoff_type", case["cut_type"])
    ctx.observe("wide.n_atoms", t.n_atoms if t.n_atoms in common.SIMD_COUNTS else "other")
    ctx.observe("wide.n_frames", "1" if t.n_frames == 1 else ("2-5" if t.n_frames <= 5 else ">=130"))
    ctx.observe("wide.periodic_flag", repr([True, np.True_, 1][case["ptrue"]]) + "/" + repr([False, np.False_, 0][case["pfalse"]]))


def _subsets_wide(rng, na, q, h, case, ctx):
    hm = case["hmode"]
    if hm == "desc" and h is not None and len(h):
        h = np.sort(h)[::-1].copy()
    elif hm == "all-query":
        q, h = np.arange(na, dtype=np.int64), None
    elif hm == "query-is-haystack-reversed" and len(q):
        h = np.unique(q)[::-1].copy()
    if len(q) * na > 400000:
        q = q[: max(1, 400000 // na)]
    ctx.observe("wide.haystack_mode", hm)
    ctx.observe("wide.query_container", case["idx"])
    ctx.observe("wide.haystack_container", case["hidx"])
    return q.astype(np.int64), (None if h is None else h.astype(np.int64))


def _nl_history(case, ctx, md, t, B, f, cutoff, periodic, periodic_flag, nl, rng, label):
    _observe_wide(case, ctx, t)
    ctx.observe("wide.frame_type", case["frame_type"])
    kw = dict(periodic=_pflag_arg(periodic_flag, case))
    base = [np.sort(np.asarray(a)) for a in nl]
    if t.n_frames > 1:
        g = int((f + 1 + rng.integers(0, t.n_frames - 1)) % t.n_frames)
        md.compute_neighborlist(t, cutoff, frame=g, **kw)
    again = md.compute_neighborlist(t, cutoff, frame=f, **kw)
    same = len(again) == len(base) and all(np.array_equal(np.sort(np.asarray(a)), b) for a, b in zip(again, base))
    ctx.check(same, "neighborlist.repeat", "neighborlist:second-call-on-the-same-frame-differs",
              f"{label}: the list of frame {f} differs when it is computed again after another frame of the same trajectory")
    if case["i"] % 3 == 0 and t.n_atoms > 1:
        # the same object, frame f edited in place
        mover = rng.choice(t.n_atoms, size=max(1, t.n_atoms // 4), replace=False)
        if B is not None and rng.random() < 0.6:
            t.xyz[f, mover] = (t.xyz[f, mover].astype(np.float64) + rng.integers(-2, 3, (len(mover), 3)).astype(np.float64) @ B[f]).astype(np.float32)
            ctx.observe("wide.history_edit", "lattice-shift-inplace")
        else:
            t.xyz[f, mover] += (rng.normal(scale=cutoff / 2, size=(len(mover), 3))).astype(np.float32)
            ctx.observe("wide.history_edit", "xyz-inplace")
        nl2 = md.compute_neighborlist(t, cutoff, frame=f, **kw)
        _judge_nl(ctx, md, t, f, B[f] if B is not None else None, cutoff, periodic, periodic_flag, nl2, rng, label + " after an in-place edit of the frame")


def _run_nbt(case, ctx):
    """compute_neighbors under different OpenMP team sizes: identical arrays (members AND order)"""
    import mdtraj as md
    t, B, cutoff, periodic, periodic_flag, rng = _build_wide(case)
    na = t.n_atoms
    q = np.sort(rng.choice(na, size=na // 2, replace=False)).astype(np.int64)
    h = None if rng.random() < 0.4 else rng.permutation(na).astype(np.int64)
    ctx.observe("entry", "compute_neighbors+thread-sweep")
    ctx.observe("cell", case["cell"])
    ctx.observe("wide.query_x_haystack", f"{len(q) * na} (> 65536)")
    if periodic:
        w = min(common.cell_widths(B[f]).min() for f in range(t.n_frames))
        if cutoff > w / 2:
            cutoff = float(w / 2 * 0.9)
    base = md.compute_neighbors(t, cutoff, q, haystack_indices=h, periodic=periodic_flag)
    label = f"compute_neighbors(periodic={periodic_flag}, {len(q)} query x {na} haystack atoms) [{case['cell']}]"
    try:
        for team in TEAMS:
            _set_threads(team)
            other = md.compute_neighbors(t, cutoff, q, haystack_indices=h, periodic=periodic_flag)
            ctx.observe("omp-team", team)
            same = len(other) == len(base) and all(np.array_equal(a, b) for a, b in zip(other, base))
            ctx.check(same, "neighbors.threads", "neighbors:result-depends-on-thread-count",
                      f"{label}: result with an OpenMP team of {team} differs from the one with {DEFAULT_TEAM}", team=team)
    finally:
        _set_threads(DEFAULT_TEAM)
    # and the result itself is judged like any other compute_neighbors case (first frame only: cost)
    f = 0
    r = base[f].astype(np.int64)
    H = np.arange(na, dtype=np.int64) if h is None else h
    Bf = B[f] if B is not None else None
    x = t.xyz[f].astype(np.float64)
    band = _band(t.xyz[f])
    hh, qq = np.meshgrid(H, q, indexing="ij")
    valid = hh != qq
    pi, pj = hh[valid], qq[valid]
    d = _d64(x, pi, pj, Bf)
    near = np.abs(d - cutoff) <= 4 * band
    d32n = _d32(md, t, f, pi[near], pj[near], periodic) if near.any() else np.zeros(0)
    amb = np.zeros(len(d), bool)
    amb[near] = (np.abs(d[near] - cutoff) <= band) | (np.abs(d32n - cutoff) <= band) | ((d[near] < cutoff) != (d32n < cutoff))
    inn = ~amb & (d < cutoff)
    pos = np.searchsorted(np.sort(H), pi)
    order = np.argsort(H)
    def_in = np.zeros(len(H), bool)
    unsure = np.zeros(len(H), bool)
    def_in[order] = np.bincount(pos[inn], minlength=len(H)) > 0
    unsure[order] = (np.bincount(pos[amb], minlength=len(H)) > 0)
    unsure &= ~def_in
    expected = H[def_in]
    undec = set(H[unsure].tolist())
    gotf = np.array([a for a in r.tolist() if a not in undec], dtype=np.int64)
    miss, spur = np.setdiff1d(expected, gotf), np.setdiff1d(gotf, expected)
    if len(miss) or len(spur):
        ctx.violation("neighbors.members", f"neighbors:large-request:{'missing' if len(miss) else 'spurious'}:{'periodic' if periodic else 'plain'}",
                      f"{label}: {len(miss)} atoms within the cutoff are not reported, {len(spur)} reported atoms are beyond it", frame=f)
    else:
        ctx.ok("neighbors.members", int((~unsure).sum()))
        if np.array_equal(gotf, expected):
            ctx.ok("neighbors.order")
        else:
            ctx.violation("neighbors.order", "neighbors:large-request:not-in-haystack-order", f"{label}: reported atoms are not in the order of the haystack", frame=f)


_run_nb_original = _run_nb


def _run_nb(case, ctx):  # noqa: F811
    if case.get("w"):
        ctx.observe("wide.hmode", case["hmode"])
    _run_nb_original(case, ctx)
